"""C09 - shortest paths are valid edge paths of minimum length (structural clauses).

Static only: every rule reads the `ast` of /repo/mouette/processing/paths.py and utils/priority_queue.py (the anchor files of C09)
and of the private helpers they call.  Nothing of mouette is imported or run.

Every rule works on the *flattened* form of a function (msa/rules/hf_flat.py: private helpers / nested functions / generator
helpers inlined, `extend(<generator>)` written as a loop, attribute and bound-method aliases replaced by what they name), finds
its constructs by role (the name bound to PriorityQueue(), the table compared in the relaxation, the variable taken from
queue.get() ...) and answers
    ok         the obligation holds,
    fail       a recognised construct contradicts it (the only way to raise an alarm),
    undecided  the code has a shape the rule does not understand.
`dijkstra` and `q1_priority_queue` are also used by C16 (dual Dijkstra loops of cutting.py) through a renaming proxy."""
from __future__ import annotations
import ast
from fractions import Fraction
from .. import au, sym, order, flow
from ..core import AnalysisError
from ..rules import skel0910 as sk
from ..rules import hf_flat, hf_walk, hf_roles as hr
from ..rules.hf_roles import FlatFn

PATHS = "processing.paths"
PQ = "utils.priority_queue"

ANCHORS = [(PATHS, "shortest_path"), (PATHS, "shortest_path_to_vertex_set")]

EXPLANATION = (
    "Static conformance of the shortest-path code to the Dijkstra skeleton, decided on the flattened form of each function "
    "(private helpers inlined, aliases resolved): arity agreement of the weight callables bound on sibling branches, confinement "
    "of the virtual-sink sentinel to the local dictionaries (flow-sensitive for its aliases, with a positional model of the "
    "back-tracked list), running-offset invariant of build_path decided piecewise-symbolically in len(path), the pop-min / "
    "visited / relaxation / push obligations of every Dijkstra loop of paths.py, agreement of the three weight modes on the edge "
    "they read, the heap contract of PriorityQueue, the predecessor back-tracking, freshness of the returned path lists and "
    "forwarding of options between the path functions. Decides structural necessary conditions, not optimality of returned paths.")

RULES = {
    "C09-A1": "all callables bound to one local name on sibling branches (edge_length) accept the arity of every call of that name",
    "C09-E1": "the virtual sink sentinel only indexes dictionaries built locally; neither it nor an alias still holding it is passed to "
              "another function, left in a returned list, or returned (accepted: key of a dict literal handed to a function that only reads "
              ".values(); first element of the back-tracked list when that element is removed again)",
    "C09-F1": "build_path: the running offset equals the number of vertices already appended at the start of every path "
              "(advanced by exactly the number of vertices appended per path, for every path length) and edges join consecutive vertices of the block",
    "C09-D1": "Dijkstra loop runs while the PriorityQueue is not empty and takes the current node from PriorityQueue.get()/pop() (pop-min, removed)",
    "C09-D2": "popped node: stale entries are skipped (`if visited[v]: continue`), the node is marked settled outside the neighbour loop; visited starts False",
    "C09-D3": "relaxation: candidate = label[v] + w(v, nv); update guarded by label[nv] > candidate (strict); label[nv] and predecessor[nv] "
              "are written under that test only, label with the candidate, predecessor with the expanded node / crossed edge",
    "C09-D4": "the neighbour is pushed with its updated label after the update (guarded at most by `not visited[nv]`); "
              "labels start at +inf, label[start] is finite and start is pushed before the loop",
    "C09-W1": "the three weight modes read the weight of the edge being relaxed: both endpoints reach the weight, the custom mode is "
              "indexed by edge_id(u, v) or by the enumeration index of the edge, never by a vertex; adjacency weights are stored symmetrically; "
              "the 'length' mode measures the current geometry (not a stored attribute)",
    "C09-Q1": "PriorityQueue: get = heappop(self.data), pop delegates to it, push = heappush(self.data, PriorityItem(x, w)) with payload/priority "
              "in field order, items are ordered by `priority` with <, empty() == (len == 0), self.data is touched by nothing else",
    "C09-B1": "back-tracking walks the predecessor table written by the relaxation from the target until `start`, records every node once "
              "including both ends (the sentinel excluded) and ends with the list in start-to-target order",
    "C09-B2": "the list returned for one target is a fresh list: an entry of the result dictionary is never extended in place through "
              "another entry (`paths[t] = paths[v]; paths[t] += ...`)",
    "C09-R1": "a variable passed positionally to a function of paths.py lands in the parameter of the same name when the callee has one",
    "C09-R2": "a path function that delegates to another path function forwards every option it shares with the delegate (a parameter of the "
              "caller that the callee also has, with a default, is passed explicitly, positionally or by keyword): the callee's default never "
              "silently replaces the caller's choice (weights, export_path_mesh)",
}

ASSUMPTIONS = [
    "non-negative edge weights (quantifier of C09); heapq semantics of CPython",
]


def run(ctx):
    ctx = hr.Gate(ctx)
    a1_arity(ctx)
    e1_sentinel(ctx)
    f1_build_path(ctx)
    item = q1_priority_queue(ctx)
    roles = {}
    m = ctx.repo.module(PATHS)
    for modname, qual in ANCHORS:
        fn = ctx.repo.func(modname, qual)
        n, rs = dijkstra(ctx, modname, fn, item, want_roles=True)
        roles[qual] = rs
    # a Dijkstra loop in a public function that is not an anchor (private helpers are analysed inlined in the anchors)
    for q, fn in sorted(m.funcs.items()):
        if "." in q or (PATHS, q) in ANCHORS or hf_flat.is_private(q):
            continue
        if pq_names(FlatFn(ctx.repo, PATHS, fn).fn):
            dijkstra(ctx, PATHS, fn, item, need_pred=False)
    w1_weight_modes(ctx)
    b1_backtracking(ctx, roles)
    b2_fresh_paths(ctx)
    r1_forwarding(ctx)


def _holds_true(x):
    """the value expression is / contains the constant True as a value (not as an option of a call such as dense=True)"""
    if isinstance(x, ast.Constant):
        return x.value is True
    if isinstance(x, (ast.List, ast.Tuple, ast.Set)):
        return any(_holds_true(e) for e in x.elts)
    if isinstance(x, ast.IfExp):
        return _holds_true(x.body) or _holds_true(x.orelse)
    if isinstance(x, ast.BinOp):
        return _holds_true(x.left) or _holds_true(x.right)
    if isinstance(x, ast.BoolOp):
        return any(_holds_true(v) for v in x.values)
    return False


def _touched_otherwise(region, name):
    """statements below `region` that may change container `name` in a way the rules do not model: augmented assignments, re-bindings,
    method calls other than add / get"""
    out = []
    for n in au.walk(region):
        if isinstance(n, ast.AugAssign):
            t = n.target
            while isinstance(t, ast.Subscript):
                t = t.value
            if isinstance(t, ast.Name) and t.id == name:
                out.append(n)
        elif isinstance(n, ast.Assign) and any(isinstance(t, ast.Name) and t.id == name for t in n.targets):
            out.append(n)
        elif isinstance(n, ast.Call) and isinstance(n.func, ast.Attribute) and isinstance(n.func.value, ast.Name) and n.func.value.id == name \
                and n.func.attr not in ("add", "get", "__getitem__", "__contains__", "keys", "values", "items", "copy"):
            out.append(n)
        elif isinstance(n, ast.Call) and not (isinstance(n.func, ast.Attribute) and isinstance(n.func.value, ast.Name) and n.func.value.id == name) \
                and any(isinstance(a, ast.Name) and a.id == name for a in list(n.args) + [k.value for k in n.keywords]) \
                and au.call_tail(n) not in ("len", "sorted", "list", "tuple", "set", "sum", "min", "max", "any", "all", "enumerate", "print"):
            out.append(n)
    return out


def _absent(ctx, F, region, rule, site, construct, what):
    """report that something is missing: a violation only when the region is fully visible to the rules, undecided otherwise"""
    if F.opaque(region):
        ctx.undecided(rule, site, construct, "part of the code concerned is not visible to the rule (a helper that was not inlined, a staged list ..)")
    else:
        ctx.fail(rule, site, construct, what)


def _flat(ctx, modname, fn):
    cache = getattr(ctx.repo, "_hf_flatfn", None)
    if cache is None:
        cache = ctx.repo._hf_flatfn = {}
    k = (modname, id(fn))
    if k not in cache:
        cache[k] = FlatFn(ctx.repo, modname, fn)
        if modname != PQ:
            _queue_normal_form(ctx, cache[k])
    return cache[k]


def _queue_normal_form(ctx, F):
    """a local list driven directly by heapq (`heappush(h, PriorityItem(x, w))`, `heappop(h)`, `len(h) > 0`) and truth tests of the heap list of a
    PriorityQueue (`while queue.data:`) are written with the PriorityQueue operations the rules know: push / get / empty"""
    fn = F.fn
    heaps = set()
    for c in au.calls(fn):
        if au.call_tail(c) in ("heappush", "heappop") and c.args and isinstance(c.args[0], ast.Name):
            d = F.definition(c.args[0].id, c)
            if (isinstance(d, ast.List) and not d.elts) or (isinstance(d, ast.Call) and au.call_tail(d) == "list" and not d.args):
                heaps.add(c.args[0].id)
    queues = pq_names(fn)
    if not heaps and not queues:
        return
    try:
        item = ctx.repo.cls(PQ, "PriorityItem")
        fields = [st.target.id for st in item.body if isinstance(st, ast.AnnAssign) and isinstance(st.target, ast.Name)]
    except AnalysisError:
        fields = ["x", "priority"]
    bad = [False]

    def empty_call(name, at):
        return ast.copy_location(ast.Call(func=ast.Attribute(value=ast.Name(id=name, ctx=ast.Load()), attr="empty", ctx=ast.Load()), args=[], keywords=[]), at)

    def heap_of(e):
        """name of the queue object whose heap list `e` denotes: a raw heap name, or <PriorityQueue>.data"""
        if isinstance(e, ast.Name) and e.id in heaps:
            return e.id
        if isinstance(e, ast.Attribute) and e.attr == "data" and isinstance(e.value, ast.Name) and e.value.id in queues:
            return e.value.id
        return None

    class T(ast.NodeTransformer):
        def visit_Call(self, n):
            self.generic_visit(n)
            t = au.call_tail(n)
            if t == "heappush" and len(n.args) == 2 and heap_of(n.args[0]) is not None:
                if not isinstance(n.args[0], ast.Name):
                    n.args[0] = ast.copy_location(ast.Name(id=heap_of(n.args[0]), ctx=ast.Load()), n.args[0])      # heappush(q.data, ..) is q.push(..)
                it = n.args[1]
                if isinstance(it, ast.Name):
                    d_it = F.definition(it.id, n) if F._attached(n) else None
                    if d_it is None:
                        cands_ = [v_ for st_ in au.stmts(fn.body) for nm_, v_ in sym.split_assign(st_) if nm_ == it.id]
                        d_it = cands_[0] if len(cands_) == 1 else None
                    if isinstance(d_it, ast.Call) and au.call_tail(d_it) == "PriorityItem":
                        it = d_it
                if isinstance(it, ast.Call) and au.call_tail(it) == "PriorityItem":
                    got = {}
                    for i, a in enumerate(it.args):
                        if i < len(fields):
                            got[fields[i]] = a
                    for kw in it.keywords:
                        got[kw.arg] = kw.value
                    if len(fields) >= 2 and fields[0] in got and fields[1] in got and len(got) == 2:
                        return ast.copy_location(ast.Call(func=ast.Attribute(value=n.args[0], attr="push", ctx=ast.Load()),
                                                          args=[got[fields[0]], got[fields[1]]], keywords=[]), n)
                bad[0] = True
                return n
            if t == "heappop" and len(n.args) == 1 and heap_of(n.args[0]) is not None:
                return ast.copy_location(ast.Call(func=ast.Attribute(value=ast.Name(id=heap_of(n.args[0]), ctx=ast.Load()), attr="get", ctx=ast.Load()),
                                                  args=[], keywords=[]), n)
            return n

        def _test(self, e):
            """a truth test of the heap list -> not q.empty()"""
            h = heap_of(e)
            if h is not None:
                return ast.copy_location(ast.UnaryOp(op=ast.Not(), operand=empty_call(h, e)), e)
            if isinstance(e, ast.UnaryOp) and isinstance(e.op, ast.Not):
                h = heap_of(e.operand)
                if h is not None:
                    return empty_call(h, e)
                e.operand = self._test(e.operand)
                return e
            if isinstance(e, ast.BoolOp):
                e.values = [self._test(v) for v in e.values]
                return e
            if isinstance(e, ast.Compare) and len(e.ops) == 1:
                l, r = e.left, e.comparators[0]
                for a, b_, flip in ((l, r, False), (r, l, True)):
                    if isinstance(a, ast.Call) and au.call_tail(a) == "len" and len(a.args) == 1 and heap_of(a.args[0]) is not None and au.const(b_) == 0:
                        h = heap_of(a.args[0])
                        op = type(e.ops[0])
                        if flip:
                            op = {ast.Lt: ast.Gt, ast.Gt: ast.Lt, ast.LtE: ast.GtE, ast.GtE: ast.LtE}.get(op, op)
                        if op in (ast.Gt, ast.NotEq):
                            return ast.copy_location(ast.UnaryOp(op=ast.Not(), operand=empty_call(h, e)), e)
                        if op in (ast.Eq, ast.LtE):
                            return empty_call(h, e)
            return e

        def visit_While(self, n):
            self.generic_visit(n)
            n.test = self._test(n.test)
            return n

        def visit_If(self, n):
            self.generic_visit(n)
            n.test = self._test(n.test)
            return n
    new_body = [T().visit(st) for st in fn.body]
    if bad[0]:
        return
    fn.body = new_body
    # the heap lists themselves become queues
    for st in au.stmts(fn.body):
        if isinstance(st, (ast.Assign, ast.AnnAssign)) and st.value is not None:
            tg = au.assign_targets(st)
            if len(tg) == 1 and isinstance(tg[0], ast.Name) and tg[0].id in heaps and \
                    ((isinstance(st.value, ast.List) and not st.value.elts) or (isinstance(st.value, ast.Call) and au.call_tail(st.value) == "list" and not st.value.args)):
                st.value = ast.copy_location(ast.Call(func=ast.Name(id="PriorityQueue", ctx=ast.Load()), args=[], keywords=[]), st.value)
    ast.fix_missing_locations(fn)
    F.refresh()


# ----------------------------------------------------------------------- C09-A1
def a1_arity(ctx):
    m = ctx.repo.module(PATHS)
    ctx.repo.func(PATHS, "shortest_path")
    n = 0
    for q, fn in sorted(m.funcs.items()):
        if "." in q:
            continue
        F = _flat(ctx, PATHS, fn)
        k, nm = sk.arity_agreement(ctx, "C09-A1", PATHS, F.fn)
        n += k
    if n < 1:
        ctx.ok("C09-A1", ctx.site(PATHS, ctx.repo.func(PATHS, "shortest_path")), "no callable is bound to a local name on sibling branches")


# ----------------------------------------------------------------------- sentinels
DICT_METHODS = {"get", "pop", "setdefault", "keys", "values", "items", "__contains__", "__getitem__", "__setitem__"}
DICT_CTORS = ("dict", "defaultdict", "OrderedDict", "fromkeys")
LIST_CTORS = ("list", "zeros", "full", "ones", "empty", "array", "arange", "ArrayAttribute", "Attribute")


def _is_dict_ctor(e):
    return isinstance(e, (ast.Dict, ast.DictComp)) or (isinstance(e, ast.Call) and au.call_tail(e) in DICT_CTORS)


def _is_list_ctor(e):
    if isinstance(e, (ast.List, ast.ListComp, ast.Tuple)):
        return True
    if isinstance(e, ast.BinOp) and isinstance(e.op, ast.Mult) and (isinstance(e.left, ast.List) or isinstance(e.right, ast.List)):
        return True
    return isinstance(e, ast.Call) and au.call_tail(e) in LIST_CTORS


def _root(e):
    while isinstance(e, (ast.Subscript, ast.Attribute)):
        e = e.value
    return e


def _neg_int(e):
    c = au.const(e)
    return isinstance(c, int) and not isinstance(c, bool) and c < 0


def module_constants(mod):
    out = {}
    for st in mod.tree.body:
        if isinstance(st, ast.Assign) and len(st.targets) == 1 and isinstance(st.targets[0], ast.Name):
            out.setdefault(st.targets[0].id, []).append(st.value)
        elif isinstance(st, ast.AnnAssign) and isinstance(st.target, ast.Name) and st.value is not None:
            out.setdefault(st.target.id, []).append(st.value)
    return {k: v[0] for k, v in out.items() if len(v) == 1}


def sentinels(F: FlatFn, mod):
    """names that denote a negative integer constant in the function (local, bound once; or a module-level constant) and index something"""
    fn = F.fn
    params = set(F.params)
    used_as_index = set()
    for n in au.walk(fn):
        if isinstance(n, ast.Subscript) and isinstance(n.slice, ast.Name):
            used_as_index.add(n.slice.id)
        if isinstance(n, ast.Subscript) and isinstance(n.slice, ast.Tuple):
            used_as_index.update(x.id for x in n.slice.elts if isinstance(x, ast.Name))
    out = {}
    consts = module_constants(mod)
    for name, v in F.b.defs.items():
        if F.b.single(name) and name not in params:
            if _neg_int(v):
                out[name] = v
            elif isinstance(v, ast.Name) and v.id in consts and v.id not in F.b.count and _neg_int(consts[v.id]):
                out[name] = consts[v.id]
            elif isinstance(v, ast.Name) and F.b.single(v.id) and v.id not in params and _neg_int(F.b.defs.get(v.id)):
                out[name] = F.b.defs[v.id]
    for name in {n.id for n in au.walk(fn) if isinstance(n, ast.Name) and isinstance(n.ctx, ast.Load)}:
        if name in consts and _neg_int(consts[name]) and name not in F.b.count:
            out[name] = consts[name]
    return {k: v for k, v in out.items()}, used_as_index


# ----------------------------------------------------------------------- C09-E1
def e1_sentinel(ctx):
    repo = ctx.repo
    fn0 = repo.func(PATHS, "shortest_path_to_vertex_set")
    F = _flat(ctx, PATHS, fn0)
    fn = F.fn
    site = ctx.site(PATHS, fn0)
    b = F.b
    params = set(F.params)
    sents, used = sentinels(F, repo.module(PATHS))
    cands = [s for s in sents if s in used]
    if len(cands) != 1:
        ctx.undecided("C09-E1", site, "virtual sink sentinel not identified",
                      f"{len(cands)} name(s) denote a negative integer constant and are used as a key; the virtual sink of the vertex-set "
                      "query cannot be identified")
        return
    S = cands[0]
    sval = au.src(sents[S])
    aliases = {t.id for st in au.stmts(fn.body) if isinstance(st, ast.Assign) and isinstance(st.value, ast.Name)
               and st.value.id == S for t in st.targets if isinstance(t, ast.Name)}
    # local sequences built once from a literal that contains the sentinel: nodes = [*ids, SINK] / list(ids) + [SINK]
    colls = set()
    walk_lists = {w.lst.id for lp_, w, why_ in hf_walk.find_walks(F, _start_names(F, None)) if w is not None and isinstance(w.lst, ast.Name)}
    for st in au.stmts(fn.body):
        if isinstance(st, ast.Assign) and len(st.targets) == 1 and isinstance(st.targets[0], ast.Name) and b.single(st.targets[0].id) \
                and _seq_with(st.value, S) and st.targets[0].id not in walk_lists:
            colls.add(st.targets[0].id)

    def holds(e):
        return _literal_with(e, S) or (isinstance(e, ast.Name) and e.id in colls)
    # loop targets ranging over a literal that contains the sentinel
    for st in au.stmts(fn.body):
        if isinstance(st, ast.For) and holds(st.iter):
            aliases |= set(au.assigned_names(st.target))
    # second-order aliases (x = alias)
    for _ in range(3):
        for st in au.stmts(fn.body):
            if isinstance(st, ast.Assign) and isinstance(st.value, ast.Name) and st.value.id in aliases:
                aliases |= {t.id for t in st.targets if isinstance(t, ast.Name)}
    universe = frozenset(aliases)
    escapes = {}      # id(node) -> (node, kind)
    unknown = {}      # id(node) -> (node, what)  : cannot be classified
    goods = {}
    appended = []     # (Name node, append call)

    def container_kind(name_node, at):
        """'dict' | 'list' | None (unknown) for the container a sentinel indexes"""
        if not isinstance(name_node, ast.Name) or name_node.id in params:
            return None
        d = F.definition(name_node.id, at)
        if d is None:
            return None
        if _is_dict_ctor(d):
            return "dict"
        if _is_list_ctor(d):
            return "list"
        return None

    def values_only(callee, pname):
        """does the callee look at the keys of its dict parameter?  True: never (only `p.values()`, `len(p)`, truth tests, `for k, x in p.items()` /
        `for k in p` with k used only to read `p[k]`) ; False: a key is used for something else ; None: a use of the parameter is not understood"""
        uses = [n for n in au.walk(callee) if isinstance(n, ast.Name) and n.id == pname and isinstance(n.ctx, ast.Load)]
        verdict = True

        def key_only_indexes(k, loop):
            """every read of key variable k is `p[k]`"""
            for x in au.walk(callee):
                if isinstance(x, ast.Name) and x.id == k and isinstance(x.ctx, ast.Load):
                    px = au.parent(x)
                    if isinstance(px, ast.Subscript) and px.slice is x and isinstance(px.value, ast.Name) and px.value.id == pname:
                        continue
                    if isinstance(px, ast.Call) and isinstance(px.func, ast.Attribute) and px.func.attr in ("get", "__getitem__") and isinstance(px.func.value, ast.Name) \
                            and px.func.value.id == pname and px.args and px.args[0] is x:
                        continue
                    if isinstance(px, ast.Call) and au.call_tail(px) in ("print", "str", "repr", "format", "debug", "info", "log", "warning", "warn", "error", "exception", "critical"):
                        continue
                    if isinstance(px, ast.FormattedValue):
                        continue            # shown in an f-string
                    return False
            return True
        for u in uses:
            p = au.parent(u)
            if isinstance(p, ast.Call) and au.call_tail(p) in ("len", "bool") and p.args and p.args[0] is u:
                continue
            if isinstance(p, (ast.If, ast.While, ast.IfExp)) and p.test is u:
                continue
            if isinstance(p, ast.UnaryOp) and isinstance(p.op, ast.Not):
                continue
            if isinstance(p, ast.BoolOp):
                continue
            if isinstance(p, ast.Subscript) and p.value is u and isinstance(p.ctx, ast.Load):
                continue                        # p[k]: reads a value (where k comes from is judged at the loop that binds it)
            if isinstance(p, ast.Attribute) and p.attr == "get" and isinstance(au.parent(p), ast.Call) and au.parent(p).func is p:
                continue
            if isinstance(p, (ast.For, ast.comprehension)) and p.iter is u and isinstance(p.target, ast.Name):
                if key_only_indexes(p.target.id, p):
                    continue
                verdict = False
                continue
            if isinstance(p, ast.Attribute) and isinstance(au.parent(p), ast.Call) and au.parent(p).func is p:
                if p.attr == "values":
                    continue
                lp = au.parent(au.parent(p))
                if p.attr == "items" and isinstance(lp, (ast.For, ast.comprehension)) and lp.iter is au.parent(p) and isinstance(lp.target, ast.Tuple) \
                        and len(lp.target.elts) == 2 and isinstance(lp.target.elts[0], ast.Name):
                    if key_only_indexes(lp.target.elts[0].id, lp):
                        continue
                    verdict = False
                    continue
                if p.attr == "keys" and isinstance(lp, (ast.For, ast.comprehension)) and lp.iter is au.parent(p) and isinstance(lp.target, ast.Name):
                    if key_only_indexes(lp.target.id, lp):
                        continue
                    verdict = False
                    continue
            if verdict is True:
                verdict = None
        return verdict

    def classify(n):
        """n: a Name node that holds the sentinel at this point.  None = accepted; ('escape', text); ('unknown', text)"""
        p = au.parent(n)
        if isinstance(p, ast.Subscript) and (p.slice is n or (isinstance(p.slice, ast.Tuple) and any(x is n for x in p.slice.elts))):
            r = _root(p.value)
            k = container_kind(r, n)
            if k == "dict":
                return None
            if k == "list":
                d_ = F.definition(r.id, n)
                d_ = F.resolve(d_, n) if d_ is not None else None
                if d_ is not None and any(isinstance(x, ast.BinOp) and isinstance(x.op, ast.Add) and any(au.const(y) == 1 for y in (x.left, x.right)) for x in ast.walk(d_)):
                    return ("unknown", "indexes a list that has one extra slot")
                grown = [c_ for c_ in au.calls(fn) if isinstance(c_.func, ast.Attribute) and c_.func.attr in ("append", "extend", "insert") and isinstance(c_.func.value, ast.Name)
                         and F.root(c_.func.value.id, c_) == F.root(r.id, n)]
                odd_range = d_ is not None and any(isinstance(x, ast.Call) and au.call_tail(x) == "range" and len(x.args) != 1 for x in ast.walk(d_))
                if grown or odd_range or d_ is None:
                    return ("unknown", "indexes a list whose size is not the number of vertices")
                return ("escape", "indexes a list / array (a negative index silently aliases the slot of the last vertex)")
            return ("unknown", "indexes a container whose construction is not visible in this function")
        if isinstance(p, ast.Tuple) and isinstance(au.parent(p), ast.Subscript) and au.parent(p).slice is p:
            return classify_tuple_key(p, n)
        if isinstance(p, ast.Compare):
            return None
        if isinstance(p, ast.Assign) and p.value is n and all(isinstance(t, ast.Name) for t in p.targets):
            return None
        if isinstance(p, (ast.Tuple, ast.List)) and isinstance(au.parent(p), (ast.For, ast.comprehension)) and au.parent(p).iter is p:
            gp = au.parent(p)
            if isinstance(gp, ast.For):
                return None                      # the loop target is tracked as an alias
            return classify_comprehension(gp, n)
        if isinstance(p, ast.List) and len(p.elts) == 1 and isinstance(au.parent(p), ast.Assign) and au.parent(p).value is p \
                and all(isinstance(t, ast.Name) for t in au.parent(p).targets):
            appended.append((n, p))          # L = [SINK]: the origin of a list-based back-tracking (decided with the positional model)
            return None
        st_ = au.enclosing_stmt(n)
        if isinstance(p, (ast.List, ast.Tuple, ast.Set)) and isinstance(st_, ast.Assign) and len(st_.targets) == 1 and isinstance(st_.targets[0], ast.Name) \
                and st_.targets[0].id in colls:
            return None                      # element of a local sequence whose uses are checked below
        if isinstance(p, ast.Starred):
            return ("unknown", "is unpacked into a sequence")
        if isinstance(p, ast.Dict) and any(k is n for k in p.keys):
            c = au.parent(p)
            if isinstance(c, ast.Call) and isinstance(c.func, ast.Name) and any(a is p for a in c.args):
                r = repo.resolve_func(PATHS, c.func.id)
                if r and r[1] is not None:
                    callee = r[1]
                    ps = [a.arg for a in callee.args.posonlyargs + callee.args.args]
                    i = [id(a) for a in c.args].index(id(p))
                    vo = values_only(callee, ps[i]) if i < len(ps) else None
                    if vo is True:
                        return None
                    if vo is None:
                        return ("unknown", f"is a key of a dictionary handed to {c.func.id}(...), whose use of the dictionary is not understood")
                return ("escape", f"is a key of a dictionary handed to {c.func.id}(...), which does not only read .values()")
            if isinstance(c, ast.Assign) and len(c.targets) == 1 and isinstance(c.targets[0], ast.Subscript) and c.value is p \
                    and container_kind(_root(c.targets[0].value), n) == "dict":
                return None             # table[s] = {**table[s], SINK: 0} : a row of a local table
            if isinstance(c, ast.Assign) and len(c.targets) == 1 and isinstance(c.targets[0], ast.Name) and c.value is p:
                # a local table created with its sink row: the same as `table[SINK] = ..` later, as long as the table stays local
                tn = c.targets[0].id
                def reaches(x):
                    try:
                        d_ = F.b.reaching(tn, au.enclosing_stmt(x))
                    except Exception:
                        return True
                    return d_ is p or d_ is None or d_ is sym.Bindings.AMBIG
                leaves = [x for x in au.walk(fn) if isinstance(x, ast.Name) and x.id == tn and isinstance(x.ctx, ast.Load) and reaches(x)
                          and (isinstance(au.parent(x), (ast.Return, ast.keyword)) or (isinstance(au.parent(x), ast.Call) and any(a is x for a in au.parent(x).args))
                               or (isinstance(au.parent(x), (ast.Tuple, ast.List)) and isinstance(au.parent(au.parent(x)), ast.Return)))]
                return None if not leaves else ("unknown", "is a key of a local dictionary that is handed on")
            return ("escape", "is a key of a dictionary that leaves the local tables")
        if isinstance(p, ast.DictComp) and p.key is n:
            return None
        if isinstance(p, ast.Call) and (any(a is n for a in p.args)):
            f = p.func
            if isinstance(f, ast.Attribute) and f.attr in DICT_METHODS and container_kind(_root(f.value), n) == "dict":
                return None
            if isinstance(f, ast.Attribute) and f.attr in ("append", "insert") and isinstance(_root(f.value), ast.Name):
                appended.append((n, p))
                return None                      # decided below with the positional model of the list
            if au.call_tail(p) in ("print", "str", "repr", "format", "isinstance", "debug", "info", "warning", "log", "hash", "id", "type"):
                return None                      # shown / inspected, not used as a vertex
            if au.call_tail(p) in ("range", "min", "max", "abs", "int", "float", "len", "sorted", "list", "tuple", "set", "chain"):
                return ("unknown", f"is an argument of {au.call_tail(p)}(..)")
            if isinstance(f, ast.Attribute) and f.attr in ("appendleft",) and isinstance(_root(f.value), ast.Name):
                appended.append((n, p))
                return None
            if isinstance(f, ast.Attribute) and isinstance(_root(f.value), ast.Name) and _root(f.value).id not in params \
                    and _root(f.value).id in F.b.count:
                return ("unknown", f"is passed to a method of a local object in `{au.src(au.enclosing_stmt(n))[:50]}`")
            if isinstance(f, ast.Name) and f.id in repo.module(PATHS).funcs and f.id != "build_path":
                return ("unknown", f"is passed to {f.id}(...), a function of the path module whose use of it is not analysed")
            return ("escape", f"is passed as an argument to {au.call_name(p) or au.src(p.func)}(...)")
        if isinstance(p, ast.keyword) and isinstance(au.parent(p), ast.Call):
            return ("escape", f"is passed as an argument to {au.call_name(au.parent(p)) or '<call>'}(...)")
        if isinstance(p, ast.Return) or (isinstance(p, (ast.Tuple, ast.List)) and isinstance(au.parent(p), ast.Return)):
            return ("escape", "is returned to the caller")
        if isinstance(p, (ast.Tuple, ast.List)) and isinstance(au.parent(p), ast.Assign) and au.parent(p).value is p:
            return None  # parallel assignment source: handled as alias-free (declared below)
        if isinstance(p, (ast.IfExp, ast.BoolOp, ast.UnaryOp)):
            return ("unknown", f"is used in `{au.src(au.enclosing_stmt(n))[:60]}`")
        return ("unknown", f"is used in `{au.src(au.enclosing_stmt(n))[:60]}`, outside the sentinel idioms the rule knows")

    def classify_tuple_key(tup, n):
        return ("unknown", "is part of a tuple key")

    def classify_comprehension(gen, n):
        """the sentinel is an element of the literal a comprehension ranges over: its target holds it"""
        comp = au.parent(gen)
        tnames = set(au.assigned_names(gen.target))
        bad = None
        for x in ast.walk(comp):
            if isinstance(x, ast.Name) and x.id in tnames and isinstance(x.ctx, ast.Load):
                px = au.parent(x)
                if isinstance(comp, ast.DictComp) and comp.key is x:
                    continue
                if isinstance(px, ast.Tuple) and px is getattr(comp, "elt", None) and px.elts[0] is x and isinstance(au.parent(comp), ast.Call) \
                        and au.call_tail(au.parent(comp)) == "dict":
                    continue
                if isinstance(px, ast.Subscript) and px.slice is x and container_kind(_root(px.value), comp) == "dict":
                    continue
                if isinstance(px, ast.Compare):
                    continue
                bad = ("unknown", f"ranges over a literal containing the sentinel in `{au.src(comp)[:60]}`")
        if bad:
            return bad
        if isinstance(comp, ast.DictComp):
            return None
        if isinstance(comp, (ast.ListComp, ast.GeneratorExp)) and isinstance(comp.elt, ast.Tuple) and len(comp.elt.elts) == 2 \
                and isinstance(comp.elt.elts[0], ast.Name) and comp.elt.elts[0].id in tnames and not (tnames & au.names(comp.elt.elts[1])) \
                and isinstance(au.parent(comp), ast.Call) and au.call_tail(au.parent(comp)) == "dict":
            return None          # dict([(k, value) for k in ..]) : keys of a dictionary built here
        return ("unknown", f"ranges over a literal containing the sentinel in `{au.src(comp)[:60]}`")

    def classify_coll(n):
        """n: a Name node denoting a local sequence that contains the sentinel"""
        p = au.parent(n)
        if isinstance(p, ast.For) and p.iter is n:
            return None
        if isinstance(p, ast.comprehension) and p.iter is n:
            return classify_comprehension(p, n)
        if isinstance(p, ast.Call) and au.call_tail(p) in ("len",) and p.args and p.args[0] is n:
            return None
        if isinstance(p, ast.Call) and au.call_tail(p) == "fromkeys" and p.args and p.args[0] is n:
            return None                      # keys of a dictionary built here
        return ("unknown", f"is an element of a sequence used in `{au.src(au.enclosing_stmt(n))[:60]}`")

    def scan(state, node):
        for n in au.walk(node):
            if isinstance(n, ast.Name) and isinstance(n.ctx, ast.Load) and n.id in colls:
                k = classify_coll(n)
                if k is None:
                    goods[id(n)] = n
                elif k[0] == "escape":
                    escapes[id(n)] = (n, k[1])
                else:
                    unknown[id(n)] = (n, k[1])
                continue
            if isinstance(n, ast.Name) and isinstance(n.ctx, ast.Load):
                if n.id == S:
                    pass
                elif n.id in universe and n.id not in state:
                    pass
                else:
                    continue
                k = classify(n)
                if k is None:
                    goods[id(n)] = n
                elif k[0] == "escape":
                    escapes[id(n)] = (n, k[1])
                else:
                    unknown[id(n)] = (n, k[1])

    def t_stmt(state, st):
        if isinstance(st, flow._ForHead):
            scan(state, st.iter)
            tg = {x for x in au.assigned_names(st.target) if x in universe}
            return (state - tg) if holds(st.iter) else (state | tg)
        scan(state, st)
        if isinstance(st, ast.Assign):
            pairs = dict(sym.split_assign(st))
            for t in st.targets:
                for nm in au.assigned_names(t):
                    if nm not in universe:
                        continue
                    v = pairs.get(nm)
                    tainted = isinstance(v, ast.Name) and (v.id == S or (v.id in universe and v.id not in state))
                    state = (state - {nm}) if tainted else (state | {nm})
        elif isinstance(st, (ast.AugAssign, ast.AnnAssign)):
            for nm in au.assigned_names(st.target):
                if nm in universe:
                    state = state | {nm}
        return state

    def t_test(state, e):
        scan(state, e)
        return state

    fl = flow.Flow(t_stmt, t_test)
    fl.run(fn.body, universe)
    # the back-tracked list: an alias appended while it may still hold the sentinel
    for n, call in appended:
        verdict = _sentinel_in_list(F, n, _start_names(F, None))
        if verdict == "dropped":
            goods[id(n)] = n
        elif verdict == "kept":
            escapes[id(n)] = (n, "is appended to the list that is returned (it is the first element recorded and is never removed)")
        else:
            unknown[id(n)] = (n, "is appended to a list whose later use the rule cannot follow")
    for n in goods.values():
        ctx.ok("C09-E1", ctx.site(PATHS, fn0, n), "sentinel used as key of a local dictionary / in a comparison")
    if escapes:
        kinds = sorted({k for _, k in escapes.values()})
        first = min((n for n, _ in escapes.values()), key=F.pos)
        s2 = ctx.site(PATHS, fn0, first)
        branch = sorted({("" if p else "not ") + au.src(e) for nn, _ in escapes.values() for e, p in au.guards(nn)[-1:]})
        ctx.fail("C09-E1", s2, "the sentinel of the virtual sink escapes the local dictionaries",
                 f"it {'; '.join(kinds)}: {S} = {sval} is the virtual sink, not a vertex of the mesh: the callee / caller receives "
                 f"{sval} as a vertex index (KeyError or a wrong vertex) whenever the branch `{', '.join(branch)}` is taken",
                 escapes=[k for n, k in escapes.values()])
    if unknown:
        kinds = sorted({k for _, k in unknown.values()})
        first = min((n for n, _ in unknown.values()), key=F.pos)
        ctx.undecided("C09-E1", ctx.site(PATHS, fn0, first), "a use of the virtual sink sentinel is not understood", "; ".join(kinds))


def _seq_with(e, S):
    """a list / tuple expression one of whose literal parts contains the sentinel: [*ids, S], (*ids, S), list(ids) + [S], [S] + list(ids)"""
    if _literal_with(e, S):
        return True
    if isinstance(e, ast.BinOp) and isinstance(e.op, ast.Add):
        return _seq_with(e.left, S) or _seq_with(e.right, S)
    if isinstance(e, ast.Call) and au.call_tail(e) in ("list", "tuple") and len(e.args) == 1:
        return _seq_with(e.args[0], S)
    return False


def _literal_with(e, S):
    return isinstance(e, (ast.Tuple, ast.List, ast.Set)) and any(isinstance(x, ast.Name) and x.id == S for x in e.elts)


def _start_names(F, roles):
    out = set()
    for r in roles or []:
        if isinstance(r.get("start"), ast.Name):
            out.add(r["start"].id)
    if not out and len(F.params) > 1:
        out.add(F.params[1])
    return out


def _sentinel_in_list(F, node, start_names):
    """the sentinel (Name node `node`) is put into a list by the back-tracking: is it removed again before the list is used?
    'dropped' | 'kept' | 'unknown'"""
    for lp, w, why in hf_walk.find_walks(F, start_names):
        if w is None or w.problem:
            continue
        is_origin = False
        if w.record is not None and any(n is node for n in ast.walk(w.record)):
            is_origin = True                                   # recorded inside the loop while it may still be the sentinel
        d = F.definition(w.lst.id, w.loop) if isinstance(w.lst, ast.Name) else None
        if isinstance(d, ast.List) and any(n is node for n in ast.walk(d)):
            is_origin = True                                   # L = [SINK] ; while L[0] != start: ...
        if not is_origin:
            continue
        hf_walk.follow(F, w, start_names)
        if w.unknown or w.problem:
            return "unknown"
        return "kept" if w.has_origin else "dropped"
    return "unknown"


class Unsup(Exception):
    pass


class _Region:
    """L == c (point) or L >= m (tail)."""

    def __init__(self, point=None, tail=None):
        self.point, self.tail = point, tail

    def L(self):
        return sym.Poly.const(self.point) if self.point is not None else sym.Poly.atom("L")

    def __str__(self):
        return f"len(path) == {self.point}" if self.point is not None else f"len(path) >= {self.tail}"

    def sign(self, p: sym.Poly, lower=None):
        """sign of polynomial p (in L and loop variables with lower bounds) over the region: -1, 0, +1 or None.
        `lower`: atom -> Poly lower bound (loop variables)."""
        lower = dict(lower or {})
        # substitute i = lo + t (t >= 0), L = m + s (s >= 0): all coefficients of one sign => decided
        q = sym.Poly()
        for mono, coef in p.t.items():
            term = sym.Poly.const(coef)
            for a in mono:
                if a == "L":
                    term = term * (sym.Poly.const(self.tail) + sym.Poly.atom("s_L") if self.point is None else sym.Poly.const(self.point))
                elif a in lower:
                    lo = lower[a]
                    # lower bound itself may mention L
                    lo2 = sym.Poly()
                    for m2, c2 in lo.t.items():
                        t2 = sym.Poly.const(c2)
                        for a2 in m2:
                            if a2 == "L":
                                t2 = t2 * (sym.Poly.const(self.tail) + sym.Poly.atom("s_L") if self.point is None else sym.Poly.const(self.point))
                            else:
                                raise Unsup(f"bound mentions {a2}")
                        lo2 = lo2 + t2
                    term = term * (lo2 + sym.Poly.atom("t_" + a))
                else:
                    raise Unsup(f"free symbol {a}")
            q = q + term
        if q.is_zero():
            return 0
        vals = list(q.t.values())
        if all(v > 0 for v in vals):
            # all slack variables >= 0: q >= const term; positive if const term > 0
            return 1 if q.t.get((), 0) > 0 else None
        if all(v < 0 for v in vals):
            return -1 if q.t.get((), 0) < 0 else None
        if q.is_const():
            c = q.const_value()
            return 0 if c == 0 else (1 if c > 0 else -1)
        # mixed: e.g. s_L + 0 with no constant => >= 0 but not strict
        return None

    def nonneg(self, p, lower=None):
        s = self.sign(p, lower)
        if s is not None:
            return s >= 0
        s1 = self.sign(p + 1, lower)
        if s1 == 1:
            return True
        return None


def _unstage_mesh_lists(F):
    """`P = []` ... `P.append(x)` ... `M = Ctor()` ; `M.vertices += P` (same for edges): the staging list P is the container M.vertices filled later in one go.
    Written as direct appends to M.vertices (M created where P was), when P has no other use."""
    fn = F.fn
    changed = False
    for st in list(fn.body):
        if not (isinstance(st, ast.AugAssign) and isinstance(st.op, ast.Add) and isinstance(st.value, ast.Name) and isinstance(st.target, ast.Attribute)
                and isinstance(st.target.value, ast.Name) and st.target.attr in ("vertices", "edges")):
            if not (isinstance(st, ast.Expr) and isinstance(st.value, ast.Call) and isinstance(st.value.func, ast.Attribute) and st.value.func.attr == "extend"
                    and len(st.value.args) == 1 and isinstance(st.value.args[0], ast.Name) and isinstance(st.value.func.value, ast.Attribute)
                    and isinstance(st.value.func.value.value, ast.Name) and st.value.func.value.attr in ("vertices", "edges")):
                continue
            target, P = st.value.func.value, st.value.args[0].id
        else:
            target, P = st.target, st.value.id
        M = target.value.id
        pdefs = [x for x in fn.body if isinstance(x, ast.Assign) and len(x.targets) == 1 and isinstance(x.targets[0], ast.Name) and x.targets[0].id == P]
        mdefs = [x for x in fn.body if isinstance(x, (ast.Assign, ast.AnnAssign)) and any(isinstance(t, ast.Name) and t.id == M for t in au.assign_targets(x))]
        if len(pdefs) != 1 or len(mdefs) != 1 or F.b.count.get(P) != 1 or F.b.count.get(M) != 1:
            continue
        pd, md = pdefs[0], mdefs[0]
        if not ((isinstance(pd.value, ast.List) and not pd.value.elts) or (isinstance(pd.value, ast.Call) and au.call_tail(pd.value) == "list" and not pd.value.args)):
            continue
        if not isinstance(md.value, ast.Call) or au.names(md.value) & set(F.b.count):
            continue            # the constructor must not depend on locals (it is moved up)
        uses = [n for n in au.walk(fn) if isinstance(n, ast.Name) and n.id == P and isinstance(n.ctx, ast.Load)]
        ok = True
        for u in uses:
            par = au.parent(u)
            if au.enclosing_stmt(u) is st:
                continue
            if not (isinstance(par, ast.Attribute) and par.attr in ("append",) and isinstance(au.parent(par), ast.Call) and au.parent(par).func is par):
                ok = False
        # nothing else touches M.<field> between the creation of M and the hand-over
        others = [n for n in au.walk(fn) if isinstance(n, ast.Attribute) and n.attr == target.attr and isinstance(n.value, ast.Name) and n.value.id == M
                  and au.enclosing_stmt(n) is not st]
        if not ok or others:
            continue

        class T(ast.NodeTransformer):
            def visit_Name(self, n):
                if n.id == P and isinstance(n.ctx, ast.Load):
                    return ast.copy_location(ast.Attribute(value=ast.Name(id=M, ctx=ast.Load()), attr=target.attr, ctx=ast.Load()), n)
                return n
        body = [x for x in fn.body if x is not st and x is not pd]
        if md in body and fn.body.index(md) > fn.body.index(pd):
            body.remove(md)
            body.insert(min(fn.body.index(pd), len(body)), md)
        fn.body = [T().visit(x) for x in body]
        changed = True
        ast.fix_missing_locations(fn)
        F.refresh()
    return changed


def f1_build_path(ctx):
    fn0 = ctx.repo.func(PATHS, "build_path")
    F = _flat(ctx, PATHS, fn0)
    _unstage_mesh_lists(F)
    fn = F.fn
    site = ctx.site(PATHS, fn0)
    b = F.b

    def is_append(c, field):
        return (isinstance(c, ast.Call) and au.call_tail(c) == "append" and isinstance(c.func, ast.Attribute)
                and isinstance(c.func.value, ast.Attribute) and c.func.value.attr == field and len(c.args) == 1)

    outer = None
    for st in fn.body:
        if isinstance(st, ast.For) and any(is_append(c, "vertices") for c in au.calls(st)) \
                and any(is_append(c, "edges") for c in au.calls(st)):
            outer = st
    ltarget = outer.target if outer is not None else None
    if isinstance(ltarget, ast.Tuple) and len(ltarget.elts) == 2 and isinstance(outer.iter, ast.Call) \
            and au.call_tail(outer.iter) == "items":
        ltarget = ltarget.elts[1]
    if outer is None or not isinstance(ltarget, ast.Name):
        ctx.undecided("C09-F1", site, "path loop of build_path not recognised",
                      "no top-level `for l in ...` loop appending to both .vertices and .edges of the path mesh")
        return
    lname = ltarget.id
    recv = {au.src(c.func.value.value) for c in au.calls(outer) if is_append(c, "vertices") or is_append(c, "edges")}
    if len(recv) != 1:
        ctx.undecided("C09-F1", site, "vertices and edges of build_path are appended to different meshes", str(sorted(recv)))
        return
    mesh_out = recv.pop()
    # offset variable: a name of the edge index expressions that is not a loop variable of the nest and not the path
    loopvars = {n for st in au.stmts(outer.body) if isinstance(st, ast.For) for n in au.assigned_names(st.target)}
    edge_calls = [c for c in au.calls(outer) if is_append(c, "edges")]
    offs = set()
    for c in edge_calls:
        t = c.args[0]
        if not (isinstance(t, (ast.Tuple, ast.List)) and len(t.elts) == 2):
            ctx.undecided("C09-F1", site, "edge emitted by build_path is not a literal pair of indices", au.src(t))
            return
        for e in t.elts:
            offs |= {n for n in au.names(e) if n not in loopvars and n != lname}
    offs = {o for o in offs if o in b.count}
    if len(offs) != 1:
        ctx.undecided("C09-F1", site, "running offset of build_path not identified",
                      f"edge indices must be `offset + position in the path`; {len(offs)} candidate name(s) besides the loop variables")
        return
    K = offs.pop()

    def len_of_path(e):
        return isinstance(e, ast.Call) and au.call_tail(e) == "len" and len(e.args) == 1 and \
            isinstance(e.args[0], ast.Name) and e.args[0].id == lname

    def len_of_out(e):
        return isinstance(e, ast.Call) and au.call_tail(e) == "len" and len(e.args) == 1 and \
            au.src(e.args[0]) == mesh_out + ".vertices"

    thresholds = {0}
    for n in au.walk(outer):
        if isinstance(n, ast.Compare) and any(len_of_path(x) for x in [n.left] + n.comparators):
            for x in [n.left] + n.comparators:
                c = order.fold_const(x)
                if c is not None and float(c).is_integer():
                    thresholds.add(int(c))
        if isinstance(n, ast.Call) and au.call_tail(n) == "range":
            for x in n.args:
                c = order.fold_const(x)
                if c is not None and float(c).is_integer():
                    thresholds.add(int(c))
    top = max(thresholds) + 1
    regions = [_Region(point=c) for c in range(0, top + 1)] + [_Region(tail=top + 1)]

    problems = []   # (kind, text)
    facts = []

    def run_region(R):
        L = R.L()
        st = {"nv": sym.Poly(), "k": sym.Poly(), "fresh": False, "verts": [], "edges": [], "lower": {}, "env": {}}

        def ev(e, env):
            def atom_of(x):
                if len_of_path(x):
                    return L
                if len_of_out(x):
                    return sym.Poly.atom("N0") + st["nv"]
                if isinstance(x, ast.Name):
                    if x.id in env:
                        return env[x.id]
                    if x.id == K:
                        return sym.Poly.atom("N0") + st["k"]
                    d = b.reaching(x.id, x) if au.parent(x) is not None else None
                    if d is not None:
                        return ev(d, env)
                    raise Unsup(f"name {x.id}")
                if isinstance(x, (ast.Call, ast.Subscript, ast.Attribute)):
                    raise Unsup(au.src(x))
                return None
            return sym.to_poly(e, atom_of=atom_of, opaque=False)

        def decide(test, env):
            def av(x):
                if isinstance(x, ast.Compare) and len(x.ops) == 1:
                    d = ev(x.left, env) - ev(x.comparators[0], env)
                    d = sym.Poly({k_: v for k_, v in d.t.items()})
                    if "N0" in d.atoms():
                        raise Unsup("comparison on the absolute offset")
                    s = R.sign(d, st["lower"])
                    op = x.ops[0]
                    if s is None:
                        # maybe non-strict information suffices
                        nn = R.nonneg(d, st["lower"])
                        np_ = R.nonneg(-d, st["lower"])
                        if isinstance(op, ast.GtE) and nn: return True
                        if isinstance(op, ast.Lt) and nn: return False
                        if isinstance(op, ast.LtE) and np_: return True
                        if isinstance(op, ast.Gt) and np_: return False
                        raise Unsup(f"`{au.src(x)}` is not decided by {R}")
                    return {ast.Gt: s > 0, ast.GtE: s >= 0, ast.Lt: s < 0, ast.LtE: s <= 0,
                            ast.Eq: s == 0, ast.NotEq: s != 0}.get(type(op), None)
                if len_of_path(x):       # truthiness of len(l)
                    s = R.sign(L)
                    return None if s is None else s != 0
                if isinstance(x, ast.Name) and x.id == lname:   # truthiness of the list
                    s = R.sign(L)
                    return None if s is None else s != 0
                return None
            v = sk.truth_eval(test, av)
            if v is None:
                raise Unsup(f"condition `{au.src(test)}`")
            return v

        def lindex(arg, env_l):
            """l-index of the vertex appended: arg resolves to X.vertices[l[idx]] or X.vertices[x] with x bound to l[idx]."""
            a = arg
            if isinstance(a, ast.Name):
                d = b.reaching(a.id, a)
                if d is not None:
                    a = d
            if isinstance(a, ast.Subscript) and isinstance(a.value, ast.Attribute) and a.value.attr == "vertices":
                i = a.slice
                if isinstance(i, ast.Name) and i.id in env_l:
                    return env_l[i.id]
                if isinstance(i, ast.Name):
                    d = b.reaching(i.id, i)
                    if d is not None:
                        i = d
                if isinstance(i, ast.Subscript) and isinstance(i.value, ast.Name) and i.value.id == lname:
                    return ("idx", i.slice)
            return None

        def block(body, env, env_l, inner, mult):
            """returns False if a `continue` ended the iteration"""
            for s in body:
                if isinstance(s, ast.If) and inner and not s.orelse and _only_edge_appends(s.body) \
                        and _bound_on(s.test, inner["iv"]) is not None:
                    # `if i > c: edges.append(...)` inside the inner loop: a restriction of the index range of the edges
                    op, rhs = _bound_on(s.test, inner["iv"])
                    c = ev(rhs, {k_: v_ for k_, v_ in env.items() if k_ != inner["iv"]})
                    sub_ = dict(inner)
                    if isinstance(op, (ast.Gt, ast.GtE, ast.NotEq)):
                        new_lo = c + 1 if isinstance(op, (ast.Gt, ast.NotEq)) else c
                        if isinstance(op, ast.NotEq) and not (c - inner["lo"]).is_zero():
                            raise Unsup(f"`{au.src(s.test)}` inside the inner loop")
                        ge = R.nonneg(new_lo - inner["lo"])
                        if ge is None:
                            raise Unsup(f"`{au.src(s.test)}` undecided on {R}")
                        sub_["lo"] = new_lo if ge else inner["lo"]
                    else:
                        new_hi = c if isinstance(op, ast.Lt) else c + 1
                        le = R.nonneg(inner["hi"] - new_hi)
                        if le is None:
                            raise Unsup(f"`{au.src(s.test)}` undecided on {R}")
                        sub_["hi"] = new_hi if le else inner["hi"]
                    if R.nonneg(sub_["hi"] - sub_["lo"] - 1) is not True:
                        nn_ = R.nonneg(sub_["lo"] - sub_["hi"])
                        if nn_ is True:
                            continue      # empty range on this region: no edge emitted
                        raise Unsup(f"range of `{au.src(s.test)}` undecided on {R}")
                    n0 = len(st["edges"])
                    block(s.body, env, env_l, inner, mult)
                    for rec in st["edges"][n0:]:
                        rec["loop"] = sub_
                elif isinstance(s, ast.If):
                    br = s.body if decide(s.test, env) else s.orelse
                    if block(br, env, env_l, inner, mult) is False:
                        return False
                elif isinstance(s, ast.Continue):
                    if inner:
                        raise Unsup("continue inside the inner loop")
                    return False
                elif isinstance(s, ast.For):
                    if inner:
                        raise Unsup("loop nest deeper than two")
                    it = s.iter
                    env2, envl2 = dict(env), dict(env_l)
                    if isinstance(it, ast.Call) and au.call_tail(it) == "range" and 1 <= len(it.args) <= 2 \
                            and isinstance(s.target, ast.Name):
                        lo = ev(it.args[0], env) if len(it.args) == 2 else sym.Poly()
                        hi = ev(it.args[-1], env)
                        iv = s.target.id
                    elif isinstance(it, ast.Call) and au.call_tail(it) == "enumerate" and len(it.args) == 1 \
                            and isinstance(it.args[0], ast.Name) and it.args[0].id == lname \
                            and isinstance(s.target, ast.Tuple) and len(s.target.elts) == 2 \
                            and all(isinstance(x, ast.Name) for x in s.target.elts):
                        lo, hi = sym.Poly(), L
                        iv = s.target.elts[0].id
                        envl2[s.target.elts[1].id] = ("poly", sym.Poly.atom(iv))
                    elif isinstance(it, ast.Name) and it.id == lname and isinstance(s.target, ast.Name):
                        lo, hi = sym.Poly(), L
                        iv = "#" + s.target.id
                        envl2[s.target.id] = ("poly", sym.Poly.atom(iv))
                    else:
                        raise Unsup(f"loop over `{au.src(it)}`")
                    trip = hi - lo
                    nn = R.nonneg(trip)
                    if nn is None:
                        raise Unsup(f"trip count {trip} undecided on {R}")
                    if not nn or trip.is_zero():
                        continue
                    if R.sign(trip) != 1:
                        # could be zero somewhere in the region
                        raise Unsup(f"trip count {trip} may vanish on {R}")
                    env2[iv] = sym.Poly.atom(iv)
                    st["lower"][iv] = lo
                    nv0 = st["nv"]
                    st["nv"] = sym.Poly()      # count per iteration
                    per = {"base": nv0, "lo": lo, "hi": hi, "iv": iv}
                    n_before_v, n_before_e = len(st["verts"]), len(st["edges"])
                    block(s.body, env2, envl2, per, mult)
                    c_it = st["nv"]
                    if not c_it.is_const():
                        raise Unsup("number of vertices per inner iteration is not constant")
                    # positions of the vertices appended in this loop: base + (i - lo) * c + j
                    for rec in st["verts"][n_before_v:]:
                        rec["pos"] = nv0 + (sym.Poly.atom(iv) - lo) * c_it + rec["pos"]
                        rec["loop"] = per
                    for rec in st["edges"][n_before_e:]:
                        if rec["loop"] is None:
                            rec["loop"] = per
                    st["nv"] = nv0 + trip * c_it
                    del st["lower"][iv]
                elif isinstance(s, ast.Expr) and isinstance(s.value, ast.Call) and is_append(s.value, "vertices"):
                    li = lindex(s.value.args[0], env_l)
                    if li is not None and li[0] == "idx":
                        try:
                            li = ("poly", ev(li[1], env))
                        except Unsup:
                            li = None
                    st["verts"].append({"pos": st["nv"], "lidx": li[1] if li else None, "node": s, "loop": None})
                    st["nv"] = st["nv"] + 1
                elif isinstance(s, ast.Expr) and isinstance(s.value, ast.Call) and is_append(s.value, "edges"):
                    t = s.value.args[0]
                    a_, b_ = (ev(x, env) - sym.Poly.atom("N0") for x in t.elts)
                    st["edges"].append({"a": a_, "b": b_, "node": s, "loop": None})
                elif isinstance(s, (ast.AugAssign, ast.Assign)) and K in [n for t in au.assign_targets(s) for n in au.assigned_names(t)]:
                    if inner:
                        raise Unsup(f"offset {K} is updated inside the inner loop")
                    if isinstance(s, ast.AugAssign):
                        if not isinstance(s.op, (ast.Add, ast.Sub)) or not isinstance(s.target, ast.Name):
                            raise Unsup(au.src(s))
                        d = ev(s.value, env)
                        st["k"] = st["k"] + d if isinstance(s.op, ast.Add) else st["k"] - d
                    else:
                        if len(s.targets) != 1 or not isinstance(s.targets[0], ast.Name):
                            raise Unsup(au.src(s))
                        v = ev(s.value, env) - sym.Poly.atom("N0")
                        if "N0" in v.atoms():
                            raise Unsup(au.src(s))
                        st["k"] = v
                        if len_of_out(s.value):
                            st["fresh"] = True
                elif isinstance(s, (ast.Assign, ast.AnnAssign, ast.Pass)) or \
                        (isinstance(s, ast.Expr) and isinstance(s.value, ast.Constant)):
                    # a plain local binding: looked through by `reaching` when it is used
                    tg = [n for t in au.assign_targets(s) for n in au.assigned_names(t)]
                    if not tg and not isinstance(s, ast.Pass) and not isinstance(s, ast.Expr):
                        raise Unsup(au.src(s))
                else:
                    raise Unsup(f"statement `{au.src(s)[:50]}`")
            return True

        block(outer.body, {}, {}, None, 1)
        return st

    n_regions = 0
    for R in regions:
        try:
            st = run_region(R)
        except (Unsup, sym.NotPoly) as ex:
            ctx.undecided("C09-F1", site, "build_path loop nest not recognised",
                          f"the vertex/edge emission of build_path could not be summarised for {R}: {ex}")
            return
        n_regions += 1
        nv, k = st["nv"], st["k"]
        # (a) invariant offset == number of vertices appended so far
        if not (nv - k).is_zero():
            problems.append(("advance", f"for {R} a path appends {nv} vertices but `{K}` advances by {k}"))
        # (b) layout: vertex at block position p is l[p]; edges join positions (j-1, j), j = 1..nv-1
        layout_known = all(v["lidx"] is not None for v in st["verts"])
        if layout_known:
            for v in st["verts"]:
                if not (v["pos"] - v["lidx"]).is_zero():
                    problems.append(("layout", f"for {R} the vertex appended at block position {v['pos']} is path[{v['lidx']}]"))
        if not st["edges"]:
            s = R.sign(nv - 2)
            if s is None or s >= 0:
                problems.append(("edges", f"for {R} no edge is emitted although the path has {nv} vertices"))
        for e in st["edges"]:
            lp = e["loop"]
            d = e["b"] - e["a"]
            if not (d.is_const() and abs(d.const_value()) == 1):
                problems.append(("edges", f"for {R} an edge joins block positions {e['a']} and {e['b']} (not consecutive)"))
                continue
            hi_pos = e["b"] if d.const_value() == 1 else e["a"]
            if lp is None:
                first = last = hi_pos
            else:
                iv = sym.Poly.atom(lp["iv"])
                if not (hi_pos - iv).is_const() and not ((hi_pos - iv).atoms() <= {"L"}):
                    problems.append(("edges", f"for {R} edge index {hi_pos} is not `offset + loop index + constant`"))
                    continue
                shift = hi_pos - iv
                first, last = lp["lo"] + shift, lp["hi"] - 1 + shift
            if len(st["edges"]) == 1:
                if not (first - 1).is_zero() or not (last - (nv - 1)).is_zero():
                    problems.append(("edges", f"for {R} edges end at block positions {first}..{last}, "
                                              f"the block holds positions 0..{nv - 1}"))
        facts.append(f"{R}: {nv} vertices, offset += {k}")
    # initial value of the offset
    fresh_all = False
    first_in_body = outer.body[0] if outer.body else None
    if isinstance(first_in_body, ast.Assign) and len(first_in_body.targets) == 1 and isinstance(first_in_body.targets[0], ast.Name) \
            and first_in_body.targets[0].id == K and len_of_out(first_in_body.value):
        fresh_all = True
    init_ok = fresh_all
    if not fresh_all:
        d = b.reaching(K, outer)
        ctor = b.reaching(mesh_out, outer) if mesh_out.isidentifier() else None
        pre_appends = [c for s in fn.body if s is not outer and F.before(s, outer) for c in au.calls(s) if is_append(c, "vertices")]
        if d is not None and len_of_out(d):
            init_ok = True
        elif d is not None and au.const(d) == 0 and isinstance(ctor, ast.Call) and not pre_appends \
                and all(hr.is_none(a_) for a_ in ctor.args) and all(hr.is_none(k_.value) for k_ in ctor.keywords):
            init_ok = True
    adv = [p for p in problems if p[0] == "advance"]
    if fresh_all:
        adv = []
    other = [p for p in problems if p[0] != "advance"]
    # the three obligations are stated relative to each other (an offset that starts one lower with edges written one higher is the same mesh):
    # a contradiction is only reported when exactly one of them deviates from the model
    init_known = init_ok or (not fresh_all and b.reaching(K, outer) is not None and au.const(b.reaching(K, outer)) is not None)
    n_dev = (0 if init_ok else 1) + (1 if adv else 0) + (1 if other else 0)
    if n_dev > 1 or (not init_ok and not init_known):
        ctx.undecided("C09-F1", site, "offset, advance and edge indices of build_path deviate together from the model of the rule", "")
        return
    ctx.check(init_ok, "C09-F1", site, "the running offset of build_path does not start at the number of vertices already in the path mesh",
              "the first path must index its own vertices", note=f"offset {K} starts at the size of the (empty) path mesh")
    ctx.check(not adv, "C09-F1", site,
              "the running offset of build_path is not advanced by the number of vertices appended per path",
              "with two or more paths (several targets, export_path_mesh=True) the edges of every path after the first index "
              "the vertices of the first path: " + "; ".join(t for _, t in adv),
              note="; ".join(facts))
    ctx.check(not other, "C09-F1", site,
              "edges of build_path do not join consecutive vertices of the path block",
              "; ".join(sorted({t for _, t in other})), note=f"{n_regions} length regions: edges join block positions (j-1, j), j = 1..len-1")


def _only_edge_appends(body):
    return bool(body) and all(isinstance(s, ast.Expr) and isinstance(s.value, ast.Call) and au.call_tail(s.value) == "append"
                              and isinstance(s.value.func, ast.Attribute) and isinstance(s.value.func.value, ast.Attribute)
                              and s.value.func.value.attr == "edges" for s in body)


def _bound_on(test, iv):
    """(op, rhs) if test is `iv <op> rhs` (or mirrored) with op an order comparison / !=."""
    if not (isinstance(test, ast.Compare) and len(test.ops) == 1):
        return None
    l, r, op = test.left, test.comparators[0], test.ops[0]
    mirror = {ast.Gt: ast.Lt, ast.Lt: ast.Gt, ast.GtE: ast.LtE, ast.LtE: ast.GtE, ast.NotEq: ast.NotEq}
    if type(op) not in mirror:
        return None
    if isinstance(l, ast.Name) and l.id == iv and iv not in au.names(r):
        return op, r
    if isinstance(r, ast.Name) and r.id == iv and iv not in au.names(l):
        return mirror[type(op)](), l
    return None




# ----------------------------------------------------------------------- C09-Q1
def _self_data(e, field="data"):
    return au.is_self_attr(e, field)


def q1_priority_queue(ctx):
    """contract of utils.PriorityQueue; returns {'payload': field, 'priority': field}"""
    repo = ctx.repo
    cls = repo.cls(PQ, "PriorityQueue")
    item = repo.cls(PQ, "PriorityItem")
    fields = [st.target.id for st in item.body if isinstance(st, ast.AnnAssign) and isinstance(st.target, ast.Name)]
    info = {"payload": None, "priority": None}
    R = "C09-Q1"
    # ---- __lt__ : a strict comparison of one field of the two items
    if not repo.has_func(PQ, "PriorityItem.__lt__"):
        # @dataclass(order=True): items compare as the tuple of their fields (declaration order) that are not declared compare=False
        ordered = any(isinstance(d, ast.Call) and au.call_tail(d) == "dataclass" and any(k.arg == "order" and au.const(k.value) is True for k in d.keywords)
                      for d in item.decorator_list)
        if ordered:
            cmp_fields = []
            for st in item.body:
                if isinstance(st, ast.AnnAssign) and isinstance(st.target, ast.Name):
                    v = st.value
                    excluded = isinstance(v, ast.Call) and au.call_tail(v) == "field" and any(k.arg == "compare" and au.const(k.value) is False for k in v.keywords)
                    if not excluded:
                        cmp_fields.append(st.target.id)
            pr_guess = "priority" if "priority" in fields else (fields[-1] if fields else None)
            if cmp_fields == [pr_guess]:
                ctx.ok(R, ctx.site(PQ, item), "items ordered by priority (dataclass order on the priority field only)")
                info["priority"] = pr_guess
                rest_ = [f for f in fields if f != pr_guess]
                info["payload"] = rest_[0] if rest_ else None
            elif cmp_fields and cmp_fields[0] != pr_guess and (len(fields) != 2 or cmp_fields[0] != [f_ for f_ in fields if f_ != pr_guess][0]
                                                              or any(isinstance(x_, ast.FunctionDef) and x_.name == "__post_init__" for x_ in item.body)):
                ctx.undecided(R, ctx.site(PQ, item), "the order of PriorityItem is generated by dataclass(order=True) on a field the rule does not know", "")
            elif cmp_fields and cmp_fields[0] != pr_guess:
                ctx.fail(R, ctx.site(PQ, item), "PriorityItem is ordered by its fields in declaration order, the payload first",
                         "heapq then pops items by payload (vertex id), not by priority: get() does not return the minimum label")
            else:
                ctx.undecided(R, ctx.site(PQ, item), "the order of PriorityItem is generated by dataclass(order=True) on several fields", "")
        else:
            ctx.undecided(R, ctx.site(PQ, item), "PriorityItem defines no __lt__", "the order of the heap items cannot be read")
        if info["priority"] is None:
            return info
        return _q1_rest(ctx, repo, cls, item, fields, info)
    lt = repo.func(PQ, "PriorityItem.__lt__")
    site = ctx.site(PQ, lt)
    ps = au.params(lt)
    F = _flat(ctx, PQ, lt)
    pr = None
    verdict = "unknown"
    try:
        formula = order.return_formula(hf_flat.strip_doc(F.fn.body))
    except order.Unsupported:
        formula = None
    if formula is not None and formula[0] == "ret" and len(ps) == 2 and isinstance(formula[1], ast.Compare) and len(formula[1].ops) == 1:
        c = formula[1]
        l, r = F.resolve(c.left, F.fn.body[-1]), F.resolve(c.comparators[0], F.fn.body[-1])
        if isinstance(l, ast.Attribute) and isinstance(r, ast.Attribute) and l.attr == r.attr and l.attr in fields \
                and isinstance(l.value, ast.Name) and isinstance(r.value, ast.Name) and {l.value.id, r.value.id} == set(ps):
            pr = l.attr
            fwd = (l.value.id, r.value.id) == (ps[0], ps[1])
            op = type(c.ops[0])
            good = (op is ast.Lt and fwd) or (op is ast.Gt and not fwd)
            verdict = "ok" if good else "bad"
    elif formula is not None and formula[0] == "ite":
        # an if-chain: some other order on some condition (tie-breaking by tolerance, by rank ...): the order is not `priority <`
        names = {n.attr for n in ast.walk(lt) if isinstance(n, ast.Attribute) and n.attr in fields}
        if names and len(ps) == 2:
            # decide the chain on sample values: is it `self.f < other.f` for one field f, whatever the other fields are?
            def symf(n):
                n = F.resolve(n, F.fn.body[-1])
                if isinstance(n, ast.Attribute) and isinstance(n.value, ast.Name) and n.value.id in ps and n.attr in fields:
                    return ("s_" if n.value.id == ps[0] else "o_") + n.attr
                raise order.Unsupported(au.src(n))
            try:
                pred = order.Pred(symf)
                order.eval_formula(formula, pred, None)
                agree = {}
                for f_ in sorted(names):
                    pred.symbols |= {"s_" + f_, "o_" + f_}
                n_env = 0
                for env in order.envs(pred.symbols, pred.consts):
                    n_env += 1
                    if n_env > 20000:
                        raise order.Unsupported("too many cases")
                    got = order.eval_formula(formula, pred, env)
                    for f_ in sorted(names):
                        agree[f_] = agree.get(f_, True) and (got not in (None, "raise")) and bool(got) == (env["s_" + f_] < env["o_" + f_])
                good_f = [f_ for f_ in sorted(names) if agree.get(f_)]
                if good_f:
                    verdict, pr = "ok", good_f[0]
                else:
                    verdict = "bad"
                    pr = "priority" if "priority" in fields else None
            except (order.Unsupported, KeyError, TypeError):
                verdict = "unknown"
                pr = "priority" if "priority" in fields else None
    if verdict == "ok":
        ctx.ok(R, site, "items ordered by priority with <")
    elif verdict == "bad":
        ctx.fail(R, site, "PriorityItem.__lt__ is not `self.priority < other.priority`",
                 "heapq orders items with <; any other order makes get() return a non-minimal item and Dijkstra settles vertices too early")
    else:
        ctx.undecided(R, site, "PriorityItem.__lt__ is not a single comparison of one field of the two items", au.src(lt)[:120])
    if pr is None:
        # fall back on the field names to keep the other rules going
        pr = "priority" if "priority" in fields else None
    info["priority"] = pr
    rest = [f for f in fields if f != pr]
    if pr is None or not rest:
        ctx.undecided(R, ctx.site(PQ, item), "PriorityItem is not a (payload, priority) record", f"fields: {fields}")
        return info
    info["payload"] = rest[0]
    extra_fields = rest[1:]
    return _q1_rest(ctx, repo, cls, item, fields, info)


HEAPQ_FUNCS = ("heappush", "heappop", "heapify", "heapreplace", "heappushpop", "_siftdown", "_siftup", "merge", "nsmallest", "nlargest")


def _heap_aliases(cls):
    """class attributes of PriorityQueue bound to heapq functions: `_heappush = staticmethod(hq.heappush)` -> {'_heappush': 'heappush'}"""
    out = {}
    for st in cls.body:
        if isinstance(st, (ast.Assign, ast.AnnAssign)) and st.value is not None:
            v = st.value
            if isinstance(v, ast.Call) and au.call_tail(v) == "staticmethod" and len(v.args) == 1:
                v = v.args[0]
            t = v.attr if isinstance(v, ast.Attribute) else (v.id if isinstance(v, ast.Name) else None)
            if t in ("heappush", "heappop", "heapify"):
                for tg in au.assign_targets(st):
                    if isinstance(tg, ast.Name):
                        out[tg.id] = t
    return out


def _q1_rest(ctx, repo, cls, item, fields, info):
    R = "C09-Q1"
    pr = info["priority"]
    aliases = _heap_aliases(cls)

    def tail_of(c):
        t = au.call_tail(c)
        return aliases.get(t, t)
    # ---- get / pop
    def heap_call(e, tail, nargs):
        return isinstance(e, ast.Call) and tail_of(e) == tail and len(e.args) == nargs and _self_data(e.args[0])

    def returned(fn):
        """resolved value of the single value-returning `return` of fn (or None)"""
        Fm = _flat(ctx, PQ, fn)
        r = [s for s in au.stmts(Fm.fn.body) if isinstance(s, ast.Return) and s.value is not None]
        if len(r) != 1:
            return None, Fm
        return Fm.b.resolve(r[0].value, at=r[0], keep=("self",)), Fm

    def bad_removal(rv):
        """a recognised way of taking an item that is not pop-min"""
        if isinstance(rv, ast.Call) and isinstance(rv.func, ast.Attribute) and _self_data(rv.func.value) and rv.func.attr in ("pop", "popleft"):
            return "self.data.pop(..) takes the item at a list position, not the minimum"
        if isinstance(rv, ast.Subscript) and _self_data(rv.value):
            return "an item is read by position without being removed"
        if isinstance(rv, ast.Call) and au.call_tail(rv) in ("min", "max", "nlargest", "nsmallest", "heappushpop", "heapreplace"):
            return f"{au.call_tail(rv)}(..) is not heappop"
        return None
    for mname in ("get", "pop"):
        if not repo.has_func(PQ, "PriorityQueue." + mname):
            continue
        g = repo.func(PQ, "PriorityQueue." + mname)
        rv, Fm = returned(g)
        s = ctx.site(PQ, g)
        if rv is not None and heap_call(rv, "heappop", 1):
            ctx.ok(R, s, f"{mname} = heappop(self.data)")
        elif rv is not None and isinstance(rv, ast.Call) and isinstance(rv.func, ast.Attribute) and isinstance(rv.func.value, ast.Name) \
                and rv.func.value.id == "self" and rv.func.attr in ("get", "pop") and rv.func.attr != mname and not rv.args:
            ctx.ok(R, s, f"{mname} delegates to {rv.func.attr}")
        elif rv is not None and bad_removal(rv) and any(tail_of(c_) in HEAPQ_FUNCS for c_ in au.calls(Fm.fn)):
            ctx.undecided(R, s, f"PriorityQueue.{mname} combines heapq with a positional access to self.data", "")
        elif rv is not None and bad_removal(rv):
            ctx.fail(R, s, f"PriorityQueue.{mname} does not return heapq.heappop(self.data)",
                     f"{mname}() must remove and return the minimum-priority item: {bad_removal(rv)}")
        else:
            ctx.undecided(R, s, f"PriorityQueue.{mname} is not recognised as heappop(self.data)", au.src(rv)[:80] if rv is not None else "no single return value")
    # ---- push
    pu = repo.func(PQ, "PriorityQueue.push")
    Fp = _flat(ctx, PQ, pu)
    pps = au.params(pu, skip_self=True)
    hp = [c for c in au.calls(Fp.fn) if tail_of(c) == "heappush"]
    spush = ctx.site(PQ, pu)
    if len(hp) >= 1 and all(len(c.args) == 2 and _self_data(c.args[0]) for c in hp) and len(pps) >= 2:
        for c in hp:
            it = Fp.b.resolve(c.args[1], at=c, keep=("self",))
            if isinstance(it, ast.Call) and au.call_tail(it) == "PriorityItem":
                got = {}
                for i, a in enumerate(it.args):
                    if i < len(fields):
                        got[fields[i]] = a
                for kw in it.keywords:
                    got[kw.arg] = kw.value
                pa, pw = got.get(info["payload"]), got.get(pr)
                okpush = isinstance(pa, ast.Name) and pa.id == pps[0] and isinstance(pw, ast.Name) and pw.id == pps[1]
                if okpush:
                    ctx.ok(R, spush, "push = heappush(self.data, PriorityItem(x, w))")
                elif isinstance(pa, ast.Name) and isinstance(pw, ast.Name) and {pa.id, pw.id} <= set(pps):
                    ctx.fail(R, spush, "PriorityQueue.push(x, w) does not heappush PriorityItem(payload=x, priority=w) onto self.data",
                             f"PriorityItem built with fields {fields} from swapped arguments")
                else:
                    # the priority is a rewritten value of w (w = something else under a condition): decided by the flow rule below
                    wdef = Fp.resolve(pw, c) if pw is not None else None
                    if isinstance(pa, ast.Name) and pa.id == pps[0] and pw is not None and pps[1] in au.names(wdef) | au.names(pw):
                        ctx.ok(R, spush, "push = heappush(self.data, PriorityItem(x, <w>))")
                    else:
                        ctx.undecided(R, spush, "the item pushed by PriorityQueue.push is not recognised", au.src(it)[:80])
            else:
                ctx.undecided(R, spush, "the item pushed by PriorityQueue.push is not a PriorityItem(..) call", au.src(it)[:80])
    elif not hp:
        alt = [c for c in au.calls(Fp.fn) if isinstance(c.func, ast.Attribute) and _self_data(c.func.value) and c.func.attr in ("append", "insert", "extend")]
        if alt and any(tail_of(c_) in HEAPQ_FUNCS for c_ in au.calls(Fp.fn)):
            ctx.undecided(R, spush, "PriorityQueue.push restores the heap with a heapq function the rule does not know", "")
        elif alt:
            ctx.fail(R, spush, "PriorityQueue.push inserts into self.data without heappush",
                     f"`{au.src(alt[0])[:60]}`: the list is a heap only as long as nothing but heapq writes it")
        else:
            ctx.undecided(R, spush, "PriorityQueue.push has no heappush(self.data, item)", "")
    else:
        ctx.undecided(R, spush, "PriorityQueue.push is not recognised", "")
    # the priority handed to the item is the parameter itself, never replaced
    for st in au.stmts(Fp.fn.body):
        if len(pps) >= 2 and pps[1] in [n for t in au.assign_targets(st) for n in au.assigned_names(t)]:
            newv = getattr(st, "value", None)
            if isinstance(newv, ast.Call) and au.call_tail(newv) in ("float", "int", "float64", "float32", "asarray") and len(newv.args) == 1 \
                    and isinstance(newv.args[0], ast.Name) and newv.args[0].id == pps[1]:
                continue                         # a type conversion of the priority
            if newv is not None and pps[1] in au.names(newv):
                ctx.undecided(R, ctx.site(PQ, pu, st), "PriorityQueue.push rewrites the priority it was given from its own value", "")
                continue
            none_guard = any(isinstance(e_, ast.Compare) and len(e_.ops) == 1 and isinstance(e_.ops[0], (ast.Is, ast.Eq)) and hr.is_none(e_.comparators[0])
                             and isinstance(e_.left, ast.Name) and e_.left.id == pps[1] and p_ for e_, p_ in sk.atoms(sk.path_conds(st)))
            if none_guard:
                continue                         # a default for a priority that was not given
            conds = [("" if p_ else "not ") + au.src(e) for e, p_ in sk.atoms(sk.path_conds(st))]
            ctx.fail(R, ctx.site(PQ, pu, st), "PriorityQueue.push replaces the priority it was given",
                     f"`{au.src(st)[:70]}`" + (f" under `{', '.join(conds)}`" if conds else "") + ": the item is queued with another priority "
                     "than the label computed by the caller (a priority of 0 is falsy), so get() no longer returns the minimum label")
    # ---- empty
    em = repo.func(PQ, "PriorityQueue.empty")
    rv, Fe = returned(em)
    oke = None
    if rv is not None:
        def symf(n):
            if isinstance(n, ast.Call) and au.call_tail(n) == "len" and len(n.args) == 1 and _self_data(n.args[0]):
                return "n"
            if isinstance(n, ast.Call) and au.call_tail(n) == "len" and len(n.args) == 1 and isinstance(n.args[0], ast.Name) and n.args[0].id == "self" \
                    and _queue_truthiness(ctx):
                return "n"
            raise order.Unsupported(au.src(n))
        try:
            if isinstance(rv, ast.UnaryOp) and isinstance(rv.op, ast.Not) and _self_data(rv.operand):
                oke = True
            elif isinstance(rv, ast.UnaryOp) and isinstance(rv.op, ast.Not) and isinstance(rv.operand, ast.Call) and au.call_tail(rv.operand) in ("len", "bool") \
                    and _self_data(rv.operand.args[0]):
                oke = True
            elif _self_data(rv) or (isinstance(rv, ast.Call) and au.call_tail(rv) in ("len", "bool") and len(rv.args) == 1 and _self_data(rv.args[0])):
                oke = False
            else:
                pred = order.Pred(symf)
                oke = all(bool(pred.eval(rv, {"n": k})) == (k == 0) for k in range(0, 4))
        except (order.Unsupported, KeyError, TypeError):
            oke = None
    if oke is True:
        ctx.ok(R, ctx.site(PQ, em), "empty == (len == 0), sizes 0..3")
    elif oke is False:
        ctx.fail(R, ctx.site(PQ, em), "PriorityQueue.empty() is not `len(self.data) == 0`", "the Dijkstra loops run `while not queue.empty()`")
    else:
        ctx.undecided(R, ctx.site(PQ, em), "PriorityQueue.empty() is not recognised", au.src(rv)[:80] if rv is not None else "")
    # ---- who may touch self.data
    n_uses = 0
    for st in cls.body:
        if not isinstance(st, ast.FunctionDef):
            continue
        for n in au.walk(st):
            if not _self_data(n):
                continue
            n_uses += 1
            par = au.parent(n)
            good = None
            if isinstance(par, (ast.Assign, ast.AnnAssign)) and (n in getattr(par, "targets", []) or getattr(par, "target", None) is n):
                v = par.value
                if st.name == "__init__" and (isinstance(v, ast.List) and not v.elts or (isinstance(v, ast.Call) and au.call_tail(v) == "list" and not v.args)):
                    good = True
                elif st.name == "__init__" and isinstance(v, ast.Name) and v.id in au.params(st):
                    # bound to a parameter: shared with the caller (and with every other queue when the default is a mutable literal)
                    dflt = _default_of(st, v.id)
                    good = False if isinstance(dflt, (ast.List, ast.Dict, ast.Set)) or (isinstance(dflt, ast.Call)) else None
                    if good is False:
                        ctx.fail(R, ctx.site(PQ, st, n), "the heap list of PriorityQueue is a mutable default argument shared by every queue",
                                 f"`{au.src(par)[:60]}` with default `{au.src(dflt)}`: all queues created without argument push into and pop from one list")
                        continue
                else:
                    good = None
            elif isinstance(par, ast.Call) and tail_of(par) in ("heappush", "heappop", "len", "heapify", "bool", "iter", "list", "sorted") and par.args and par.args[0] is n:
                good = True
            elif isinstance(par, ast.Subscript) and par.value is n and isinstance(par.ctx, ast.Load):
                good = True                       # reading an item by position (front) does not change the heap
            elif isinstance(par, (ast.UnaryOp, ast.BoolOp, ast.If, ast.While, ast.IfExp, ast.Compare, ast.Return)):
                good = True
            elif isinstance(par, (ast.For, ast.comprehension)) and par.iter is n:
                good = True
            elif isinstance(par, ast.Attribute) and isinstance(au.parent(par), ast.Call) and au.parent(par).func is par:
                good = False if par.attr in ("append", "insert", "extend", "pop", "remove", "reverse", "popleft") else \
                    (True if par.attr in ("clear", "copy", "sort", "__len__", "__iter__", "index", "count") else None)   # an empty / sorted list is a heap
            elif isinstance(par, ast.Subscript) and par.value is n and isinstance(par.ctx, (ast.Store, ast.Del)):
                good = False
            if good is False and any(tail_of(c_) in HEAPQ_FUNCS for c_ in au.calls(st)):
                good = None         # the method also goes through heapq: whether the list stays a heap is not decided here
            if good is False and st.name not in ("__init__", "push", "get", "pop", "empty", "front"):
                good = None         # a method the rule does not know (clear, remove ..): not part of the queue protocol used by the searches
            if good is True:
                ctx.ok(R, ctx.site(PQ, st, n), "self.data touched through heapq only")
            elif good is False:
                ctx.fail(R, ctx.site(PQ, st, n), f"{st.name} modifies self.data outside heappush / heappop",
                         f"`{au.src(au.enclosing_stmt(n))[:60]}`: the list is a heap only as long as nothing but heapq writes it")
            else:
                ctx.undecided(R, ctx.site(PQ, st, n), f"{st.name} uses self.data in a way the rule does not know", au.src(au.enclosing_stmt(n))[:70])
    if n_uses < 1:
        ctx.undecided(R, ctx.site(PQ, cls), "heap list self.data of PriorityQueue not found", "the queue no longer stores its items in self.data")
    _q1_every_push_inserts(ctx, pu, Fp)
    _q1_no_side_index(ctx, cls, fields)
    _q1_priorities_immutable(ctx, fields)
    return info


def _default_of(fn, pname):
    a = fn.args
    pos = a.posonlyargs + a.args
    for x, d in zip(pos[len(pos) - len(a.defaults):], a.defaults):
        if x.arg == pname:
            return d
    for x, d in zip(a.kwonlyargs, a.kw_defaults):
        if x.arg == pname:
            return d
    return None


def _q1_every_push_inserts(ctx, pu, Fp):
    """must-dataflow: every normal exit of push has gone through heappush(self.data, ..)"""
    aliases = _heap_aliases(ctx.repo.cls(PQ, "PriorityQueue"))

    def is_push(c):
        t = au.call_tail(c)
        return aliases.get(t, t) == "heappush" and len(c.args) == 2 and _self_data(c.args[0])

    def t_stmt(state, st):
        for c in au.calls(st):
            if is_push(c):
                state = state | {"pushed"}
        return state
    fl = flow.Flow(t_stmt)
    fl.run(Fp.fn.body, frozenset())
    if not any(is_push(c) for c in au.calls(Fp.fn)):
        return          # reported by the push rule
    bad = [(k, n) for k, n, st in fl.exits if k in ("return", "fall") and "pushed" not in st]
    opt_params = {a_.arg for a_ in (pu.args.args[len(pu.args.args) - len(pu.args.defaults):] if pu.args.defaults else [])} | {a_.arg for a_ in pu.args.kwonlyargs}
    exit_conds = set()
    for k_, n_ in bad:
        if n_ is not None:
            for e_, p_ in sk.atoms(sk.path_conds(n_)):
                exit_conds |= au.names(e_)
    if bad and opt_params and (exit_conds & opt_params):
        ctx.undecided("C09-Q1", ctx.site(PQ, pu), "PriorityQueue.push returns without inserting under an optional parameter", "")
        return
    if bad and [c_ for c_ in au.calls(Fp.fn) if isinstance(c_.func, ast.Attribute) and _self_data(c_.func.value) and c_.func.attr in ("append", "insert", "extend")]:
        ctx.undecided("C09-Q1", ctx.site(PQ, pu), "PriorityQueue.push inserts into self.data on a path that does not go through heappush", "")
        return
    conds = []
    for k, n in bad:
        if n is not None:
            conds += [("" if p_ else "not ") + au.src(e) for e, p_ in sk.atoms(sk.path_conds(n))]
    # extra validation that *raises* on invalid input is not an exit without insertion; an early `return` is
    ctx.check(not bad, "C09-Q1", ctx.site(PQ, pu),
              "PriorityQueue.push returns on some path without heappush(self.data, item)",
              "every push must insert an entry: the lazy-deletion Dijkstra loops re-push a vertex to lower its key, a push that is skipped "
              "(or replaced by an in-place update of a queued item / a plain append) leaves the heap without a correctly placed entry at the new label"
              + (f" (exit under: {', '.join(conds)})" if conds else ""),
              note="heappush on every normal exit of push")


def _q1_no_side_index(ctx, cls, fields):
    """no field other than self.data holds queued items (an index of queued items lets code reach and change them behind the heap)"""
    n = 0
    for fn in [st for st in cls.body if isinstance(st, ast.FunctionDef)]:
        b = sym.Bindings(fn)

        def is_item(e, at):
            r = b.resolve(e, at=at, keep=("self",)) if isinstance(e, ast.Name) else e
            if isinstance(r, ast.Call) and au.call_tail(r) == "PriorityItem":
                return True             # (an item returned by heappop / get is no longer queued)
            if isinstance(r, ast.Subscript) and au.is_self_attr(r.value, "data"):
                return True
            if isinstance(e, ast.Name):
                for st in au.stmts(fn.body):
                    for nm, v in sym.split_assign(st):
                        if nm == e.id and isinstance(v, ast.Call) and au.call_tail(v) == "PriorityItem":
                            return True
            return False
        for st in au.stmts(fn.body):
            stores = []
            if isinstance(st, (ast.Assign, ast.AnnAssign)) and st.value is not None:
                for t in au.assign_targets(st):
                    base = t.value if isinstance(t, ast.Subscript) else t
                    if au.is_self_attr(base) and base.attr != "data":
                        stores.append((base.attr, st.value))
            for c in au.calls(st):
                if isinstance(c.func, ast.Attribute) and au.is_self_attr(c.func.value) and c.func.value.attr != "data" \
                        and c.func.attr in ("append", "add", "insert", "setdefault", "update", "appendleft"):
                    for a in c.args:
                        stores.append((c.func.value.attr, a))
            for f, v in stores:
                n += 1
                ctx.check(not is_item(v, st), "C09-Q1", ctx.site(PQ, fn, st),
                          f"PriorityQueue keeps queued items in self.{f} besides the heap",
                          "an index of the queued items makes them reachable without heappop: their priority can be changed (or they can be "
                          "dropped) while the heap order is not restored, so get() no longer returns the minimum", note="no side index of items")
    if n == 0:
        ctx.ok("C09-Q1", ctx.site(PQ, cls), "self.data is the only field of PriorityQueue")


def _q1_priorities_immutable(ctx, fields):
    """the fields of a PriorityItem are never stored to after construction (queue module and the path module)"""
    n = 0
    for modname in (PQ, PATHS):
        m = ctx.repo.module(modname)
        for q, fn in m.funcs.items():
            for st in au.stmts(fn.body):
                if not isinstance(st, (ast.Assign, ast.AugAssign, ast.AnnAssign)):
                    continue
                for t in au.assign_targets(st):
                    for x in ast.walk(t):
                        if isinstance(x, ast.Attribute) and isinstance(x.ctx, ast.Store) and x.attr == "priority" \
                                and not (au.is_self_attr(x) and (q.startswith("PriorityItem.") or q.rsplit(".", 1)[-1] in ("__init__", "__post_init__", "__new__"))):
                            n += 1
                            known_fn = modname == PATHS or q in ("PriorityQueue.push", "PriorityQueue.get", "PriorityQueue.pop", "PriorityQueue.empty",
                                                                 "PriorityQueue.__init__", "PriorityQueue.front")
                            popped_here = any(isinstance(v_, ast.Call) and au.call_tail(v_) in ("heappop", "get", "pop") for st_ in au.stmts(fn.body)
                                              for nm_, v_ in sym.split_assign(st_) if isinstance(x.value, ast.Name) and nm_ == x.value.id)
                            if not known_fn or popped_here:
                                ctx.undecided("C09-Q1", ctx.site(modname, fn, st), "a priority is modified by a method the rule does not know", "")
                                continue
                            ctx.fail("C09-Q1", ctx.site(modname, fn, st), "priority of an existing PriorityItem is modified in place",
                                     f"`{au.src(st)}`: heapq orders the list at push time only; lowering the priority of an item that is already "
                                     "in the heap breaks the heap invariant and get() returns a non-minimal item (Dijkstra settles vertices too early)")
    if n == 0:
        ctx.ok("C09-Q1", ctx.site(PQ, ctx.repo.cls(PQ, "PriorityItem")), "no store to .priority outside PriorityItem")


# ----------------------------------------------------------------------- C09-D1..D4
def pq_names(fn):
    out = set()
    for st in au.stmts(fn.body):
        if isinstance(st, (ast.Assign, ast.AnnAssign)) and isinstance(st.value, ast.Call) and au.call_tail(st.value) == "PriorityQueue":
            for t in au.assign_targets(st):
                if isinstance(t, ast.Name):
                    out.add(t.id)
    return out


def dijkstra(ctx, modname, fn, item, want_roles=False, need_pred=True):
    """All D1..D4 obligations of every Dijkstra loop of `fn` (analysed in flattened form); returns the number of loops analysed
    (and the roles found in each loop when want_roles)."""
    F = _flat(ctx, modname, fn)
    site = ctx.site(modname, fn)
    qs = pq_names(F.fn)
    roles = []
    n_loops = 0
    if not qs:
        ctx.undecided("C09-D1", site, "no PriorityQueue in a Dijkstra site",
                      "neither the function nor the private helpers it calls create a PriorityQueue: the frontier of the search is not recognised")
        return (0, roles) if want_roles else 0
    for Q in sorted(qs):
        loops = [st for st in au.stmts(F.fn.body) if isinstance(st, ast.While) and
                 any(isinstance(n, ast.Name) and n.id == Q for n in au.walk(st))]
        loops = [l for l in loops if not any(l is not o and any(a is o for a in au.ancestors(l)) for o in loops)]
        if len(loops) != 1:
            ctx.undecided("C09-D1", site, "Dijkstra loop on the priority queue not identified", f"{len(loops)} while-loop(s) use the priority queue")
            continue
        n_loops += 1
        r = _dijkstra_loop(ctx, modname, fn, F, Q, loops[0], item, need_pred=need_pred)
        if r:
            roles.append(r)
    return (n_loops, roles) if want_roles else n_loops


def _queue_truthiness(ctx):
    """PriorityQueue is true exactly while it holds an item: __bool__ / __len__ defined on the heap list"""
    for nm in ("__bool__", "__len__"):
        if ctx.repo.has_func(PQ, "PriorityQueue." + nm):
            fn = ctx.repo.func(PQ, "PriorityQueue." + nm)
            rets = [st for st in au.stmts(fn.body) if isinstance(st, ast.Return) and st.value is not None]
            if len(rets) == 1:
                v = rets[0].value
                if nm == "__len__" and isinstance(v, ast.Call) and au.call_tail(v) == "len" and len(v.args) == 1 and au.is_self_attr(v.args[0], "data"):
                    return True
                if nm == "__bool__":
                    t = v
                    if isinstance(t, ast.Call) and au.call_tail(t) == "bool" and len(t.args) == 1:
                        t = t.args[0]
                    if au.is_self_attr(t, "data") or (isinstance(t, ast.Compare) and au.canon_test(t) in ("0 < len(self.data)", "0 != len(self.data)", "len(self.data) != 0")):
                        return True
                    if isinstance(t, ast.UnaryOp) and isinstance(t.op, ast.Not) and isinstance(t.operand, ast.Call) and au.is_self_attr(t.operand.func, "empty"):
                        return True
            return False
    return False


def _tab(e):
    """name of a table expression that is a plain Name, else None"""
    return e.id if isinstance(e, ast.Name) else None


def _dijkstra_loop(ctx, modname, fn0, F, Q, loop, item, need_pred=True):
    site = ctx.site(modname, fn0, loop)
    payload = (item or {}).get("payload") or "x"
    b = F.b
    roles = {"Q": Q, "loop": loop, "F": F}

    def S(node):
        return ctx.site(modname, fn0, node)

    def q_call(e, tails):
        return (isinstance(e, ast.Call) and isinstance(e.func, ast.Attribute) and isinstance(e.func.value, ast.Name)
                and e.func.value.id == Q and e.func.attr in tails)

    def und(rule, node, construct, what=""):
        ctx.undecided(rule, S(node) if node is not None else site, construct, what)

    # ---------------------------------------------------------------- D1: loop condition and pop-min
    test_atoms = sk.atoms([(loop.test, True)])
    if any(q_call(e, ("empty",)) and not p for e, p in test_atoms):
        ctx.ok("C09-D1", site, "while not queue.empty()")
    elif any(q_call(e, ("empty",)) and p for e, p in test_atoms):
        ctx.fail("C09-D1", site, "Dijkstra loop runs while the queue IS empty",
                 "the loop must continue as long as a labelled, unsettled vertex is queued")
    elif isinstance(loop.test, ast.Name) and loop.test.id == Q and _queue_truthiness(ctx):
        ctx.ok("C09-D1", site, "while queue: (the queue is true while it holds an item)")
    elif isinstance(loop.test, ast.Constant) and loop.test.value is True and loop.body and isinstance(loop.body[0], ast.If) \
            and any(q_call(e, ("empty",)) and p for e, p in sk.atoms([(loop.body[0].test, True)])) and len(loop.body[0].body) == 1 \
            and isinstance(loop.body[0].body[0], ast.Break) and not loop.body[0].orelse:
        ctx.ok("C09-D1", site, "while True: if queue.empty(): break")
    else:
        und("C09-D1", loop, "loop condition of the Dijkstra loop is not `not queue.empty()`", au.src(loop.test)[:60])
    v = None
    bad_pop = None
    other_attr = None
    pop_stmt = None
    for st in loop.body:
        for name, val in sym.split_assign(st):
            r = b.resolve(val, at=st, keep=(Q,))
            if isinstance(r, ast.Attribute) and q_call(r.value, ("get", "pop")) and not r.value.args:
                if r.attr == payload:
                    v = name
                    pop_stmt = st
                else:
                    other_attr = (name, r.attr, st)
            elif isinstance(r, ast.Attribute) and isinstance(r.value, ast.Attribute) and isinstance(r.value.value, ast.Name) \
                    and r.value.value.id == Q and r.value.attr == "front":
                bad_pop = (st, "`front` does not remove the item from the queue")
            elif isinstance(r, ast.Attribute) and isinstance(r.value, (ast.Call, ast.Subscript)) and \
                    au.src(_root(r.value.func.value if isinstance(r.value, ast.Call) and isinstance(r.value.func, ast.Attribute) else r.value)) == Q \
                    and ".data" in au.src(r.value):
                bad_pop = (st, "an item is taken from the heap list by position, not by heappop")
        if v:
            break
    if v is None:
        removals = [c_ for c_ in au.calls(loop) if q_call(c_, ("get", "pop"))]
        if bad_pop and removals:
            und("C09-D1", bad_pop[0], "the current node is read at the front of the queue and removed by a separate call")
        elif bad_pop:
            ctx.fail("C09-D1", S(bad_pop[0]), "current node is not taken from queue.get() / queue.pop()",
                     "Dijkstra must settle the queued node of minimum label and remove it from the queue: " + bad_pop[1])
        elif other_attr and ctx.repo.has_func(PQ, "PriorityItem." + other_attr[1]):
            und("C09-D1", other_attr[2], "the popped item is read through a property of PriorityItem")
        elif other_attr and not any(isinstance(n, ast.Attribute) and n.attr == payload for n in au.walk(loop)):
            ctx.fail("C09-D1", S(other_attr[2]), f"popped item is read through .{other_attr[1]}, the payload field of PriorityItem is .{payload}",
                     "the current node must be the payload of the minimum item")
        else:
            und("C09-D1", loop, "the statement taking the current node from the priority queue is not recognised")
        return None
    ctx.ok("C09-D1", site, "current node = queue.get().<payload>")
    roles["v"] = v
    # `item = queue.get()` ... `v = item.x` : the iteration starts where the queue is popped, and item.x read elsewhere in the loop is v
    pv_ = pop_stmt.value if isinstance(pop_stmt, ast.Assign) else None
    if isinstance(pv_, ast.Attribute) and isinstance(pv_.value, ast.Name) and pv_.attr == payload:
        item_nm = pv_.value.id
        defs_ = [st_ for st_ in loop.body if isinstance(st_, ast.Assign) and len(st_.targets) == 1 and isinstance(st_.targets[0], ast.Name)
                 and st_.targets[0].id == item_nm and q_call(st_.value, ("get", "pop"))]
        n_binds = [x_ for x_ in au.walk(loop) if isinstance(x_, ast.Name) and x_.id in (item_nm, v) and isinstance(x_.ctx, ast.Store)]
        if len(defs_) == 1 and len(n_binds) == 2 and F.before(defs_[0], pop_stmt):
            class _IX(ast.NodeTransformer):
                def visit_Attribute(self, n_):
                    if isinstance(n_.ctx, ast.Load) and n_.attr == payload and isinstance(n_.value, ast.Name) and n_.value.id == item_nm:
                        return ast.copy_location(ast.Name(id=v, ctx=ast.Load()), n_)
                    return self.generic_visit(n_)
            body_ = loop.body
            k0, k1 = sk.index_in(body_, defs_[0]), sk.index_in(body_, pop_stmt)
            moved = body_[k0 + 1:k1]
            if not any(isinstance(x_, ast.Name) and x_.id == v for m_ in moved for x_ in ast.walk(m_)):
                # the binding of v moves up next to the pop: the statements in between only see item.x
                loop.body = body_[:k0 + 1] + [pop_stmt] + [_IX().visit(m_) for m_ in moved] + [_IX().visit(m_) for m_ in body_[k1 + 1:]]
                ast.fix_missing_locations(F.fn)
                F.refresh()
    base_conds = {(hr.key(e), p) for e, p in F.conds(pop_stmt, stop=loop)} if pop_stmt is not None else set()

    def LC(node, keep=()):
        """conditions of `node` inside the loop, without those under which the iteration takes place at all (`if queue.empty(): break`)"""
        return [(e, p) for e, p in F.conds(node, stop=loop, keep=keep) if (hr.key(e), p) not in base_conds]

    def LCR(node, keep=()):
        """the same with local names resolved where each test is evaluated"""
        raw = F.conds(node, stop=loop)
        res = F.conds_resolved(node, stop=loop, keep=keep)
        return [(er, p) for (e, p), (er, p2) in zip(raw, res) if (hr.key(e), p) not in base_conds] if len(raw) == len(res) else \
            [(e, p) for e, p in res if (hr.key(e), p) not in base_conds]
    # leaving the loop as soon as the popped node is *a* target: the other requested targets keep non-final labels
    for brk in [n for n in au.walk(loop) if isinstance(n, (ast.Break, ast.Return))]:
        inner = [a for a in au.ancestors(brk) if isinstance(a, (ast.For, ast.While))]
        if not inner or inner[0] is not loop:
            continue
        atoms = [(e, p) for e, p in LC(brk) if not ((ft := hr.flag_test(e, p)) and isinstance(ft[1], ast.Name) and F.root(ft[1].id, brk) == v
                                                                     and isinstance(ft[0], ast.Name) and ft[0].id not in F.params)]
        if len(atoms) == 1:
            e, p = atoms[0]
            if p and isinstance(e, ast.Compare) and len(e.ops) == 1 and isinstance(e.ops[0], ast.In) and isinstance(e.left, ast.Name) \
                    and F.root(e.left.id, brk) == v and isinstance(e.comparators[0], ast.Name) and e.comparators[0].id in F.params:
                tp_ = e.comparators[0].id
                per_target = [n_ for n_ in au.walk(F.fn) if isinstance(n_, (ast.For, ast.comprehension)) and F.before(loop, n_ if isinstance(n_, ast.For) else au.enclosing_stmt(n_))
                              and not F.inside(n_ if isinstance(n_, ast.For) else au.enclosing_stmt(n_), loop) and tp_ in au.names(n_.iter)]
                if not per_target:
                    und("C09-D1", brk, "the search is left at the first target reached and the targets are not visited one by one afterwards")
                    continue
                ctx.fail("C09-D1", S(brk), "the Dijkstra loop is left as soon as the popped node is one of the targets",
                         "with several targets the search stops at the first one reached: the labels / predecessors of the other targets are not "
                         "final (or never set)")
    # ---------------------------------------------------------------- locate the relaxation
    # label store: T[k] = e inside the loop with k != v where (a) a comparison mentioning T[k] guards it, or (b) e is `T[v] + ..`
    stores = hr.item_stores(loop)
    cand_stores = []
    for st, tg, val in stores:
        if not (isinstance(tg.value, ast.Name) and isinstance(tg.slice, ast.Name)) or val is None:
            continue
        T, k = tg.value.id, F.root(tg.slice.id, st)
        if k == v:
            continue
        conds = LC(st, keep=(v,))
        cmp_atoms = [(e, p) for e, p in LCR(st, keep=(v, tg.slice.id)) if isinstance(e, ast.Compare) and len(e.ops) == 1
                     and any(sk.is_sub(x, T) and F.root(x.slice.id, st) == k for x in au.walk(e))]
        rval = F.resolve(val, st, keep=(v,))
        by_shape = any(sk.is_sub(x, T, v) for x in hr.add_terms(rval)) and len(hr.add_terms(rval)) >= 2
        if cmp_atoms or by_shape:
            cand_stores.append((st, tg, val, T, k, conds, cmp_atoms, rval))
    if not cand_stores:
        und("C09-D3", loop, "the relaxation `if label[nv] > candidate: label[nv] = candidate` is not recognised",
            "no item store in the loop is guarded by a comparison on the stored table or has the form table[v] + weight")
        return roles
    # several neighbour loops that relax (a fast path per weight mode, extra links ..): not analysed as one scheme
    relax_loops = {id(a_) for c_ in cand_stores for a_ in au.ancestors(c_[0]) if isinstance(a_, ast.For) and F.inside(a_, loop)
                   and any(sk.is_sub(t_, c_[3]) for s_, t_, v_ in hr.item_stores(a_))}
    inner_most = set()
    for c_ in cand_stores:
        fl_ = [a_ for a_ in au.ancestors(c_[0]) if isinstance(a_, ast.For) and F.inside(a_, loop)]
        if fl_:
            inner_most.add(id(fl_[0]))
    if len(inner_most) > 1:
        und("C09-D3", loop, "the search relaxes labels in several neighbour loops")
        return roles
    # all candidates must agree on the label table and the neighbour
    LBLs = {c[3] for c in cand_stores}
    if len(LBLs) != 1:
        # predecessor stores are guarded by the same comparison: keep the table that is itself compared
        LBLs2 = {c[3] for c in cand_stores if any(any(sk.is_sub(x, c[3]) for x in au.walk(e)) for e, p in c[6])}
        LBLs = LBLs2 if len(LBLs2) == 1 else LBLs
    if len(LBLs) != 1:
        und("C09-D3", loop, "label table of the relaxation is ambiguous", f"{len(LBLs)} candidate tables")
        return roles
    LBL = next(iter(LBLs))
    lab = [c for c in cand_stores if c[3] == LBL]
    st0, tg0, val0, _, nvr, conds0, cmp0, rval0 = lab[0]
    nv = tg0.slice.id
    roles.update(LBL=LBL, nv=nv)
    fors = [a for a in au.ancestors(st0) if isinstance(a, ast.For) and F.inside(a, loop)]
    nloop = fors[-1] if fors else None
    if nloop is None:
        und("C09-D3", st0, "relaxation is not inside a loop over the neighbours of the popped node")
        return roles
    ftargets = set(au.assigned_names(nloop.target))
    for f_ in fors:
        ftargets |= set(au.assigned_names(f_.target))
    keep = tuple({v, nv, LBL} | ftargets)
    pure = {name for name, st_, ps_, body_ in _callable_bodies(F) if body_ is not None}
    pure -= {name for name, st_, ps_, body_ in _callable_bodies(F) if body_ is None}
    opaque = F.opaque(loop, {v, nv, LBL} | ftargets, known=pure)

    def is_lbl(x, idx, at=None):
        """x is `label[<idx>]` (copies of the index name followed; `at`: a node of the function near which the names are read)"""
        at = at if at is not None else st0
        return sk.is_sub(x, LBL) and F.root(x.slice.id, at) == F.root(idx, at)
    # ---------------------------------------------------------------- D2
    vis = None
    vis_conds = LC(nloop, keep=(v,))
    marked_tabs = {fm_[0].id for st_ in au.stmts(loop.body) if (fm_ := hr.flag_mark(st_)) and isinstance(fm_[0], ast.Name) and isinstance(fm_[1], ast.Name)
                   and F.root(fm_[1].id, st_) == v}
    for e, p in vis_conds:
        ft = hr.flag_test(e, p)
        if ft and isinstance(ft[0], ast.Name) and isinstance(ft[1], ast.Name) and F.root(ft[1].id, nloop) == v and ft[2] is False:
            if vis is not None and vis in marked_tabs and ft[0].id not in marked_tabs:
                continue            # another membership test on the popped node (an exclusion set ..): the visited table is the marked one
            vis = ft[0].id
        # `old = visited[v]` read before the mark, tested after it: `if old: continue`
        if vis is None and isinstance(e, ast.Name) and not p:
            dflag = F.b.reaching(e.id, nloop)
            if isinstance(dflag, ast.Subscript) and isinstance(dflag.value, ast.Name) and isinstance(dflag.slice, ast.Name) and F.root(dflag.slice.id, nloop) == v:
                vis = dflag.value.id
    # every node that is settled must be expanded: skipping the neighbour loop for a node because it is one of the requested targets cuts every
    # shortest path that runs through that target
    for e, p in vis_conds:
        if isinstance(e, ast.Compare) and len(e.ops) == 1 and isinstance(e.ops[0], (ast.In, ast.NotIn)) and isinstance(e.left, ast.Name) \
                and F.root(e.left.id, nloop) == v and isinstance(e.comparators[0], ast.Name):
            skipped_when_member = (isinstance(e.ops[0], ast.In) != bool(p))
            tab = e.comparators[0].id
            fa_ = fn0.args
            pos_ = fa_.posonlyargs + fa_.args
            required_ = {x_.arg for x_ in pos_[:len(pos_) - len(fa_.defaults)]} | {x_.arg for x_, d_ in zip(fa_.kwonlyargs, fa_.kw_defaults) if d_ is None}
            # (an optional parameter with a default - a set of vertices to avoid .. - is another feature, not the targets of the query)
            from_params = bool((hr.closure(F.deps(), {tab}) | {tab, F.root(tab, nloop)}) & required_)
            is_flag_table = any((fm_ := hr.flag_mark(st_)) and isinstance(fm_[0], ast.Name) and fm_[0].id == tab and fm_[2] is True for st_ in au.stmts(loop.body))
            if skipped_when_member and from_params and not is_flag_table:
                ctx.fail("C09-D2", S(nloop), "a settled node is not expanded when it is one of the requested targets",
                         "the neighbours of a target are never relaxed from it: the shortest path to another target that runs through it is replaced by a "
                         "detour, or the other target is not reached at all")
    # a flag table with the opposite polarity (`unsettled`: starts True, cleared when the node is settled) is not analysed
    inv_tabs = set()
    for st_ in au.stmts(loop.body):
        fm_ = hr.flag_mark(st_)
        if fm_ and isinstance(fm_[0], ast.Name) and isinstance(fm_[1], ast.Name) and F.root(fm_[1].id, st_) == v and fm_[0].id != roles.get("LBL") and fm_[2] is False:
            iv_, fd_ = F.initial_values(fm_[0].id, loop)
            if fd_ and iv_ and all(isinstance(x_, ast.Constant) and x_.value is True for x_ in iv_):
                inv_tabs.add(fm_[0].id)
    for c_ in au.calls(loop):
        if isinstance(c_.func, ast.Attribute) and c_.func.attr in ("remove", "discard") and isinstance(c_.func.value, ast.Name) and len(c_.args) == 1 \
                and isinstance(c_.args[0], ast.Name) and F.root(c_.args[0].id, c_) == v:
            d_ = F.definition(c_.func.value.id, loop)
            if isinstance(d_, (ast.SetComp,)) or (isinstance(d_, ast.Call) and au.call_tail(d_) in ("set", "frozenset") and d_.args):
                inv_tabs.add(c_.func.value.id)
    if inv_tabs and vis is None:
        und("C09-D2", nloop, "the settled flags are kept with the opposite polarity (a table that starts True and is cleared): this scheme is not analysed")
        roles["VIS"] = None
        return roles
    marks_v = []
    for st in au.stmts(loop.body):
        fm = hr.flag_mark(st)
        if fm and isinstance(fm[0], ast.Name) and isinstance(fm[1], ast.Name) and F.root(fm[1].id, st) == v and fm[0].id != LBL:
            marks_v.append((st, fm))
    by_label = [e for e, p in vis_conds if isinstance(e, ast.Compare) and any(sk.is_sub(x, LBL) and F.root(x.slice.id, nloop) == v for x in au.walk(e))]
    if vis is None and by_label:
        ctx.undecided("C09-D2", S(nloop), "stale queue entries are skipped by comparing the popped priority with the label: this scheme is not analysed", "")
        vis = marks_v[0][1][0].id if marks_v else None
        roles["VIS"] = vis
        marks_v = []
        vis_scheme_other = True
    elif vis is None and marks_v:
        vis_guess = marks_v[0][1][0].id
        inverted = any((ft := hr.flag_test(e, p)) and isinstance(ft[0], ast.Name) and ft[0].id == vis_guess and ft[2] is True for e, p in vis_conds)
        (ctx.fail if inverted else (lambda *a: _absent(ctx, F, loop, *a)))(
            "C09-D2", site, "neighbour loop is not guarded by `if visited[v]: continue`",
            "with lazy deletion a vertex is queued several times: a stale entry must be skipped, otherwise a settled vertex "
            "is expanded again from an outdated queue entry" + (" (the test is inverted)" if inverted else ""))
        vis = vis_guess
    elif vis is None:
        und("C09-D2", nloop, "the stale-entry test (`if visited[v]: continue`) is not recognised",
            "no flag table is tested on the popped node before its neighbours are scanned")
    else:
        ctx.ok("C09-D2", site, "stale entries of the popped node are skipped")
    roles["VIS"] = vis
    if vis is not None and not by_label:
        mv = [(st, fm) for st, fm in marks_v if fm[0].id == vis]
        good = []
        bad_kind = None
        for st, fm in mv:
            if fm[2] is not True:
                bad_kind = "set to False"
                continue
            if F.inside(st, nloop):
                bad_kind = "set inside the neighbour loop"
                continue
            extra = [(e, p) for e, p in LC(st, keep=(v,))
                     if not ((ft := hr.flag_test(e, p)) and isinstance(ft[0], ast.Name) and ft[0].id == vis and ft[2] is False)]
            if extra:
                bad_kind = "conditional"
                continue
            good.append(st)
        if good and (not bad_kind or bad_kind == "set inside the neighbour loop"):
            ctx.ok("C09-D2", site, "popped node marked settled on the expansion path")
        elif (not mv and opaque) or bad_kind == "conditional" or (not mv and [x for x in stores if isinstance(x[1].value, ast.Name) and x[1].value.id == vis]) \
                or (not mv and _touched_otherwise(loop, vis)):
            und("C09-D2", loop, "the settled mark of the popped node is not recognised")
        else:
            ctx.fail("C09-D2", site, "`visited[v] = True` is missing, conditional, or not set to True after the stale-entry test",
                     "an expanded vertex must be marked settled, otherwise every queued duplicate expands it again and "
                     "`if visited: continue` never fires" + (f" (the mark is {bad_kind})" if bad_kind else ""))
        # the flags must be fresh: a table fetched from the attributes stored on the mesh keeps the marks of an earlier search
        vbinds = [(st_, v_) for st_ in au.stmts(F.fn.body) for nm_, v_ in sym.split_assign(st_) if nm_ == vis and F.before(st_, loop)]
        stored = [(st_, v_) for st_, v_ in vbinds if isinstance(v_, ast.Call) and au.call_tail(v_) in ("get_attribute", "attribute")]
        cleared = [c_ for c_ in au.calls(F.fn) if isinstance(c_.func, ast.Attribute) and c_.func.attr in ("clear", "fill", "reset") and isinstance(c_.func.value, ast.Name)
                   and F.root(c_.func.value.id, c_) == F.root(vis, loop) and F.before(c_, loop)] + \
            [st_ for st_, tg_, v_ in hr.item_stores(F.fn) if isinstance(tg_.value, ast.Name) and F.root(tg_.value.id, st_) == F.root(vis, loop) and F.before(st_, loop)
             and isinstance(v_, ast.Constant) and v_.value is False]
        if stored and not cleared:
            ctx.fail("C09-D2", S(stored[0][0]), "the visited flags are an attribute stored on the mesh that is re-used without being cleared",
                     "every vertex must start unsettled: a second search on the same mesh finds the flags of the first one still set, pops its start "
                     "element as already settled and stops at once")
        ivals, found = F.initial_values(vis, loop)
        ctor_vals = hr.ctor_values(F.definition(vis, loop)) if F.definition(vis, loop) is not None else []
        if any(isinstance(x, ast.Constant) and x.value is True for x in ctor_vals):
            ctx.fail("C09-D2", site, "the visited table is initialised with True", "every vertex must start unsettled")
        elif any(_holds_true(x) for x in ivals):
            und("C09-D2", loop, "some entries of the visited table are set before the search starts")
        else:
            ctx.ok("C09-D2", site, "visited starts False")
    # ---------------------------------------------------------------- D3
    s3 = S(st0)
    lkey = hr.key(sk.sub(LBL, tg0.slice.id))
    # every store to the label table inside the loop
    lab_stores = [(st, tg, val) for st, tg, val in stores if isinstance(tg.value, ast.Name) and tg.value.id == LBL]
    cres = None
    d3_ok = True
    for st, tg, val in lab_stores:
        if not isinstance(tg.slice, ast.Name) or F.root(tg.slice.id, st) != F.root(nv, st) or val is None:
            if isinstance(tg.slice, ast.Name) and F.root(tg.slice.id, st) == v:
                ctx.fail("C09-D3", S(st), "label table is written outside the guarded relaxation", "the label of the settled node is rewritten: labels may only decrease, through the guarded update")
            else:
                und("C09-D3", st, "the label table is written at a key the rule does not recognise")
            d3_ok = False
            continue
        conds = LC(st, keep=keep)
        rel = None
        rels = []
        for (e, p), (er, p2) in zip(conds, LCR(st, keep=keep)):
            found_ = None
            for cand_e in (e, er):
                for x in au.walk(cand_e):
                    if found_ is None and is_lbl(x, nv, st):
                        r_ = hr.effective_cmp(cand_e, p, hr.key(x))
                        if r_:
                            found_ = (r_[0], r_[1], e)
            if found_ is not None:
                rels.append(found_)
        if rels:
            rel = rels[0]
            if len(rels) > 1:
                # `label != cand and label > cand`: the strict comparison decides when the other comparisons (with the same candidate) are implied by it
                stricts = [r_ for r_ in rels if r_[0] is ast.Gt]
                if stricts and all(r_[0] in (ast.Gt, ast.GtE, ast.NotEq) and hr.same(F.resolve(r_[1], st, keep=keep), F.resolve(stricts[0][1], st, keep=keep)) for r_ in rels):
                    rel = stricts[0]
                else:
                    und("C09-D3", st, "the label update is guarded by several comparisons of the label")
                    d3_ok = False
                    continue
        if rel is None:
            unknown_c = [e for e, p in conds if any(isinstance(n, ast.Call) and au.call_tail(n) not in ("len", "isinf") for n in ast.walk(e))
                         and (LBL in au.names(e) or nv in au.names(e))]
            if conds or unknown_c or opaque or (isinstance(val, ast.Call) and au.call_tail(val) in ("min", "minimum")) \
                    or any(is_lbl(x, nv, st) for x in au.walk(F.resolve(val, st, keep=keep))) or any(is_lbl(x, nv, st) for x in au.walk(val)):
                und("C09-D3", st, "the guard of the label update is not a comparison the rule can read", au.src(unknown_c[0])[:60] if unknown_c else "")
            else:
                ctx.fail("C09-D3", S(st), "label is written without the test `label[nv] > candidate`",
                         "a label may only be lowered: without the guard the last neighbour processed overwrites a shorter label")
            d3_ok = False
            continue
        op, cand, cmp_e = rel
        if op is ast.Gt:
            ctx.ok("C09-D3", S(st), "label[nv] > candidate (strict)")
        else:
            d3_ok = False
            ctx.fail("C09-D3", S(st), "the relaxation test is not `label[nv] > candidate`",
                     f"`{_generic(cmp_e, LBL, nv, v)}`: with >= a tie rewrites the predecessor of an already settled vertex: two vertices joined by a zero-weight edge "
                     "(every target and the virtual sink are) become each other's predecessor and back-tracking never terminates; "
                     "with < or <= labels never decrease")
        cr = F.resolve(cand, st, keep=keep)
        ar = F.resolve(val, st, keep=keep)
        while isinstance(ar, ast.Call) and au.call_tail(ar) in ("float", "float64") and len(ar.args) == 1 and not ar.keywords:
            ar = ar.args[0]              # a numeric conversion of the same value

        class _Prio(ast.NodeTransformer):
            # the priority of the (non stale) popped entry is the label of the popped node
            def visit_Attribute(self, n):
                if n.attr == (item or {}).get("priority", "priority") and q_call(b.resolve(n.value, at=st0, keep=(Q,)), ("get", "pop")):
                    return sk.sub(LBL, v)
                return self.generic_visit(n)
        import copy as _copy
        crn, arn = _Prio().visit(_copy.deepcopy(cr)), _Prio().visit(_copy.deepcopy(ar))
        is_min = isinstance(ar, ast.Call) and au.call_tail(ar) in ("min", "minimum") and len(ar.args) == 2 and \
            any(hr.same(a_, cr) or sym.to_poly(a_) == sym.to_poly(cr) for a_ in ar.args) and any(is_lbl(a_, nv, st) for a_ in ar.args)
        if hr.same(cr, ar) or sym.to_poly(cr) == sym.to_poly(ar) or sym.to_poly(crn) == sym.to_poly(arn):
            ctx.ok("C09-D3", S(st), "stored label == tested candidate")
        elif is_min:
            ctx.ok("C09-D3", S(st), "stored label == min(candidate, label) under the test label > candidate")
        elif any(is_lbl(x_, nv, st) for x_ in au.walk(ar)) or any(isinstance(x_, ast.Call) and au.call_tail(x_) not in ("float", "int", "abs", "len") for x_ in au.walk(ar)
                                                                  if not any(hr.same(x_, y_) for y_ in au.walk(cr))):
            d3_ok = False
            und("C09-D3", st, "the value stored as the new label is not the tested candidate in a form the rule recognises")
        else:
            d3_ok = False
            ctx.fail("C09-D3", S(st), "label is updated with a value different from the candidate that was tested",
                     f"tested `{_generic(cr, LBL, nv, v)}`, stored `{_generic(ar, LBL, nv, v)}`")
        cres = cres or cr
        roles.setdefault("cmp", cmp_e)
    if cres is not None:
        terms = hr.add_terms(cres)

        def is_popped_priority(x):
            r_ = b.resolve(x, at=st0, keep=(Q,))
            return isinstance(r_, ast.Attribute) and r_.attr == (item or {}).get("priority", "priority") and q_call(r_.value, ("get", "pop"))
        base = [x for x in terms if is_lbl(x, v) or is_popped_priority(x)]
        wts = [x for x in terms if not (is_lbl(x, v) or is_popped_priority(x))]
        if len(base) == 1 and wts and not any(LBL in au.names(w) for w in wts):
            ctx.ok("C09-D3", s3, "candidate = label[v] + w")
            wn = set().union(*[au.names(w) for w in wts])
            is_const = all(order.fold_const(w) is not None for w in wts)
            clo = hr.closure(F.deps(), wn)
            iter_names = au.names(nloop.iter)
            co_targets = set(au.assigned_names(nloop.target))
            dep_v = v in clo or any(F.root(x, nloop) == v for x in clo)
            dep_nv = nv in clo or bool(wn & (co_targets - {nv})) or any(x in ftargets for x in clo)
            if is_const or (dep_v and dep_nv):
                ctx.ok("C09-D3", s3, "weight reads both ends of the edge")
            elif any(isinstance(n, ast.Call) and not isinstance(n.func, ast.Attribute) for w in wts for n in ast.walk(w)) and not (dep_v or dep_nv):
                und("C09-D3", st0, "the edge weight of the relaxation is computed by a call the rule cannot read")
            else:
                ctx.fail("C09-D3", s3, "edge weight of the relaxation does not depend on both the expanded node and the neighbour",
                         f"weight `{' + '.join(_generic(w, LBL, nv, v) for w in wts)}` must be the weight of the edge (v, nv)")
        elif any(is_lbl(x, nv) for x in terms):
            ctx.fail("C09-D3", s3, "the candidate label is not `label[v] + weight`",
                     f"`{_generic(cres, LBL, nv, v)}`: the tentative distance of a neighbour is the settled distance of the expanded vertex plus the edge weight")
        elif len(base) == 1 and not wts:
            ctx.fail("C09-D3", s3, "the candidate label is not `label[v] + weight`", f"`{_generic(cres, LBL, nv, v)}`: the edge weight is missing")
        else:
            und("C09-D3", st0, "the candidate label is not of the form label[v] + weight", _generic(cres, LBL, nv, v)[:60])
    # predecessor
    cmp_key = hr.key(roles["cmp"]) if "cmp" in roles else None
    pred_stores = []
    stray_pred = []
    compound_pred = []
    for st, tg, val in stores:
        if not isinstance(tg.value, ast.Name) and isinstance(tg.slice, ast.Name) and val is not None and F.root(tg.slice.id, st) == F.root(nv, st) \
                and not isinstance(val, ast.Constant):
            compound_pred.append(st)        # table["pred"][nv] = v : a table reached through another subscript
            continue
        if not isinstance(tg.value, ast.Name) or tg.value.id in (LBL, vis) or not isinstance(tg.slice, ast.Name) or val is None:
            continue
        if F.root(tg.slice.id, st) != F.root(nv, st):
            continue
        if isinstance(val, ast.Constant):
            continue
        pv_ = F.resolve(val, st, keep=keep)
        if not isinstance(pv_, ast.Name):
            if isinstance(pv_, (ast.Tuple, ast.List)) or (v in au.names(pv_) and not any(sk.is_sub(x, LBL) for x in au.walk(pv_))) or \
                    (isinstance(pv_, ast.Call) and not any(sk.is_sub(x, LBL) for x in au.walk(pv_))):
                compound_pred.append(st)    # (v, edge), edge_id(a, b) .. : a predecessor record the rule does not read
            continue                 # another per-node table (hop count ..), not a predecessor
        conds = LC(st, keep=keep)
        under = cmp_key is not None and any(hr.key(e) == cmp_key for e, p in conds)
        if not under:
            # the same comparison written again (resolved) also counts
            under = any(any(is_lbl(x, nv, st) for x in au.walk(e)) and isinstance(e, ast.Compare) for e, p in conds)
        (pred_stores if under else stray_pred).append((st, tg, val))
    if pred_stores:
        PRED = pred_stores[0][1].value.id
        roles["PRED"] = PRED
        for st, tg, val in pred_stores:
            pv = F.resolve(val, st, keep=keep)
            okp = isinstance(pv, ast.Name) and (pv.id == v or pv.id in ftargets) and F.root(pv.id, st) != F.root(nv, st)
            if okp:
                ctx.ok("C09-D3", S(st), "predecessor[nv] = expanded node / crossed edge")
            elif isinstance(pv, ast.Name) and F.root(pv.id, st) != F.root(nv, st) and not (len(pred_stores) == 1 and pv.id in F.params):
                und("C09-D3", st, "a per-node table written next to the label records something the rule does not identify as a predecessor")
            elif isinstance(pv, ast.Name):
                ctx.fail("C09-D3", S(st), "the predecessor of the neighbour is not set to the expanded node (or the edge crossed)",
                         f"it is set to `{_generic(pv, LBL, nv, v)}`: back-tracking follows pred[] from the target to the start")
            else:
                und("C09-D3", st, "the value stored as predecessor is not a plain node / edge variable", au.src(pv)[:50])
        other = [(st, tg, val) for st, tg, val in stray_pred if tg.value.id == PRED]
        if other and any(not (hr.flag_test(e_, p_) or isinstance(e_, ast.Compare)) for st_, tg_, val_ in other for e_, p_ in LC(st_, keep=keep)):
            und("C09-D3", other[0][0], "the predecessor table is also written under a condition the rule does not recognise")
        elif other:
            ctx.fail("C09-D3", S(other[0][0]), "predecessor table is also written outside the guarded relaxation block",
                     "label and predecessor must change together")
    elif d3_ok and [x for x in stray_pred if any(not (hr.flag_test(e_, p_) or isinstance(e_, ast.Compare)) for e_, p_ in LC(x[0], keep=keep))]:
        und("C09-D3", stray_pred[0][0], "the predecessor is updated under a condition the rule does not recognise")
        roles["PRED"] = stray_pred[0][1].value.id
    elif d3_ok and [x for x in stray_pred if isinstance(F.resolve(x[2], x[0], keep=keep), ast.Name) and
                    (F.resolve(x[2], x[0], keep=keep).id == v or F.resolve(x[2], x[0], keep=keep).id in ftargets)]:
        ctx.fail("C09-D3", S(stray_pred[0][0]), "predecessor table is written outside the guarded relaxation block",
                 "label and predecessor must change together: otherwise back-tracking follows a predecessor that belongs to a longer path")
        roles["PRED"] = stray_pred[0][1].value.id
    elif opaque:
        und("C09-D3", st0, "the predecessor update is not visible (a helper receives the loop variables)")
    elif compound_pred:
        und("C09-D3", compound_pred[0], "the predecessor is recorded as a compound value the rule does not read")
    elif d3_ok and not need_pred:
        ctx.ok("C09-D3", s3, "a search that keeps no predecessor (labels only)")
    elif d3_ok:
        ctx.fail("C09-D3", s3, "predecessor is not updated in the block that updates the label",
                 "label and predecessor must change together, otherwise back-tracking follows a predecessor that belongs to a longer path")
    # ---------------------------------------------------------------- D4
    pushes = [c for c in au.calls(loop) if q_call(c, ("push",))]
    # local names that mirror the label of the neighbour: `best = label[nv]` before the test, `best = candidate` next to `label[nv] = candidate`
    mirrors = set()
    for st_ in au.stmts(nloop.body):
        for nm_, v_ in sym.split_assign(st_):
            if is_lbl(v_, nv, st_) and F.before(st_, st0):
                others_ = [(s2, v2) for s2 in au.stmts(nloop.body) for n2, v2 in sym.split_assign(s2) if n2 == nm_ and s2 is not st_]
                if all(cmp_key is not None and any(hr.key(e) == cmp_key for e, p in LC(s2, keep=keep)) for s2, v2 in others_) and \
                        all(cres is not None and (hr.same(F.resolve(v2, s2, keep=keep), cres) or is_lbl(v2, nv, s2)) for s2, v2 in others_):
                    mirrors.add(nm_)
    good_push = []
    why_bad = []
    relax_conds = {(hr.key(e), p) for e, p in conds0}
    for c in pushes:
        if len(c.args) != 2 or c.keywords:
            why_bad.append(("und", "push with keyword / extra arguments"))
            continue
        el, pr_ = c.args
        elr = F.resolve(el, c, keep=keep)
        if not (isinstance(elr, ast.Name) and F.root(elr.id, c) == F.root(nv, c)):
            if isinstance(elr, ast.Name) and F.root(elr.id, c) == v:
                why_bad.append(("fail", "the expanded node is pushed instead of the neighbour"))
            else:
                why_bad.append(("und", f"pushes `{au.src(el)[:30]}`"))
            continue
        if not F.inside(c, nloop):
            why_bad.append(("und", "push outside the neighbour loop"))
            continue
        after = all(F.before(st, c) for st, tg, val in lab_stores)
        pres = F.resolve(pr_, c, keep=keep)
        is_label_read = is_lbl(pr_, nv, c) or is_lbl(pres, nv, c) or (isinstance(pr_, ast.Name) and pr_.id in mirrors)
        is_cand = cres is not None and hr.same(pres, cres)
        if not (is_label_read or is_cand):
            # A*: priority = label[nv] + h(nv) with h a local callable chosen on sibling branches.  A lower bound computed from the geometry (a straight
            # line to the goal) is consistent only for weights that are geometric lengths: it must be switched on under `weights == 'length'` only
            hterms = hr.add_terms(pr_)
            hcalls = [t_ for t_ in hterms if isinstance(t_, ast.Call) and isinstance(t_.func, ast.Name) and len(t_.args) == 1 and isinstance(t_.args[0], ast.Name)
                      and F.root(t_.args[0].id, c) == F.root(nv, c)]
            rest_ = [t_ for t_ in hterms if t_ not in hcalls]
            if len(hcalls) == 1 and len(rest_) == 1 and (is_lbl(rest_[0], nv, c) or is_lbl(F.resolve(rest_[0], c, keep=keep), nv, c)
                                                         or (isinstance(rest_[0], ast.Name) and rest_[0].id in mirrors)
                                                         or (cres is not None and hr.same(F.resolve(rest_[0], c, keep=keep), cres))):
                hname = hcalls[0].func.id
                binds_ = sk.callable_bindings(F.fn).get(hname, [])
                verdicts = []
                for bst_, bargs_ in binds_:
                    body_ = bst_.value.body if isinstance(bst_, ast.Assign) and isinstance(bst_.value, ast.Lambda) else None
                    if body_ is None:
                        verdicts.append(None)
                        continue
                    if order.fold_const(body_) == 0:
                        verdicts.append(True)
                        continue
                    geometric = any(isinstance(n_, ast.Call) and au.call_tail(n_) in ("distance", "norm", "dist", "sqrt") for n_ in ast.walk(body_)) or \
                        any(isinstance(n_, ast.Attribute) and n_.attr == "vertices" for n_ in ast.walk(body_))
                    if not geometric:
                        verdicts.append(None)
                        continue
                    conds_ = [(F.resolve(e_, bst_), p_) for e_, p_ in sk.atoms(sk.path_conds(bst_))]
                    only_length = any(isinstance(e_, ast.Compare) and len(e_.ops) == 1 and isinstance(e_.ops[0], ast.Eq) and p_ and
                                      any(isinstance(x_, ast.Constant) and x_.value == "length" for x_ in [e_.left, e_.comparators[0]]) for e_, p_ in conds_)
                    verdicts.append(True if only_length else False)
                if binds_ and all(v_ is True for v_ in verdicts):
                    good_push.append(c)
                    continue
                if any(v_ is False for v_ in verdicts):
                    why_bad.append(("fail", "the queue priority adds a straight-line (geometric) lower bound to the label under weight modes other than 'length'"
                                            " (for unit or custom weights the bound over-estimates: the first settlement of the target is not final)"))
                    continue
            if is_lbl(pres, v, c) or is_lbl(pr_, v, c):
                why_bad.append(("fail", "the neighbour is pushed with the label of the expanded node"))
            else:
                why_bad.append(("und", f"priority `{au.src(pr_)[:30]}`"))
            continue
        if not after and not is_cand and not (isinstance(pr_, ast.Name) and pr_.id in mirrors):
            # only a priority READ from the label table can be stale; the candidate itself may be pushed before it is stored
            why_bad.append(("fail", "the neighbour is pushed with its label before the label is updated (stale label)"))
            continue
        extra = [(e, p) for e, p in F.conds(c, stop=nloop, keep=keep)
                 if not any(hr.key(e) == hr.key(e2) and p == p2 for e2, p2 in F.conds(nloop.body[0], stop=nloop, keep=keep))]
        okg = True
        for e, p in extra:
            ft = hr.flag_test(e, p)
            if ft and isinstance(ft[0], ast.Name) and (vis is None or ft[0].id == vis) and isinstance(ft[1], ast.Name) \
                    and F.root(ft[1].id, c) == F.root(nv, c):
                if ft[2] is False:
                    continue
                if vis is None:
                    why_bad.append(("und", "push guarded by a membership test on a table the rule did not identify as the visited flags"))
                    okg = False
                    break
                why_bad.append(("fail", "the push is guarded by `visited[nv]` (inverted)"))
                okg = False
                break
            if (hr.key(e), p) in relax_conds:
                continue
            if isinstance(e, ast.Compare) and isinstance(e.ops[0], (ast.Is, ast.Eq)) and hr.is_none(e.comparators[0]) and not p:
                continue        # `nv is not None`
            why_bad.append(("und", f"push guarded by `{au.src(e)[:40]}`"))
            okg = False
            break
        if okg:
            good_push.append(c)
    s4 = S(pushes[0]) if pushes else site
    if good_push:
        ctx.ok("C09-D4", s4, "queue.push(nv, label[nv]) after the update")
    elif any(k == "fail" for k, _ in why_bad):
        ctx.fail("C09-D4", s4, "no push of the neighbour with its updated label after the relaxation",
                 "after `label[nv]` decreases, `nv` must be queued with exactly that label (guarded at most by `not visited[nv]`): "
                 "a missing, stale, or wrongly guarded push settles vertices in the wrong order or never reaches them: "
                 + "; ".join(t for k, t in why_bad if k == "fail"))
    elif not pushes and not opaque and [c_ for c_ in au.calls(loop) if isinstance(c_.func, ast.Attribute) and isinstance(c_.func.value, ast.Name) and c_.func.value.id == Q
                                          and c_.func.attr not in ("get", "pop", "empty", "push", "front")]:
        und("C09-D4", loop, "the queue is fed through a method the rule does not know")
    elif not pushes and not opaque:
        ctx.fail("C09-D4", s4, "no push of the neighbour with its updated label after the relaxation", "no push in the loop: the search stops at the start vertex")
    else:
        und("C09-D4", pushes[0] if pushes else loop, "the push of the relaxed neighbour is not recognised", "; ".join(t for k, t in why_bad))
    # initialisation
    ivals, found = F.initial_values(LBL, loop)
    lbl_def0 = F.definition(LBL, loop)
    if isinstance(lbl_def0, ast.Dict):
        pushed0 = [c_.args[0] for c_ in au.calls(F.fn) if q_call(c_, ("push",)) and len(c_.args) == 2 and F.before(c_, loop) and not F.inside(c_, loop)]
        ivals = [v_ for k_, v_ in zip(lbl_def0.keys, lbl_def0.values) if not (k_ is not None and any(hr.same(k_, x_) for x_ in pushed0))]
    get_inf = [c_ for c_ in au.calls(F.fn) if isinstance(c_.func, ast.Attribute) and c_.func.attr == "get" and isinstance(c_.func.value, ast.Name)
               and F.root(c_.func.value.id, c_) == F.root(LBL, loop) and len(c_.args) == 2 and F.is_inf(c_.args[1])]
    if any(F.is_inf(x) for x in ivals):
        ctx.ok("C09-D4", site, "labels start at +inf")
    elif get_inf:
        ctx.ok("C09-D4", site, "a missing label reads as +inf (dict.get with an infinite default)")
    elif found and ivals and all(order.fold_const(x) is not None and abs(order.fold_const(x)) <= 1 for x in ivals) and \
            [st_ for st_ in au.stmts(F.fn.body) if isinstance(st_, ast.AugAssign) and F.before(st_, loop) and isinstance(st_.target, ast.Subscript)
             and isinstance(st_.target.value, ast.Name) and F.root(st_.target.value.id, st_) == F.root(LBL, loop)]:
        und("C09-D4", loop, "the labels are modified in bulk before the loop")
    elif found and ivals and all(order.fold_const(x) is not None and abs(order.fold_const(x)) <= 1 for x in ivals) and \
            any(isinstance(e_, ast.BoolOp) or (isinstance(e_, ast.Compare) and any(order.fold_const(x_) is not None or hr.is_none(x_) for x_ in [e_.left] + list(e_.comparators)))
                for e_, p_ in conds0):
        und("C09-D4", loop, "the labels start at a sentinel other than +inf that the relaxation tests explicitly")
    elif found and ivals and all(order.fold_const(x) is not None and abs(order.fold_const(x)) <= 1 for x in ivals):
        ctx.fail("C09-D4", site, "labels are not initialised to +inf", "an unreached vertex must lose every comparison `label[nv] > candidate`")
    else:
        und("C09-D4", loop, "the initial value of the labels is not visible")
    pre_push = [c for c in au.calls(F.fn) if q_call(c, ("push",)) and len(c.args) == 2 and F.before(c, loop) and not F.inside(c, loop)]
    pre_lab = [(st, tg, val) for st, tg, val in hr.item_stores(F.fn) if F.before(st, loop) and isinstance(tg.value, ast.Name)
               and F.root(tg.value.id, st) == F.root(LBL, loop) and val is not None]
    ok_init = False
    for c in pre_push:
        for st, tg, val in pre_lab:
            cv = order.fold_const(val)
            pr0_ = c.args[1]
            # A*: the start may be queued with its heuristic value h(start); the priority of the only entry of the queue does not matter
            h_seed = isinstance(pr0_, ast.Call) and isinstance(pr0_.func, ast.Name) and len(pr0_.args) == 1 and not pr0_.keywords \
                and hr.same(pr0_.args[0], c.args[0]) and pr0_.func.id in sk.callable_bindings(F.fn) and len(pre_push) == 1
            if hr.same(F.resolve(tg.slice, st), F.resolve(c.args[0], c)) and cv is not None and cv != float("inf") and cv == cv \
                    and (order.fold_const(pr0_) is not None or h_seed):
                ok_init = True
                roles["start"] = c.args[0]
    seed_mismatch = None
    if not ok_init and len(pre_push) == 1 and len(pre_lab) == 1:
        k_lab, k_push = F.resolve(pre_lab[0][1].slice, pre_lab[0][0]), F.resolve(pre_push[0].args[0], pre_push[0])
        cvl = order.fold_const(pre_lab[0][2])
        if cvl is not None and cvl != float("inf") and order.fold_const(pre_push[0].args[1]) is not None and not hr.same(k_lab, k_push) \
                and (isinstance(k_lab, ast.Constant) != isinstance(k_push, ast.Constant) or
                     (isinstance(k_lab, ast.Constant) and isinstance(k_push, ast.Constant) and k_lab.value != k_push.value)) \
                and not F.conds(pre_lab[0][0]) and not F.conds(pre_push[0]):
            seed_mismatch = (k_lab, k_push)
    lbl_def = F.definition(LBL, loop)
    if not ok_init and isinstance(lbl_def, ast.Dict):
        for c in pre_push:
            for k_, v_ in zip(lbl_def.keys, lbl_def.values):
                cv = order.fold_const(v_) if v_ is not None else None
                if k_ is not None and hr.same(k_, c.args[0]) and cv is not None and cv != float("inf"):
                    ok_init = True
                    roles["start"] = c.args[0]
    if not ok_init and lbl_def is not None:
        for c in pre_push:
            for n_ in ast.walk(lbl_def):
                if isinstance(n_, ast.IfExp) and isinstance(n_.test, ast.Compare) and len(n_.test.ops) == 1 and isinstance(n_.test.ops[0], (ast.Eq, ast.NotEq, ast.Is, ast.IsNot)) \
                        and any(hr.same(F.resolve(x_, loop), F.resolve(c.args[0], c)) or hr.same(x_, c.args[0]) for x_ in [n_.test.left, n_.test.comparators[0]]):
                    at_start = n_.body if isinstance(n_.test.ops[0], (ast.Eq, ast.Is)) else n_.orelse
                    cv = order.fold_const(at_start)
                    if cv is not None and cv != float("inf") and cv == cv and order.fold_const(c.args[1]) is not None:
                        ok_init = True
                        roles["start"] = c.args[0]
    uniform_ctor = isinstance(lbl_def, (ast.DictComp, ast.ListComp)) or (isinstance(lbl_def, ast.Call) and au.call_tail(lbl_def) in ("dict", "fromkeys")) \
        or (isinstance(lbl_def, ast.BinOp) and isinstance(lbl_def.op, ast.Mult))
    if ok_init:
        ctx.ok("C09-D4", site, "label[start] = 0 and push(start, 0) before the loop")
    elif seed_mismatch is not None:
        ctx.fail("C09-D4", site, "the element queued before the loop is not the element that receives the finite label",
                 "one of them is a fixed index and the other is not: when they differ the queued start keeps an infinite label, no relaxation "
                 "`label[nv] > inf + w` fires from it and the elements settled before the labelled one get no predecessor")
    elif pre_push and not pre_lab and found and uniform_ctor and ivals and all(F.is_inf(x) for x in ivals) \
            and not any(isinstance(n_, ast.IfExp) for n_ in ast.walk(lbl_def)):
        ctx.fail("C09-D4", site, "start is not both given a finite label and pushed before the loop",
                 f"{len(pre_push)} push(es) and no label store before the loop")
    elif pre_lab and not pre_push and isinstance(F.definition(Q, loop), ast.Call) and (F.definition(Q, loop).args or F.definition(Q, loop).keywords):
        und("C09-D4", loop, "the queue is created with initial entries")
    elif pre_lab and not pre_push and [n_ for n_ in au.walk(F.fn) if isinstance(n_, ast.Name) and n_.id == Q and isinstance(n_.ctx, ast.Load)
                                       and F.before(au.enclosing_stmt(n_), loop) and not F.inside(n_, loop)]:
        und("C09-D4", loop, "the queue is filled before the loop in a way the rule does not recognise")
    elif pre_lab and not pre_push and not F.opaque(F.fn, {Q}):
        ctx.fail("C09-D4", site, "start is not both given a finite label and pushed before the loop",
                 f"no push and {len(pre_lab)} label store(s) before the loop")
    else:
        und("C09-D4", loop, "the seeding of the search (label[start] = 0, push(start, 0)) is not recognised")
    return roles


def _generic(e, LBL, nv, v):
    """source text with the local names of the loop replaced by their roles (stable under renaming)."""
    m = {LBL: ast.Name(id="label", ctx=ast.Load()), nv: ast.Name(id="nv", ctx=ast.Load()), v: ast.Name(id="v", ctx=ast.Load())}
    return au.src(sym.subst(e, m))


# ----------------------------------------------------------------------- C09-W1
def _callable_bodies(F):
    """(name, binding stmt, parameter names, body expression or None) for lambdas / single-return local defs bound in the function"""
    out = []
    for name, binds in sk.callable_bindings(F.fn).items():
        for st, args in binds:
            ps = [a.arg for a in args.posonlyargs + args.args]
            if isinstance(st, ast.Assign):
                out.append((name, st, ps, st.value.body))
            else:
                body = hf_flat.strip_doc(st.body)
                if len(body) == 1 and isinstance(body[0], ast.Return) and body[0].value is not None:
                    out.append((name, st, ps, body[0].value))
                else:
                    # several statements (a memo table, temporaries): the rules look at every expression the body evaluates, with the temporaries
                    # that are bound once replaced by their definitions
                    exprs = []
                    defs = {}
                    cnt = {}
                    for x in au.stmts(body):
                        for nm, v in sym.split_assign(x):
                            cnt[nm] = cnt.get(nm, 0) + 1
                            defs[nm] = v
                    single = {k: v for k, v in defs.items() if cnt.get(k) == 1 and k not in ps}
                    simple = all(isinstance(x, (ast.Assign, ast.AnnAssign, ast.Return, ast.If, ast.Expr)) for x in au.stmts(body)) and \
                        not any(isinstance(n_, (ast.For, ast.While, ast.Try, ast.With)) for x in body for n_ in ast.walk(x))
                    for x in au.stmts(body):
                        if isinstance(x, ast.Return) and x.value is not None:
                            exprs.append(x.value)
                        elif isinstance(x, (ast.Assign, ast.AnnAssign)) and x.value is not None:
                            exprs.append(x.value)
                    if simple and exprs and any(isinstance(x, ast.Return) for x in au.stmts(body)):
                        out.append((name, st, ps, ast.copy_location(ast.Tuple(elts=[sym.subst(e_, single) for e_ in exprs], ctx=ast.Load()), st)))
                    else:
                        out.append((name, st, ps, None))
    return out


def _stale_source(F, expr, skip=()):
    """a local container read by `expr` that is bound to a *stored* attribute (get_attribute / persistent=True): text or None"""
    for nm in au.names(expr):
        if nm in skip or nm in F.params:
            continue
        for st in au.stmts(F.fn.body):
            for n2, v in sym.split_assign(st):
                if n2 != nm or not isinstance(v, ast.Call):
                    continue
                t = au.call_tail(v)
                if t in ("get_attribute", "attribute") and not any(isinstance(a_, ast.Name) and a_.id in F.params for a_ in v.args):
                    return f"`{au.src(v)[:60]}` (an attribute stored on the mesh by an earlier call)"
                if any(k.arg == "persistent" and au.const(k.value) is True for k in v.keywords):
                    return f"`{au.src(v)[:70]}` (persistent: computed once, then re-used)"
    return None


def _w1_zero_weight_is_a_weight(ctx):
    """a weight supplied by the caller is used as it is, 0 included: `weights.get(e) or <fallback>` / `weights[e] or ..` replaces a weight of 0 (falsy)"""
    m = ctx.repo.module(PATHS)
    n = 0
    for q, fn in sorted(m.funcs.items()):
        wparams = {p_ for p_ in au.params(fn) if "weight" in p_.lower()}
        if not wparams:
            continue
        for x in au.walk(fn, into_funcs=True):
            first = None
            if isinstance(x, ast.BoolOp) and isinstance(x.op, ast.Or) and len(x.values) >= 2:
                first = x.values[0]
            elif isinstance(x, ast.IfExp) and hr.same(x.test, x.body):
                first = x.test
            if first is None:
                continue
            reads = (isinstance(first, ast.Subscript) and isinstance(first.value, ast.Name) and first.value.id in wparams) or \
                (isinstance(first, ast.Call) and isinstance(first.func, ast.Attribute) and first.func.attr == "get" and isinstance(first.func.value, ast.Name)
                 and first.func.value.id in wparams)
            if reads:
                n += 1
                ctx.fail("C09-W1", ctx.site(PATHS, fn, x), "a weight supplied by the caller is replaced when it is falsy (`<weight> or <fallback>`)",
                         "an edge of weight 0 is a legitimate free edge: the search then minimises another weight function than the one it was given")
    if n == 0:
        ctx.ok("C09-W1", ctx.site(PATHS, ctx.repo.func(PATHS, "shortest_path")), "supplied weights are not tested for truthiness")


def w1_weight_modes(ctx):
    repo = ctx.repo
    _w1_zero_weight_is_a_weight(ctx)
    # (a) shortest_path: every two-argument weight callable reads both endpoints; the custom mode goes through edge_id(u, v)
    fn0 = repo.func(PATHS, "shortest_path")
    F = _flat(ctx, PATHS, fn0)
    params = set(F.params)
    n = 0
    called_in_loop = {c_.func.id for lp_ in au.walk(F.fn) if isinstance(lp_, ast.While) for c_ in au.calls(lp_) if isinstance(c_.func, ast.Name)}
    for name, st, ps, body in _callable_bodies(F):
        s = ctx.site(PATHS, fn0, st)
        if len(ps) != 2:
            continue   # arity is C09-A1's business; one-argument callables are not edge weights
        if name not in called_in_loop and not any(isinstance(n_, ast.Name) and n_.id == name for lp_ in au.walk(F.fn) if isinstance(lp_, ast.While) for n_ in au.walk(lp_)):
            continue   # a two-argument callable that the search never uses is not an edge weight
        n += 1
        if body is None:
            ctx.undecided("C09-W1", s, "a weight callable is not a single expression", "")
            continue
        if order.fold_const(body) is not None:
            ctx.ok("C09-W1", s, "constant weight")
            continue
        body_r = F.resolve(body, st, keep=tuple(ps))
        used = au.names(body_r)

        def _numeric(e_):
            if order.fold_const(e_) is not None:
                return True
            return isinstance(e_, ast.Call) and au.call_tail(e_) in ("float", "int", "float64", "float32") and len(e_.args) == 1 and _numeric(e_.args[0])
        if _numeric(body_r):
            ctx.ok("C09-W1", s, "constant weight")
            continue
        if set(ps) <= used:
            ctx.ok("C09-W1", s, "weight reads both endpoints")
        elif not (set(ps) & used):
            ctx.undecided("C09-W1", s, "a weight callable reads neither endpoint (a uniform weight the rule cannot evaluate)", "")
            continue
        else:
            ctx.fail("C09-W1", s, "a weight callable ignores one endpoint of the edge",
                     f"`{_lam_generic(body, ps)}` must be the weight of the edge between its two arguments")
        for sub in [x for x in au.walk(body_r) if isinstance(x, ast.Subscript) and isinstance(x.value, ast.Name)]:
            k = sub.slice
            is_edge_key = isinstance(k, ast.Call) and au.call_tail(k) == "edge_id" and len(k.args) == 2 and \
                sorted(a.id if isinstance(a, ast.Name) else "?" for a in k.args) == sorted(ps)
            if sub.value.id in params:
                if is_edge_key:
                    ctx.ok("C09-W1", s, "custom weights keyed by edge_id(u, v)")
                elif isinstance(k, ast.Name) and k.id in ps and (isinstance(body_r, ast.BinOp) or len([x_ for x_ in au.walk(body_r) if isinstance(x_, ast.Call)]) >= 1):
                    ctx.undecided("C09-W1", s, "a per-vertex term is combined with another weight", "")
                elif isinstance(k, ast.Name) and k.id in ps:
                    ctx.fail("C09-W1", s, "custom weights are indexed by a vertex instead of edge_id(u, v)",
                             "caller-supplied weights are per edge: the key must be the id of the edge joining the two endpoints")
                else:
                    ctx.undecided("C09-W1", s, "the key of the custom weights is not recognised", _lam_generic(k, ps)[:50])
            elif is_edge_key:
                stale = _stale_source(F, sub.value, skip=ps)
                if stale:
                    ctx.fail("C09-W1", s, "edge lengths are read from an attribute stored on the mesh instead of the current geometry",
                             f"the weights come from {stale}: after the vertices move (or when the mesh already carries an attribute of that "
                             "name) the query minimises stale lengths")
        vs = [x for x in au.walk(body_r) if isinstance(x, ast.Subscript) and isinstance(x.value, ast.Attribute) and x.value.attr == "vertices"]
        if vs:
            idxs = sorted(x.slice.id if isinstance(x.slice, ast.Name) else "?" for x in vs)
            if "?" in idxs or not set(idxs) <= set(ps):
                ctx.undecided("C09-W1", s, "the coordinates read by the length weight are not indexed by the plain endpoints", "")
                continue
            ctx.check(idxs == sorted(ps), "C09-W1", s, "length weight does not measure the distance between the two endpoints",
                      f"coordinates read at {['u' if i == ps[0] else 'v' if i == ps[1] else '?' for i in idxs]}", note="length = distance(P[u], P[v])")
    if n < 1:
        ctx.undecided("C09-W1", ctx.site(PATHS, fn0), "weight callables of shortest_path not recognised",
                      "no lambda / local function of two arguments selects the edge weight")
    # (b) shortest_path_to_vertex_set: adjacency filled symmetrically from the edge list, custom weights by enumeration index
    fn0 = repo.func(PATHS, "shortest_path_to_vertex_set")
    F = _flat(ctx, PATHS, fn0)
    fn = F.fn
    site = ctx.site(PATHS, fn0)
    b = F.b
    params = set(F.params)
    n_loops = 0
    adj = None
    for lp in [st for st in au.stmts(fn.body) if isinstance(st, ast.For)]:
        it = lp.iter
        idx = None
        tgt = lp.target
        if isinstance(it, ast.Call) and au.call_tail(it) == "enumerate" and len(it.args) == 1 and isinstance(tgt, ast.Tuple) and len(tgt.elts) == 2:
            it, idx, tgt = it.args[0], tgt.elts[0], tgt.elts[1]
        if not (isinstance(it, ast.Attribute) and it.attr == "edges" and isinstance(tgt, ast.Tuple) and len(tgt.elts) == 2
                and all(isinstance(x, ast.Name) for x in tgt.elts)):
            continue
        u, w = tgt.elts[0].id, tgt.elts[1].id
        stores = [(st, tg, val) for st, tg, val in hr.item_stores(lp) if isinstance(tg.value, ast.Subscript) and isinstance(tg.value.value, ast.Name)
                  and val is not None]
        if not stores:
            continue
        n_loops += 1
        s = ctx.site(PATHS, fn0, lp)
        adj = F.root(stores[0][1].value.value.id, lp)
        groups = {}
        for st, tg, val in stores:
            if F.root(tg.value.value.id, lp) != adj:
                continue
            gk = tuple(sorted((hr.key(e), p) for e, p in F.conds(st, stop=lp)))
            groups.setdefault(gk, []).append((st, tg, val))
        for gk, grp in groups.items():
            def rn(x, at):
                return F.root(x.id, at) if isinstance(x, ast.Name) else au.src(x)
            keys = sorted((rn(tg.value.slice, st), rn(tg.slice, st)) for st, tg, val in grp)
            if keys == sorted([(u, w), (w, u)]):
                ctx.ok("C09-W1", s, "adj[u][v] and adj[v][u]")
            elif set(keys) < {(u, w), (w, u)} and any((set(gk) < set(gk2) or set(gk2) < set(gk)) and ({(u, w), (w, u)} - set(keys)) & {(rn(tg2.value.slice, st2), rn(tg2.slice, st2)) for st2, tg2, v2 in grp2}
                                                       for gk2, grp2 in groups.items() if gk2 != gk):
                ctx.undecided("C09-W1", s, "the two directions of an edge are stored under different conditions", "")
                continue
            elif set(keys) < {(u, w), (w, u)}:
                _absent(ctx, F, lp, "C09-W1", s, "adjacency weights of the vertex-set query are not stored for both directions of the edge",
                        f"{len(keys)} store(s): the graph is undirected: w(u,v) and w(v,u) are both needed")
                continue
            else:
                ctx.undecided("C09-W1", s, "the adjacency stores of the vertex-set query are not of the form adj[u][v] / adj[v][u]", "")
                continue
            keepn = (u, w) + ((idx.id,) if isinstance(idx, ast.Name) else ())
            vals = [F.resolve(val, st, keep=keepn) for st, tg, val in grp]
            # a direction that copies the entry just stored for the other direction has the same weight
            tgs = [tg for st, tg, val in grp]
            vals = [x for x in vals if not any(hr.same(x, t_) for t_ in tgs)] or vals[:1]
            def _sym_same(x_, y_):
                return isinstance(x_, ast.Call) and isinstance(y_, ast.Call) and hr.same(x_.func, y_.func) and len(x_.args) == len(y_.args) == 2 \
                    and not x_.keywords and not y_.keywords and au.call_tail(x_) in ("distance", "norm", "dist", "edge_id") \
                    and sorted(au.src(a_) for a_ in x_.args) == sorted(au.src(a_) for a_ in y_.args)
            if all(hr.same(vals[0], x) or _sym_same(vals[0], x) for x in vals):
                ctx.ok("C09-W1", s, "same weight in both directions")
            elif all(au.names(x) == au.names(vals[0]) for x in vals) and not any(isinstance(n_, ast.Name) and F.root(n_.id, lp) == adj for x in vals for n_ in ast.walk(x)):
                ctx.fail("C09-W1", s, "the two directions of an edge receive different weights", "")
            else:
                ctx.undecided("C09-W1", s, "the weights stored for the two directions of an edge are written differently", "")
            v0 = vals[0]
            if order.fold_const(v0) is not None:
                continue
            for sub_ in [x for x in au.walk(v0) if isinstance(x, ast.Subscript) and isinstance(x.value, ast.Name)]:
                k = sub_.slice
                is_idx = (isinstance(idx, ast.Name) and isinstance(k, ast.Name) and k.id == idx.id) or \
                         (isinstance(k, ast.Call) and au.call_tail(k) == "edge_id" and len(k.args) == 2 and
                          sorted(a.id if isinstance(a, ast.Name) else "?" for a in k.args) == sorted([u, w]))
                if sub_.value.id in params:
                    if is_idx:
                        ctx.ok("C09-W1", s, "custom weights keyed by the edge index")
                    elif isinstance(k, ast.Name) and k.id in (u, w):
                        ctx.fail("C09-W1", s, "custom weights are indexed by a vertex of the edge instead of the edge index",
                                 "caller-supplied weights are per edge (enumeration index of mesh.edges or edge_id(u, v))")
                    else:
                        ctx.undecided("C09-W1", s, "the key of the custom weights is not recognised", "")
                elif is_idx:
                    stale = _stale_source(F, sub_.value, skip=keepn)
                    if stale:
                        ctx.fail("C09-W1", s, "edge lengths are read from an attribute stored on the mesh instead of the current geometry",
                                 f"the weights come from {stale}: after the vertices move (or when the mesh already carries an attribute of that "
                                 "name) the query minimises stale lengths")
            vs = [x for x in au.walk(v0) if isinstance(x, ast.Subscript) and isinstance(x.value, ast.Attribute) and x.value.attr == "vertices"]
            if vs:
                idxs = sorted(x.slice.id if isinstance(x.slice, ast.Name) else "?" for x in vs)
                if "?" in idxs or not set(idxs) <= {u, w}:
                    ctx.undecided("C09-W1", s, "the coordinates read by the length weight are not indexed by the plain endpoints", "")
                    continue
                ctx.check(idxs == sorted([u, w]), "C09-W1", s, "length weight does not measure the distance between the two endpoints",
                          "", note="length = distance(P[u], P[v])")
    if n_loops < 1:
        ctx.undecided("C09-W1", site, "weighted adjacency of the vertex-set query is not recognised",
                      "no `for (u, v) in mesh.edges: adj[u][v] = w; adj[v][u] = w` loop found")
    # (c) the sink is linked from every target
    sents, used = sentinels(F, repo.module(PATHS))
    cands = [x for x in sents if x in used]
    if len(cands) != 1 or adj is None:
        ctx.undecided("C09-W1", site, "the link between the targets and the virtual sink is not recognised", "")
        return
    Sn = cands[0]
    dj = [st for st in au.stmts(fn.body) if isinstance(st, ast.While) and any(isinstance(n, ast.Name) and n.id in pq_names(fn) for n in au.walk(st))]
    dj_loop = dj[0] if len(dj) == 1 else None
    links = []
    for st, tg, val in hr.item_stores(fn):
        if isinstance(tg.value, ast.Subscript) and isinstance(tg.value.value, ast.Name) and F.root(tg.value.value.id, st) == adj \
                and isinstance(tg.slice, ast.Name) and tg.slice.id == Sn and isinstance(tg.value.slice, ast.Name):
            links.append((st, tg, val))
    verdict = None
    for st, tg, val in links:
        t = tg.value.slice.id
        lps = [a for a in au.ancestors(st) if isinstance(a, ast.For) and t in au.assigned_names(a.target)]
        if not lps:
            continue
        lp = lps[0]
        it_ = lp.iter
        if isinstance(it_, ast.Subscript) and isinstance(it_.slice, ast.Slice) and (it_.slice.lower is None or au.const(it_.slice.lower) == 0) \
                and it_.slice.upper is None and (it_.slice.step is None or au.const(it_.slice.step) == 1):
            it_ = it_.value                     # targets[:] : a copy of the whole list
        if isinstance(it_, ast.Call) and au.call_tail(it_) in ("list", "tuple", "set", "sorted", "frozenset") and len(it_.args) == 1:
            it_ = it_.args[0]
        whole = isinstance(it_, ast.Name) and (it_.id in params or F.root(it_.id, lp) in params)
        unguarded = not F.conds(st, stop=lp) and (dj_loop is None or F.unconditional(lp, dj_loop))
        zero = val is not None and order.fold_const(val) == 0
        if whole and unguarded and zero:
            verdict = "ok"
        elif verdict is None:
            if not zero and val is not None and order.fold_const(val) is not None:
                verdict = ("fail", "the link to the virtual sink does not have weight 0")
            elif isinstance(lp.iter, ast.Subscript) and isinstance(lp.iter.value, ast.Name) and lp.iter.value.id in params and isinstance(lp.iter.slice, ast.Slice) \
                    and ((lp.iter.slice.lower is not None and au.const(lp.iter.slice.lower) != 0) or lp.iter.slice.upper is not None or
                         (lp.iter.slice.step is not None and au.const(lp.iter.slice.step) != 1)) \
                    and all(x_ is None or isinstance(au.const(x_), int) for x_ in (lp.iter.slice.lower, lp.iter.slice.upper, lp.iter.slice.step)):
                verdict = ("fail", "only a slice of the target list is linked to the virtual sink")
            elif whole and zero and any(t in au.names(e_) for e_, p_ in F.conds(st, stop=lp)) and not any(hr.flag_test(e_, p_) for e_, p_ in F.conds(st, stop=lp)) \
                    and not any((Sn in au.names(e_)) or any(isinstance(n_, ast.Name) and F.root(n_.id, st) == adj for n_ in ast.walk(e_)) for e_, p_ in F.conds(st, stop=lp)):
                verdict = ("fail", "targets are linked to the virtual sink only under a condition")
    if verdict == "ok":
        ctx.ok("C09-W1", site, "adj[s][SINK] = 0 for every target")
    elif isinstance(verdict, tuple):
        ctx.fail("C09-W1", site, "targets are not all linked to the virtual sink with weight 0",
                 verdict[1] + ": `for s in targets: adj[s][SINK] = 0` over the whole target list, unconditionally")
    else:
        ctx.undecided("C09-W1", site, "the link between the targets and the virtual sink is not recognised", "")


def _lam_generic(e, ps):
    m = {p: ast.Name(id=r, ctx=ast.Load()) for p, r in zip(ps, ("u", "v"))}
    return au.src(sym.subst(e, m))


# ----------------------------------------------------------------------- C09-B1
def b1_backtracking(ctx, roles_by_fn):
    repo = ctx.repo
    R = "C09-B1"
    why = "the path must contain every vertex from the target back to the start exactly once, in start-to-target order, and no virtual vertex"
    for qual in ("shortest_path", "shortest_path_to_vertex_set"):
        fn0 = repo.func(PATHS, qual)
        F = _flat(ctx, PATHS, fn0)
        site = ctx.site(PATHS, fn0)
        rs = roles_by_fn.get(qual) or []
        preds = {r["PRED"] for r in rs if r.get("PRED")}
        start_names = _start_names(F, rs)
        sents, _ = sentinels(F, repo.module(PATHS))
        # a walk may stop early only at a node whose own path is complete: membership in a result table that was created with a placeholder for
        # every key is true for the entries that are not built yet
        early = False
        for wl_ in [st_ for st_ in au.stmts(F.fn.body) if isinstance(st_, ast.While)]:
            curs_ = set()
            for e_, p_ in sk.atoms([(wl_.test, True)]):
                if isinstance(e_, ast.Compare) and len(e_.ops) == 1 and isinstance(e_.ops[0], ast.Eq) and not p_:
                    sides_ = [e_.left, e_.comparators[0]]
                    if any(isinstance(x_, ast.Name) and (x_.id in start_names or F.root(x_.id, wl_) in start_names) for x_ in sides_):
                        curs_ |= {x_.id for x_ in sides_ if isinstance(x_, ast.Name) and not (x_.id in start_names or F.root(x_.id, wl_) in start_names)}
            if not curs_:
                continue
            tests_ = [(e_, p_, True) for e_, p_ in sk.atoms([(wl_.test, True)])]
            for brk_ in [n_ for n_ in au.walk(wl_) if isinstance(n_, ast.Break)]:
                tests_ += [(e_, p_, False) for e_, p_ in F.conds(brk_, stop=wl_)]
            for e_, p_, in_test in tests_:
                if not (isinstance(e_, ast.Compare) and len(e_.ops) == 1 and isinstance(e_.ops[0], (ast.In, ast.NotIn)) and isinstance(e_.left, ast.Name)
                        and e_.left.id in curs_ and isinstance(e_.comparators[0], ast.Name)):
                    continue
                member = isinstance(e_.ops[0], ast.In) == bool(p_)          # the atom says: the node is in the table
                stops_when_member = (not member) if in_test else member
                tab_ = F.root(e_.comparators[0].id, wl_)
                d_ = F.definition(tab_, wl_)
                vals_ = hr.ctor_values(d_) if d_ is not None else []
                prefilled = d_ is not None and (isinstance(d_, ast.DictComp) or (isinstance(d_, ast.Call) and au.call_tail(d_) in ("dict", "fromkeys") and d_.args)) \
                    and vals_ and all((isinstance(v_, ast.List) and not v_.elts) or (isinstance(v_, ast.Call) and au.call_tail(v_) in ("list", "set", "dict") and not v_.args)
                                      or hr.is_none(v_) for v_ in vals_)
                if stops_when_member and prefilled:
                    ctx.fail(R, ctx.site(PATHS, fn0, wl_), "the back-tracking stops at a node on its membership in a table that holds a placeholder for every target",
                             why + ": the table is created with an empty entry for every key, so the test is also true for an entry that is not built yet - "
                             "the path of the farther target is then completed with the empty placeholder and does not start at `start`")
                    early = True
        if early:
            continue
        walks = hf_walk.find_walks(F, start_names)
        if not walks:
            ctx.undecided(R, site, "predecessor back-tracking loop `while v != start` not recognised", "")
            continue
        for lp, w, msg in walks:
            s = ctx.site(PATHS, fn0, lp)
            if w is None:
                ctx.undecided(R, s, msg, "what is recorded by this loop is not analysed here (aliasing of the result lists: see C09-B2)")
                continue
            pr_roots = {F.root(p_, lp) for p_ in preds}
            pdef = F.definition(w.pred, lp)
            fed = [st_ for st_ in au.stmts(F.fn.body) if not isinstance(st_, (ast.For, ast.While, ast.If)) and
                   any(isinstance(n_, ast.Name) and F.root(n_.id, st_) == w.pred for n_ in ast.walk(st_)) and
                   any(isinstance(n_, ast.Name) and (n_.id in preds or F.root(n_.id, st_) in pr_roots) for n_ in ast.walk(st_))]
            dep_on_pred = bool(hr.closure(F.deps(), {w.pred}) & (preds | pr_roots))
            if preds and w.pred not in pr_roots and (w.pred in F.params or fed or dep_on_pred or (pdef is not None and (au.names(pdef) & (preds | pr_roots)))):
                ctx.undecided(R, s, "the table walked by the back-tracking is derived from the predecessor table in a way the rule does not follow", "")
                continue
            if preds and w.pred not in pr_roots:
                ctx.fail(R, s, "back-tracking does not step with `v = predecessor[v]` on the table written by the relaxation",
                         "the table walked by the loop is not the predecessor table filled next to the labels")
                continue
            ctx.ok(R, s, "v = predecessor[v]")
            if w.problem:
                ctx.fail(R, s, "back-tracking does not record exactly one node per step", w.problem)
                continue
            origin = w.origin
            origin_is_sentinel = None
            if isinstance(origin, ast.Name):
                origin_is_sentinel = origin.id in sents or F.root(origin.id, lp) in sents
                if not origin_is_sentinel:
                    # a local constant-like name (None, len(..), a string ..) that is no parameter and no loop variable may be another spelling of the sink
                    r0_ = F.root(origin.id, lp)
                    d0_ = F.b.defs.get(r0_) if F.b.single(r0_) else None
                    if r0_ not in F.params and d0_ is not None and not isinstance(d0_, tuple) and \
                            (isinstance(d0_, ast.Constant) or (isinstance(d0_, ast.Call) and au.call_tail(d0_) in ("len", "object", "max"))
                             or isinstance(d0_, (ast.BinOp, ast.UnaryOp))):
                        origin_is_sentinel = None
            rec_first = w.has_origin and not w.has_start
            hf_walk.follow(F, w, start_names)
            if w.problem:
                ctx.fail(R, s, "back-tracking steps before recording but appends `start` a second time after the loop" if not rec_first
                         else "back-tracking records `start` twice", why + ": " + w.problem)
                continue
            if w.unknown:
                ctx.undecided(R, s, "what happens to the back-tracked list after the loop is not recognised", w.unknown)
                continue
            if w.final_use is None and not getattr(w, "reached_end", False) and not isinstance(w.lst, ast.Subscript):
                ctx.undecided(R, s, "where the back-tracked list ends up is not recognised", "")
                continue
            if origin_is_sentinel is None:
                ctx.undecided(R, s, "the node the back-tracking starts from is not recognised", "")
                continue
            ret_roots = set()
            for r_ in [st_ for st_ in au.stmts(F.fn.body) if isinstance(st_, ast.Return) and st_.value is not None]:
                for x_ in ([r_.value] if not isinstance(r_.value, ast.Tuple) else list(r_.value.elts)):
                    if isinstance(x_, ast.Name):
                        ret_roots.add(F.root(x_.id, r_))
            tab_ = None
            if getattr(w, "stored_in", None) is not None and isinstance(w.stored_in, ast.Subscript) and isinstance(w.stored_in.value, ast.Name):
                tab_ = F.root(w.stored_in.value.id, w.final_use)
            elif isinstance(w.lst, ast.Subscript) and isinstance(w.lst.value, ast.Name):
                tab_ = F.root(w.lst.value.id, lp)
            if tab_ is not None:
                outer_ = [a_ for a_ in au.ancestors(lp) if isinstance(a_, (ast.For, ast.While))]
                later_ = [c_ for c_ in au.calls(F.fn) if isinstance(c_.func, ast.Attribute) and c_.func.attr in INPLACE and isinstance(c_.func.value, ast.Subscript)
                          and isinstance(c_.func.value.value, ast.Name) and F.root(c_.func.value.value.id, c_) == tab_
                          and outer_ and F.before(outer_[-1], c_) and not F.inside(c_, outer_[-1])]
                later_ += [st_ for st_ in au.stmts(F.fn.body) if outer_ and F.before(outer_[-1], st_) and not F.inside(st_, outer_[-1])
                           and not isinstance(st_, ast.Return) and any(isinstance(n_, ast.Name) and F.root(n_.id, st_) == tab_ for n_ in ast.walk(st_))
                           and tab_ not in ret_roots]
                if later_ or (ret_roots and tab_ not in ret_roots and not (isinstance(w.lst, ast.Name) and not getattr(w, "stored_in", None))):
                    ctx.undecided(R, s, "the table that receives the back-tracked lists is processed further before the function returns", "")
                    continue
            if not w.has_start:
                ctx.fail(R, s, "back-tracking records the current node before stepping but does not append `start` exactly once after the loop", why)
                continue
            if origin_is_sentinel and w.has_origin:
                ctx.fail(R, s, "back-tracking records the current node before stepping but starts from the sentinel", why)
                continue
            if not origin_is_sentinel and not w.has_origin:
                ctx.fail(R, s, "back-tracking steps before recording but does not start from the virtual sink: the target itself is dropped from the path", why)
                continue
            ctx.ok(R, s, "target .. start recorded once each" if not origin_is_sentinel else "sink excluded, nearest target .. start recorded once each")
            later_rev = []
            if w.orient != "start-first":
                # a reversal somewhere after the walk that the model did not consume (a second loop over the result, a reversed copy ..)
                handled_ = getattr(w, "handled", [])
                for n_ in au.walk(F.fn):
                    rev_ = (isinstance(n_, ast.Call) and au.call_tail(n_) in ("reverse", "reversed", "flip")) or \
                        (isinstance(n_, ast.Slice) and n_.step is not None and au.const(n_.step) == -1)
                    if rev_:
                        st_ = au.enclosing_stmt(n_) if not isinstance(n_, ast.stmt) else n_
                        if st_ is None or F.inside(st_, lp) or not F.before(lp, st_):
                            continue
                        consumed = any(st_ is h_ for h_ in handled_) and (w.final_use is None or F.before(st_, w.final_use))
                        if not consumed:
                            later_rev.append(n_)
            if w.orient == "start-first":
                ctx.ok(R, s, "list ends in start-to-target order")
            elif later_rev:
                ctx.undecided(R, s, "the back-tracked list is stored before a later reversal the rule does not follow", "")
            else:
                ctx.fail(R, s, "back-tracked list is not reversed exactly once after the loop",
                         "nodes are collected from the target towards the start; the returned path must begin at `start`")


# ----------------------------------------------------------------------- C09-B2
INPLACE = ("append", "extend", "insert", "reverse", "sort", "pop", "remove", "clear")


def b2_fresh_paths(ctx):
    """an entry of the returned dictionary is never the object of another entry that is then changed in place"""
    fn0 = ctx.repo.func(PATHS, "shortest_path")
    F = _flat(ctx, PATHS, fn0)
    fn = F.fn
    site = ctx.site(PATHS, fn0)
    rets = [st for st in au.stmts(fn.body) if isinstance(st, ast.Return) and st.value is not None]
    D = set()
    for r in rets:
        v = r.value.elts[0] if isinstance(r.value, ast.Tuple) and r.value.elts else r.value
        if isinstance(v, ast.Name):
            D.add(F.root(v.id, r))
    if len(D) != 1:
        ctx.undecided("C09-B2", site, "the dictionary returned by shortest_path is not identified", "")
        return
    D = next(iter(D))

    def reads_entry(e):
        """e may evaluate to the very object stored under another key of D"""
        if isinstance(e, ast.Subscript) and isinstance(e.value, ast.Name) and F.root(e.value.id, e) == D and not isinstance(e.slice, ast.Slice):
            return True
        if isinstance(e, ast.IfExp):
            return reads_entry(e.body) or reads_entry(e.orelse)
        if isinstance(e, ast.BoolOp):
            return any(reads_entry(x) for x in e.values)
        if isinstance(e, ast.Call) and isinstance(e.func, ast.Attribute) and e.func.attr in ("get", "setdefault") \
                and isinstance(e.func.value, ast.Name) and F.root(e.func.value.id, e) == D:
            return True
        return False
    # an entry of D that may be the very list stored under ANOTHER key:  D[k] = D[j]  /  x = D[j] ... D[k] = x   (j is not k)
    shared_names = {}
    shared_entries = []

    def entry_key(e):
        """key expression when e reads an entry of D (possibly one branch of a conditional), else None"""
        if isinstance(e, ast.Subscript) and isinstance(e.value, ast.Name) and F.root(e.value.id, e) == D and not isinstance(e.slice, ast.Slice):
            return e.slice
        if isinstance(e, ast.IfExp):
            return entry_key(e.body) or entry_key(e.orelse)
        if isinstance(e, ast.BoolOp):
            for x in e.values:
                k_ = entry_key(x)
                if k_ is not None:
                    return k_
        if isinstance(e, ast.Call) and isinstance(e.func, ast.Attribute) and e.func.attr in ("get", "setdefault") \
                and isinstance(e.func.value, ast.Name) and F.root(e.func.value.id, e) == D and e.args:
            return e.args[0]
        return None
    name_keys = {}
    for st in au.stmts(fn.body):
        if isinstance(st, ast.Assign) and len(st.targets) == 1:
            t, v = st.targets[0], st.value
            if isinstance(t, ast.Name) and entry_key(v) is not None:
                name_keys[t.id] = (entry_key(v), st)
    for st in au.stmts(fn.body):
        if isinstance(st, ast.Assign) and len(st.targets) == 1:
            t, v = st.targets[0], st.value
            if isinstance(t, ast.Subscript) and isinstance(t.value, ast.Name) and F.root(t.value.id, st) == D:
                src_key = entry_key(v)
                via = None
                if src_key is None and isinstance(v, ast.Name) and v.id in name_keys:
                    # the binding of the name that reaches this store must be the read of the other entry (the name may have been re-bound to a copy)
                    try:
                        d__ = F.b.reaching(v.id, st)
                    except Exception:
                        d__ = None
                    if d__ is None or d__ is sym.Bindings.AMBIG or not isinstance(d__, ast.AST) or entry_key(d__) is not None:
                        src_key, via = name_keys[v.id][0], v.id
                def same_key(k1, at1, k2, at2):
                    if hr.same(k1, k2):
                        return True
                    # the same key through local copies (`v = t` ... paths[v]) : compared by the roots of the names where they are read
                    if isinstance(k1, ast.Name) and isinstance(k2, ast.Name):
                        return F.root(k1.id, at1) == F.root(k2.id, at2) or F.root(k1.id, at1) == k2.id or F.root(k2.id, at2) == k1.id
                    return False
                src_at = name_keys[via][1] if via else st
                if src_key is not None and not same_key(src_key, src_at, t.slice, st):
                    shared_entries.append((st, t))
                    if via:
                        shared_names[via] = name_keys[via][1]
    bad = []
    for st in au.stmts(fn.body):
        tgt = None
        if isinstance(st, ast.AugAssign):
            tgt = st.target
        elif isinstance(st, ast.Expr) and isinstance(st.value, ast.Call) and isinstance(st.value.func, ast.Attribute) and st.value.func.attr in INPLACE:
            tgt = st.value.func.value
        if tgt is None:
            continue
        if isinstance(tgt, ast.Name) and tgt.id in shared_names and F.before(shared_names[tgt.id], st):
            # the binding in force at the change: a name re-bound to a copy (`p = list(p)`) no longer denotes the stored entry
            binds_ = [(s2, v2) for s2 in au.stmts(fn.body) for n2, v2 in sym.split_assign(s2) if n2 == tgt.id and F.before(s2, st) and not F.inside(st, s2)]
            binds_.sort(key=lambda x: F.pos(x[0]))
            last_ = binds_[-1] if binds_ else None
            if last_ is not None and entry_key(last_[1]) is None and not isinstance(last_[1], ast.Name) and \
                    (not F.conds(last_[0]) or F.unconditional(last_[0], st)):
                continue
            bad.append(st)
        elif isinstance(tgt, ast.Subscript) and any(hr.same(tgt, t) and F.before(s_, st) for s_, t in shared_entries):
            bad.append(st)
    if bad:
        ctx.fail("C09-B2", ctx.site(PATHS, fn0, bad[0]), "the path stored for one target is the list object of another target, extended in place",
                 f"`{au.src(bad[0])[:60]}` changes a list that is also the value of another key of the returned dictionary: the path of the "
                 "earlier target silently grows up to the later target and no longer ends at its own target")
    else:
        ctx.ok("C09-B2", site, "every returned path is a list of its own")


# ----------------------------------------------------------------------- C09-R1 / R2
def r1_forwarding(ctx):
    repo = ctx.repo
    m = repo.module(PATHS)
    top = {q: f for q, f in m.funcs.items() if "." not in q}
    n = 0
    for q, fn in sorted(top.items()):
        for c in au.calls(fn, into_funcs=True):
            if not (isinstance(c.func, ast.Name) and c.func.id in top) or hf_flat.is_private(c.func.id):
                continue                # private helpers are inlined and analysed with their caller
            callee = top[c.func.id]
            ps = [a.arg for a in callee.args.posonlyargs + callee.args.args]
            if any(isinstance(a, ast.Starred) for a in c.args):
                continue
            n += 1
            bad = []
            for i, a in enumerate(c.args):
                if isinstance(a, ast.Name) and a.id in ps and i < len(ps) and ps[i] != a.id:
                    bad.append((a.id, ps[i]))
            for kw in c.keywords:
                if kw.arg and isinstance(kw.value, ast.Name) and kw.value.id in ps and kw.value.id != kw.arg:
                    bad.append((kw.value.id, kw.arg))
            too_many = len(c.args) > len(ps) and not callee.args.vararg
            # a swap: the variable that lands in parameter p comes from a name whose own parameter receives another parameter's name (a cycle);
            # a variable that merely shares its name with another parameter (`v` passed as `u` while `nv` is passed as `v`) is no evidence
            into = dict((p_, a_) for a_, p_ in bad)
            cyc = [(a_, p_) for a_, p_ in bad if a_ in into]
            if bad and not cyc and not too_many:
                ctx.undecided("C09-R1", ctx.site(PATHS, fn, c), f"call of {c.func.id} passes a variable named like another parameter of the callee", "")
                continue
            ctx.check(not bad and not too_many, "C09-R1", ctx.site(PATHS, fn, c),
                      f"call of {c.func.id} passes " + ", ".join(f"`{a}` into parameter `{p}`" for a, p in bad) if bad else
                      f"call of {c.func.id} passes too many arguments",
                      f"{c.func.id}{tuple(ps)} has a parameter of that name in another slot",
                      note=f"{c.func.id}: same-named variables land in their parameters")
    if n < 1:
        ctx.ok("C09-R1", ctx.site(PATHS, repo.func(PATHS, "shortest_path")), "no delegating call between the path functions")
    # ---- C09-R2: shared options are forwarded
    n2 = 0
    for q, fn in sorted(top.items()):
        mine = set(au.params(fn))
        for c in au.calls(fn, into_funcs=True):
            if not (isinstance(c.func, ast.Name) and c.func.id in top) or any(isinstance(a, ast.Starred) for a in c.args) \
                    or any(kw.arg is None for kw in c.keywords):
                continue
            callee = top[c.func.id]
            pos = callee.args.posonlyargs + callee.args.args
            ndef = len(callee.args.defaults)
            defaulted = [a.arg for a in pos[len(pos) - ndef:]] if ndef else []
            defaulted += [a.arg for a, d in zip(callee.args.kwonlyargs, callee.args.kw_defaults) if d is not None]
            shared = [p_ for p_ in defaulted if p_ in mine]
            if not shared:
                continue
            amap = sk.resolve_positional(c, callee) or {}
            missing = [p_ for p_ in shared if p_ not in amap]
            n2 += 1
            cond_names = set()
            alias_of = {}
            for st_ in au.stmts(fn.body):
                for nm_, v_ in sym.split_assign(st_):
                    src_names = au.names(v_) & mine
                    if src_names and (isinstance(v_, ast.Name) or (isinstance(v_, ast.Call) and au.call_tail(v_) == "bool") or isinstance(v_, (ast.UnaryOp, ast.Compare))):
                        alias_of[nm_] = src_names
            for e_, p_ in sk.atoms(sk.path_conds(c)):
                cond_names |= au.names(e_)
                for x_ in au.names(e_):
                    cond_names |= alias_of.get(x_, set())
            # the option is dealt with by the caller itself in the statements that follow the call (same block)
            cst_ = au.enclosing_stmt(c)
            blk_, _o = au.enclosing_block(cst_) if cst_ is not None else (None, None)
            after_ = blk_[sk.index_in(blk_, cst_) + 1:] if blk_ is not None else []
            used_elsewhere = {n_.id for st_ in after_ for n_ in ast.walk(st_) if isinstance(n_, ast.Name) and isinstance(n_.ctx, ast.Load) and n_.id in missing}
            # the call sits in a loop and the option is dealt with after that loop
            for lp_ in [a_ for a_ in au.ancestors(c) if isinstance(a_, (ast.For, ast.While))]:
                b2_, _o2 = au.enclosing_block(lp_)
                for st_ in (b2_[sk.index_in(b2_, lp_) + 1:] if b2_ is not None else []):
                    used_elsewhere |= {n_.id for n_ in ast.walk(st_) if isinstance(n_, ast.Name) and isinstance(n_.ctx, ast.Load) and n_.id in missing}
            if missing and all(m_ in cond_names or m_ in used_elsewhere for m_ in missing):
                ctx.undecided("C09-R2", ctx.site(PATHS, fn, c), f"{q} calls {c.func.id} on a branch that tests the option it does not forward", "")
                continue
            ctx.check(not missing, "C09-R2", ctx.site(PATHS, fn, c),
                      f"{q} calls {c.func.id} without forwarding its own option(s) {', '.join('`' + m_ + '`' for m_ in missing)}",
                      f"{c.func.id} then runs with its default for {', '.join(missing)} whatever the caller of {q} asked for "
                      "(e.g. weights='one' or a custom weight table is ignored on this branch and the returned path is shortest for the wrong weights)",
                      note=f"{q} -> {c.func.id}: shared options forwarded")
    if n2 < 1:
        ctx.ok("C09-R2", ctx.site(PATHS, repo.func(PATHS, "shortest_path")), "no delegating call shares a defaulted option")



# ----------------------------------------------------------------------- generic families (msa/rules/generic.py)
_run_specific = run


def run(ctx):
    _run_specific(ctx)
    from ..rules import generic
    generic.apply(ctx, "C09", stale_modules=('processing.paths',))


def _generic_rule_texts():
    from ..rules import generic
    return generic.rule_texts("C09", stale=True)


RULES.update(_generic_rule_texts())
