"""C09 - shortest paths are valid edge paths of minimum length (structural clauses).

Static only: every rule reads the `ast` of /repo/mouette/processing/paths.py, cutting.py (the two
Dijkstra siblings) and utils/priority_queue.py.  Nothing of mouette is imported or run.
"""
from __future__ import annotations
import ast
from fractions import Fraction
from .. import au, sym, order, flow
from ..core import AnalysisError
from ..rules import skel0910 as sk

PATHS = "processing.paths"
CUT = "processing.cutting"
PQ = "utils.priority_queue"

DIJKSTRA_SITES = [
    (PATHS, "shortest_path"),
    (PATHS, "shortest_path_to_vertex_set"),
    (CUT, "SingularityCutter._build_dual_tree_no_features"),
    (CUT, "SingularityCutter._build_dual_tree_with_features"),
]

EXPLANATION = (
    "Static conformance of the shortest-path code to the Dijkstra skeleton: arity agreement of the weight "
    "callables bound on sibling branches, confinement of the virtual-sink sentinel to the local dictionaries "
    "(flow-sensitive for its aliases), running-offset invariant of build_path decided piecewise-symbolically in "
    "len(path), the pop-min / visited / relaxation / push obligations applied uniformly to the four Dijkstra loops "
    "(2 in paths.py, 2 in cutting.py), agreement of the three weight modes on the edge they read, the heap "
    "contract of PriorityQueue, the predecessor back-tracking shape and positional forwarding between the path "
    "functions. Decides structural necessary conditions, not optimality of returned paths.")

RULES = {
    "C09-A1": "all callables bound to one local name on sibling branches (edge_length) accept the arity of every call of that name",
    "C09-E1": "the virtual sink sentinel (TARGET) only indexes dictionaries built locally; neither it nor an alias still holding it is "
              "passed to another function, stored in a list, or returned (accepted: key of a dict literal handed to a function that only reads .values())",
    "C09-F1": "build_path: the running offset equals the number of vertices already appended at the start of every path "
              "(advanced by exactly the number of vertices appended per path, for every path length) and edges join consecutive vertices of the block",
    "C09-D1": "Dijkstra loop runs while the PriorityQueue is not empty and takes the current node from PriorityQueue.get()/pop() (pop-min, removed)",
    "C09-D2": "popped node: `if visited[v]: continue`, then visited[v] = True unconditionally, before the neighbour loop; visited starts False",
    "C09-D3": "relaxation: candidate = label[v] + w(v, nv); update guarded by label[nv] > candidate (strict); label[nv] and predecessor[nv] "
              "are written in that block only, label with the candidate, predecessor with the expanded node / crossed edge",
    "C09-D4": "the neighbour is pushed with its updated label on every improving path (guarded at most by `not visited[nv]`); "
              "labels start at +inf, label[start] is finite and start is pushed before the loop",
    "C09-W1": "the three weight modes read the weight of the edge being relaxed: both endpoints reach the weight, the custom mode is "
              "indexed by edge_id(u, v) or by the enumeration index of the edge, never by a vertex; adjacency weights are stored symmetrically",
    "C09-Q1": "PriorityQueue: get = heappop(self.data), pop delegates to it, push = heappush(self.data, PriorityItem(x, w)) with payload/priority "
              "in field order, items are ordered by `priority` with <, empty() == (len == 0), self.data is touched by nothing else",
    "C09-B1": "back-tracking walks the predecessor table written by the relaxation from the target until `start`, records every node once "
              "including both ends (the sentinel excluded) and reverses the list",
    "C09-R1": "a variable passed positionally to a function of paths.py lands in the parameter of the same name when the callee has one",
    "C09-R2": "a path function that delegates to another path function forwards every option it shares with the delegate (a parameter of the "
              "caller that the callee also has, with a default, is passed explicitly, positionally or by keyword): the callee's default never "
              "silently replaces the caller's choice (weights, export_path_mesh)",
}

ASSUMPTIONS = [
    "non-negative edge weights (quantifier of C09); heapq semantics of CPython",
]


def run(ctx):
    a1_arity(ctx)
    e1_sentinel(ctx)
    f1_build_path(ctx)
    item = q1_priority_queue(ctx)
    n = 0
    for modname, qual in DIJKSTRA_SITES:
        fn = ctx.repo.func(modname, qual)
        n += dijkstra(ctx, modname, fn, item)
    # no other Dijkstra loop may hide in the two modules
    for modname in (PATHS, CUT):
        m = ctx.repo.module(modname)
        for q, fn in m.funcs.items():
            if (modname, q) in DIJKSTRA_SITES:
                continue
            if pq_names(fn):
                dijkstra(ctx, modname, fn, item)
    w1_weight_modes(ctx)
    b1_backtracking(ctx)
    r1_forwarding(ctx)


# ----------------------------------------------------------------------- C09-A1
def a1_arity(ctx):
    m = ctx.repo.module(PATHS)
    ctx.repo.func(PATHS, "shortest_path")
    n = names = 0
    for q, fn in sorted(m.funcs.items()):
        if ".<locals>." in q:
            continue
        k, nm = sk.arity_agreement(ctx, "C09-A1", PATHS, fn)
        n += k
        names += nm
    if n < 1:
        ctx.fail("C09-A1", ctx.site(PATHS, ctx.repo.func(PATHS, "shortest_path")), "edge weight callables of shortest_path not found",
                 "the weight mode must select a callable (lambda / local def) applied to the two endpoints of the relaxed edge")


# ----------------------------------------------------------------------- C09-E1
DICT_METHODS = {"get", "pop", "setdefault", "keys", "values", "items", "__contains__", "__getitem__", "__setitem__"}


def _is_dict_ctor(e):
    return isinstance(e, (ast.Dict, ast.DictComp)) or \
        (isinstance(e, ast.Call) and au.call_tail(e) in ("dict", "defaultdict", "OrderedDict"))


def _root(e):
    while isinstance(e, (ast.Subscript, ast.Attribute)):
        e = e.value
    return e


def e1_sentinel(ctx):
    repo = ctx.repo
    fn = repo.func(PATHS, "shortest_path_to_vertex_set")
    site = ctx.site(PATHS, fn)
    b = sym.Bindings(fn)
    params = set(au.params(fn))
    cands = []
    for name, v in b.defs.items():
        c = au.const(v)
        if b.single(name) and isinstance(c, int) and not isinstance(c, bool) and c < 0 and name not in params:
            if any(isinstance(n, ast.Subscript) and isinstance(n.slice, ast.Name) and n.slice.id == name for n in au.walk(fn)):
                cands.append(name)
    if len(cands) != 1:
        ctx.fail("C09-E1", site, "virtual sink sentinel not found",
                 f"{len(cands)} local name(s) bound once to a negative integer literal and used as a dictionary key; "
                 "the virtual sink of the vertex-set query cannot be identified")
        return
    S = cands[0]
    aliases = {t.id for st in au.stmts(fn.body) if isinstance(st, ast.Assign) and isinstance(st.value, ast.Name)
               and st.value.id == S for t in st.targets if isinstance(t, ast.Name)}
    universe = frozenset(aliases)
    escapes = {}      # id(node) -> (node, kind)
    goods = {}

    def local_dict_at(name_node, at):
        if not isinstance(name_node, ast.Name) or name_node.id in params:
            return False
        d = b.reaching(name_node.id, at)
        return d is not None and _is_dict_ctor(d)

    def values_only(callee, pname):
        """the callee never looks at the keys of its dict parameter: it is only used as `p.values()`, `len(p)`,
        or `for k, x in p.items()` with `k` never read."""
        uses = [n for n in au.walk(callee) if isinstance(n, ast.Name) and n.id == pname and isinstance(n.ctx, ast.Load)]
        for u in uses:
            p = au.parent(u)
            if isinstance(p, ast.Call) and au.call_tail(p) == "len" and p.args and p.args[0] is u:
                continue
            if isinstance(p, ast.Attribute) and isinstance(au.parent(p), ast.Call) and au.parent(p).func is p:
                if p.attr == "values":
                    continue
                lp = au.parent(au.parent(p))
                if p.attr == "items" and isinstance(lp, ast.For) and lp.iter is au.parent(p) and isinstance(lp.target, ast.Tuple) \
                        and len(lp.target.elts) == 2 and isinstance(lp.target.elts[0], ast.Name):
                    key = lp.target.elts[0].id
                    if not any(isinstance(x, ast.Name) and x.id == key and isinstance(x.ctx, ast.Load) for x in au.walk(callee)):
                        continue
            return False
        return True

    def classify(n, via):
        """n: a Name node that holds the sentinel at this point."""
        p = au.parent(n)
        if isinstance(p, ast.Subscript) and p.slice is n:
            r = _root(p.value)
            if local_dict_at(r, n):
                return None
            return "indexes a container that is not a dictionary built in this function"
        if isinstance(p, ast.Compare):
            return None
        if isinstance(p, ast.Assign) and p.value is n and all(isinstance(t, ast.Name) for t in p.targets):
            return None
        if isinstance(p, ast.Dict) and any(k is n for k in p.keys):
            c = au.parent(p)
            if isinstance(c, ast.Call) and isinstance(c.func, ast.Name) and any(a is p for a in c.args):
                r = repo.resolve_func(PATHS, c.func.id)
                if r and r[1] is not None:
                    callee = r[1]
                    ps = [a.arg for a in callee.args.posonlyargs + callee.args.args]
                    i = [id(a) for a in c.args].index(id(p))
                    if i < len(ps) and values_only(callee, ps[i]):
                        return None
                return f"is a key of a dictionary handed to {c.func.id}(...), which does not only read .values()"
            return "is a key of a dictionary that leaves the local tables"
        if isinstance(p, ast.Call) and (any(a is n for a in p.args)):
            f = p.func
            if isinstance(f, ast.Attribute) and f.attr in DICT_METHODS and local_dict_at(_root(f.value), n):
                return None
            return f"is passed as an argument to {au.call_name(p) or au.src(p.func)}(...)"
        if isinstance(p, ast.keyword) and isinstance(au.parent(p), ast.Call):
            return f"is passed as an argument to {au.call_name(au.parent(p)) or '<call>'}(...)"
        if isinstance(p, ast.Return) or (isinstance(p, (ast.Tuple, ast.List)) and isinstance(au.parent(p), ast.Return)):
            return "is returned to the caller"
        if isinstance(p, (ast.Tuple, ast.List)) and isinstance(au.parent(p), ast.Assign) and au.parent(p).value is p:
            return None  # parallel assignment source: handled as alias-free (declared below)
        return f"is used in `{au.src(au.enclosing_stmt(n))[:60]}`, outside the accepted sentinel idioms"

    def scan(state, node):
        for n in au.walk(node):
            if isinstance(n, ast.Name) and isinstance(n.ctx, ast.Load):
                via = None
                if n.id == S:
                    pass
                elif n.id in universe and n.id not in state:
                    via = n.id
                else:
                    continue
                k = classify(n, via)
                if k is None:
                    goods[id(n)] = n
                else:
                    escapes[id(n)] = (n, k)

    def t_stmt(state, st):
        if isinstance(st, flow._ForHead):
            scan(state, st.iter)
            return state | {x for x in au.assigned_names(st.target) if x in universe}
        scan(state, st)
        if isinstance(st, ast.Assign):
            pairs = dict(sym.split_assign(st))
            for t in st.targets:
                for nm in au.assigned_names(t):
                    if nm not in universe:
                        continue
                    v = pairs.get(nm)
                    tainted = isinstance(v, ast.Name) and (v.id == S or (v.id in universe and v.id not in state))
                    state = (state - {nm}) if tainted else (state | {nm})
        elif isinstance(st, (ast.AugAssign, ast.AnnAssign)):
            for nm in au.assigned_names(st.target):
                if nm in universe:
                    state = state | {nm}
        return state

    def t_test(state, e):
        scan(state, e)
        return state

    fl = flow.Flow(t_stmt, t_test)
    fl.run(fn.body, universe)
    # uses of the sentinel inside nested lambdas/defs are not expected; count them as unsupported if present
    n_uses = len(goods) + len(escapes)
    for n in goods.values():
        ctx.ok("C09-E1", ctx.site(PATHS, fn, n), f"{S} used as key of a local dictionary / in a comparison")
    if escapes:
        kinds = sorted({k for _, k in escapes.values()})
        first = min((n for n, _ in escapes.values()), key=lambda n: (n.lineno, n.col_offset))
        s2 = ctx.site(PATHS, fn, first)
        branch = sorted({("" if p else "not ") + au.src(e) for nn, _ in escapes.values() for e, p in au.guards(nn)[-1:]})
        ctx.fail("C09-E1", s2, f"sentinel {S} escapes the local dictionaries: it " + "; ".join(kinds),
                 f"{S} = {au.src(b.defs[S])} is the virtual sink, not a vertex of the mesh: the callee / caller receives "
                 f"{au.src(b.defs[S])} as a vertex index (KeyError or a wrong vertex) whenever the branch `{', '.join(branch)}` is taken",
                 escapes=[f"{n.lineno}: {k}" for n, k in escapes.values()])


# ----------------------------------------------------------------------- C09-F1 (R-OFFSET, piecewise symbolic in L = len(path))
class Unsup(Exception):
    pass


class _Region:
    """L == c (point) or L >= m (tail)."""

    def __init__(self, point=None, tail=None):
        self.point, self.tail = point, tail

    def L(self):
        return sym.Poly.const(self.point) if self.point is not None else sym.Poly.atom("L")

    def __str__(self):
        return f"len(path) == {self.point}" if self.point is not None else f"len(path) >= {self.tail}"

    def sign(self, p: sym.Poly, lower=None):
        """sign of polynomial p (in L and loop variables with lower bounds) over the region: -1, 0, +1 or None.
        `lower`: atom -> Poly lower bound (loop variables)."""
        lower = dict(lower or {})
        # substitute i = lo + t (t >= 0), L = m + s (s >= 0): all coefficients of one sign => decided
        q = sym.Poly()
        for mono, coef in p.t.items():
            term = sym.Poly.const(coef)
            for a in mono:
                if a == "L":
                    term = term * (sym.Poly.const(self.tail) + sym.Poly.atom("s_L") if self.point is None else sym.Poly.const(self.point))
                elif a in lower:
                    lo = lower[a]
                    # lower bound itself may mention L
                    lo2 = sym.Poly()
                    for m2, c2 in lo.t.items():
                        t2 = sym.Poly.const(c2)
                        for a2 in m2:
                            if a2 == "L":
                                t2 = t2 * (sym.Poly.const(self.tail) + sym.Poly.atom("s_L") if self.point is None else sym.Poly.const(self.point))
                            else:
                                raise Unsup(f"bound mentions {a2}")
                        lo2 = lo2 + t2
                    term = term * (lo2 + sym.Poly.atom("t_" + a))
                else:
                    raise Unsup(f"free symbol {a}")
            q = q + term
        if q.is_zero():
            return 0
        vals = list(q.t.values())
        if all(v > 0 for v in vals):
            # all slack variables >= 0: q >= const term; positive if const term > 0
            return 1 if q.t.get((), 0) > 0 else None
        if all(v < 0 for v in vals):
            return -1 if q.t.get((), 0) < 0 else None
        if q.is_const():
            c = q.const_value()
            return 0 if c == 0 else (1 if c > 0 else -1)
        # mixed: e.g. s_L + 0 with no constant => >= 0 but not strict
        return None

    def nonneg(self, p, lower=None):
        s = self.sign(p, lower)
        if s is not None:
            return s >= 0
        s1 = self.sign(p + 1, lower)
        if s1 == 1:
            return True
        return None


def f1_build_path(ctx):
    fn = ctx.repo.func(PATHS, "build_path")
    site = ctx.site(PATHS, fn)
    b = sym.Bindings(fn)

    def is_append(c, field):
        return (isinstance(c, ast.Call) and au.call_tail(c) == "append" and isinstance(c.func, ast.Attribute)
                and isinstance(c.func.value, ast.Attribute) and c.func.value.attr == field and len(c.args) == 1)

    outer = None
    for st in fn.body:
        if isinstance(st, ast.For) and any(is_append(c, "vertices") for c in au.calls(st)) \
                and any(is_append(c, "edges") for c in au.calls(st)):
            outer = st
    ltarget = outer.target if outer is not None else None
    if isinstance(ltarget, ast.Tuple) and len(ltarget.elts) == 2 and isinstance(outer.iter, ast.Call) \
            and au.call_tail(outer.iter) == "items":
        ltarget = ltarget.elts[1]
    if outer is None or not isinstance(ltarget, ast.Name):
        ctx.fail("C09-F1", site, "path loop of build_path not found",
                 "no top-level `for l in ...` loop appending to both .vertices and .edges of the path mesh")
        return
    lname = ltarget.id
    recv = {au.src(c.func.value.value) for c in au.calls(outer) if is_append(c, "vertices") or is_append(c, "edges")}
    if len(recv) != 1:
        ctx.fail("C09-F1", site, "vertices and edges of build_path are appended to different meshes", str(sorted(recv)))
        return
    mesh_out = recv.pop()
    # offset variable: a name of the edge index expressions that is not a loop variable of the nest and not the path
    loopvars = {n for st in au.stmts(outer.body) if isinstance(st, ast.For) for n in au.assigned_names(st.target)}
    edge_calls = [c for c in au.calls(outer) if is_append(c, "edges")]
    offs = set()
    for c in edge_calls:
        t = c.args[0]
        if not (isinstance(t, (ast.Tuple, ast.List)) and len(t.elts) == 2):
            ctx.fail("C09-F1", site, "edge emitted by build_path is not a literal pair of indices", au.src(t))
            return
        for e in t.elts:
            offs |= {n for n in au.names(e) if n not in loopvars and n != lname}
    offs = {o for o in offs if o in b.count}
    if len(offs) != 1:
        ctx.fail("C09-F1", site, "running offset of build_path not found",
                 f"edge indices must be `offset + position in the path`; names found besides the loop variables: {sorted(offs)}")
        return
    K = offs.pop()

    def len_of_path(e):
        return isinstance(e, ast.Call) and au.call_tail(e) == "len" and len(e.args) == 1 and \
            isinstance(e.args[0], ast.Name) and e.args[0].id == lname

    def len_of_out(e):
        return isinstance(e, ast.Call) and au.call_tail(e) == "len" and len(e.args) == 1 and \
            au.src(e.args[0]) == mesh_out + ".vertices"

    thresholds = {0}
    for n in au.walk(outer):
        if isinstance(n, ast.Compare) and any(len_of_path(x) for x in [n.left] + n.comparators):
            for x in [n.left] + n.comparators:
                c = order.fold_const(x)
                if c is not None and float(c).is_integer():
                    thresholds.add(int(c))
        if isinstance(n, ast.Call) and au.call_tail(n) == "range":
            for x in n.args:
                c = order.fold_const(x)
                if c is not None and float(c).is_integer():
                    thresholds.add(int(c))
    top = max(thresholds) + 1
    regions = [_Region(point=c) for c in range(0, top + 1)] + [_Region(tail=top + 1)]

    problems = []   # (kind, text)
    facts = []

    def run_region(R):
        L = R.L()
        st = {"nv": sym.Poly(), "k": sym.Poly(), "fresh": False, "verts": [], "edges": [], "lower": {}, "env": {}}

        def ev(e, env):
            def atom_of(x):
                if len_of_path(x):
                    return L
                if len_of_out(x):
                    return sym.Poly.atom("N0") + st["nv"]
                if isinstance(x, ast.Name):
                    if x.id in env:
                        return env[x.id]
                    if x.id == K:
                        return sym.Poly.atom("N0") + st["k"]
                    d = b.reaching(x.id, x) if au.parent(x) is not None else None
                    if d is not None:
                        return ev(d, env)
                    raise Unsup(f"name {x.id}")
                if isinstance(x, (ast.Call, ast.Subscript, ast.Attribute)):
                    raise Unsup(au.src(x))
                return None
            return sym.to_poly(e, atom_of=atom_of, opaque=False)

        def decide(test, env):
            def av(x):
                if isinstance(x, ast.Compare) and len(x.ops) == 1:
                    d = ev(x.left, env) - ev(x.comparators[0], env)
                    d = sym.Poly({k_: v for k_, v in d.t.items()})
                    if "N0" in d.atoms():
                        raise Unsup("comparison on the absolute offset")
                    s = R.sign(d, st["lower"])
                    op = x.ops[0]
                    if s is None:
                        # maybe non-strict information suffices
                        nn = R.nonneg(d, st["lower"])
                        np_ = R.nonneg(-d, st["lower"])
                        if isinstance(op, ast.GtE) and nn: return True
                        if isinstance(op, ast.Lt) and nn: return False
                        if isinstance(op, ast.LtE) and np_: return True
                        if isinstance(op, ast.Gt) and np_: return False
                        raise Unsup(f"`{au.src(x)}` is not decided by {R}")
                    return {ast.Gt: s > 0, ast.GtE: s >= 0, ast.Lt: s < 0, ast.LtE: s <= 0,
                            ast.Eq: s == 0, ast.NotEq: s != 0}.get(type(op), None)
                if len_of_path(x):       # truthiness of len(l)
                    s = R.sign(L)
                    return None if s is None else s != 0
                if isinstance(x, ast.Name) and x.id == lname:   # truthiness of the list
                    s = R.sign(L)
                    return None if s is None else s != 0
                return None
            v = sk.truth_eval(test, av)
            if v is None:
                raise Unsup(f"condition `{au.src(test)}`")
            return v

        def lindex(arg, env_l):
            """l-index of the vertex appended: arg resolves to X.vertices[l[idx]] or X.vertices[x] with x bound to l[idx]."""
            a = arg
            if isinstance(a, ast.Name):
                d = b.reaching(a.id, a)
                if d is not None:
                    a = d
            if isinstance(a, ast.Subscript) and isinstance(a.value, ast.Attribute) and a.value.attr == "vertices":
                i = a.slice
                if isinstance(i, ast.Name) and i.id in env_l:
                    return env_l[i.id]
                if isinstance(i, ast.Name):
                    d = b.reaching(i.id, i)
                    if d is not None:
                        i = d
                if isinstance(i, ast.Subscript) and isinstance(i.value, ast.Name) and i.value.id == lname:
                    return ("idx", i.slice)
            return None

        def block(body, env, env_l, inner, mult):
            """returns False if a `continue` ended the iteration"""
            for s in body:
                if isinstance(s, ast.If) and inner and not s.orelse and _only_edge_appends(s.body) \
                        and _bound_on(s.test, inner["iv"]) is not None:
                    # `if i > c: edges.append(...)` inside the inner loop: a restriction of the index range of the edges
                    op, rhs = _bound_on(s.test, inner["iv"])
                    c = ev(rhs, {k_: v_ for k_, v_ in env.items() if k_ != inner["iv"]})
                    sub_ = dict(inner)
                    if isinstance(op, (ast.Gt, ast.GtE, ast.NotEq)):
                        new_lo = c + 1 if isinstance(op, (ast.Gt, ast.NotEq)) else c
                        if isinstance(op, ast.NotEq) and not (c - inner["lo"]).is_zero():
                            raise Unsup(f"`{au.src(s.test)}` inside the inner loop")
                        ge = R.nonneg(new_lo - inner["lo"])
                        if ge is None:
                            raise Unsup(f"`{au.src(s.test)}` undecided on {R}")
                        sub_["lo"] = new_lo if ge else inner["lo"]
                    else:
                        new_hi = c if isinstance(op, ast.Lt) else c + 1
                        le = R.nonneg(inner["hi"] - new_hi)
                        if le is None:
                            raise Unsup(f"`{au.src(s.test)}` undecided on {R}")
                        sub_["hi"] = new_hi if le else inner["hi"]
                    if R.nonneg(sub_["hi"] - sub_["lo"] - 1) is not True:
                        nn_ = R.nonneg(sub_["lo"] - sub_["hi"])
                        if nn_ is True:
                            continue      # empty range on this region: no edge emitted
                        raise Unsup(f"range of `{au.src(s.test)}` undecided on {R}")
                    n0 = len(st["edges"])
                    block(s.body, env, env_l, inner, mult)
                    for rec in st["edges"][n0:]:
                        rec["loop"] = sub_
                elif isinstance(s, ast.If):
                    br = s.body if decide(s.test, env) else s.orelse
                    if block(br, env, env_l, inner, mult) is False:
                        return False
                elif isinstance(s, ast.Continue):
                    if inner:
                        raise Unsup("continue inside the inner loop")
                    return False
                elif isinstance(s, ast.For):
                    if inner:
                        raise Unsup("loop nest deeper than two")
                    it = s.iter
                    env2, envl2 = dict(env), dict(env_l)
                    if isinstance(it, ast.Call) and au.call_tail(it) == "range" and 1 <= len(it.args) <= 2 \
                            and isinstance(s.target, ast.Name):
                        lo = ev(it.args[0], env) if len(it.args) == 2 else sym.Poly()
                        hi = ev(it.args[-1], env)
                        iv = s.target.id
                    elif isinstance(it, ast.Call) and au.call_tail(it) == "enumerate" and len(it.args) == 1 \
                            and isinstance(it.args[0], ast.Name) and it.args[0].id == lname \
                            and isinstance(s.target, ast.Tuple) and len(s.target.elts) == 2 \
                            and all(isinstance(x, ast.Name) for x in s.target.elts):
                        lo, hi = sym.Poly(), L
                        iv = s.target.elts[0].id
                        envl2[s.target.elts[1].id] = ("poly", sym.Poly.atom(iv))
                    elif isinstance(it, ast.Name) and it.id == lname and isinstance(s.target, ast.Name):
                        lo, hi = sym.Poly(), L
                        iv = "#" + s.target.id
                        envl2[s.target.id] = ("poly", sym.Poly.atom(iv))
                    else:
                        raise Unsup(f"loop over `{au.src(it)}`")
                    trip = hi - lo
                    nn = R.nonneg(trip)
                    if nn is None:
                        raise Unsup(f"trip count {trip} undecided on {R}")
                    if not nn or trip.is_zero():
                        continue
                    if R.sign(trip) != 1:
                        # could be zero somewhere in the region
                        raise Unsup(f"trip count {trip} may vanish on {R}")
                    env2[iv] = sym.Poly.atom(iv)
                    st["lower"][iv] = lo
                    nv0 = st["nv"]
                    st["nv"] = sym.Poly()      # count per iteration
                    per = {"base": nv0, "lo": lo, "hi": hi, "iv": iv}
                    n_before_v, n_before_e = len(st["verts"]), len(st["edges"])
                    block(s.body, env2, envl2, per, mult)
                    c_it = st["nv"]
                    if not c_it.is_const():
                        raise Unsup("number of vertices per inner iteration is not constant")
                    # positions of the vertices appended in this loop: base + (i - lo) * c + j
                    for rec in st["verts"][n_before_v:]:
                        rec["pos"] = nv0 + (sym.Poly.atom(iv) - lo) * c_it + rec["pos"]
                        rec["loop"] = per
                    for rec in st["edges"][n_before_e:]:
                        if rec["loop"] is None:
                            rec["loop"] = per
                    st["nv"] = nv0 + trip * c_it
                    del st["lower"][iv]
                elif isinstance(s, ast.Expr) and isinstance(s.value, ast.Call) and is_append(s.value, "vertices"):
                    li = lindex(s.value.args[0], env_l)
                    if li is not None and li[0] == "idx":
                        try:
                            li = ("poly", ev(li[1], env))
                        except Unsup:
                            li = None
                    st["verts"].append({"pos": st["nv"], "lidx": li[1] if li else None, "node": s, "loop": None})
                    st["nv"] = st["nv"] + 1
                elif isinstance(s, ast.Expr) and isinstance(s.value, ast.Call) and is_append(s.value, "edges"):
                    t = s.value.args[0]
                    a_, b_ = (ev(x, env) - sym.Poly.atom("N0") for x in t.elts)
                    st["edges"].append({"a": a_, "b": b_, "node": s, "loop": None})
                elif isinstance(s, (ast.AugAssign, ast.Assign)) and K in [n for t in au.assign_targets(s) for n in au.assigned_names(t)]:
                    if inner:
                        raise Unsup(f"offset {K} is updated inside the inner loop")
                    if isinstance(s, ast.AugAssign):
                        if not isinstance(s.op, (ast.Add, ast.Sub)) or not isinstance(s.target, ast.Name):
                            raise Unsup(au.src(s))
                        d = ev(s.value, env)
                        st["k"] = st["k"] + d if isinstance(s.op, ast.Add) else st["k"] - d
                    else:
                        if len(s.targets) != 1 or not isinstance(s.targets[0], ast.Name):
                            raise Unsup(au.src(s))
                        v = ev(s.value, env) - sym.Poly.atom("N0")
                        if "N0" in v.atoms():
                            raise Unsup(au.src(s))
                        st["k"] = v
                        if len_of_out(s.value):
                            st["fresh"] = True
                elif isinstance(s, (ast.Assign, ast.AnnAssign, ast.Pass)) or \
                        (isinstance(s, ast.Expr) and isinstance(s.value, ast.Constant)):
                    # a plain local binding: looked through by `reaching` when it is used
                    tg = [n for t in au.assign_targets(s) for n in au.assigned_names(t)]
                    if not tg and not isinstance(s, ast.Pass) and not isinstance(s, ast.Expr):
                        raise Unsup(au.src(s))
                else:
                    raise Unsup(f"statement `{au.src(s)[:50]}`")
            return True

        block(outer.body, {}, {}, None, 1)
        return st

    n_regions = 0
    for R in regions:
        try:
            st = run_region(R)
        except (Unsup, sym.NotPoly) as ex:
            ctx.fail("C09-F1", site, "build_path loop nest not recognised",
                     f"the vertex/edge emission of build_path could not be summarised for {R}: {ex}")
            return
        n_regions += 1
        nv, k = st["nv"], st["k"]
        # (a) invariant offset == number of vertices appended so far
        if not (nv - k).is_zero():
            problems.append(("advance", f"for {R} a path appends {nv} vertices but `{K}` advances by {k}"))
        # (b) layout: vertex at block position p is l[p]; edges join positions (j-1, j), j = 1..nv-1
        layout_known = all(v["lidx"] is not None for v in st["verts"])
        if layout_known:
            for v in st["verts"]:
                if not (v["pos"] - v["lidx"]).is_zero():
                    problems.append(("layout", f"for {R} the vertex appended at block position {v['pos']} is path[{v['lidx']}]"))
        if not st["edges"]:
            s = R.sign(nv - 2)
            if s is None or s >= 0:
                problems.append(("edges", f"for {R} no edge is emitted although the path has {nv} vertices"))
        for e in st["edges"]:
            lp = e["loop"]
            d = e["b"] - e["a"]
            if not (d.is_const() and abs(d.const_value()) == 1):
                problems.append(("edges", f"for {R} an edge joins block positions {e['a']} and {e['b']} (not consecutive)"))
                continue
            hi_pos = e["b"] if d.const_value() == 1 else e["a"]
            if lp is None:
                first = last = hi_pos
            else:
                iv = sym.Poly.atom(lp["iv"])
                if not (hi_pos - iv).is_const() and not ((hi_pos - iv).atoms() <= {"L"}):
                    problems.append(("edges", f"for {R} edge index {hi_pos} is not `offset + loop index + constant`"))
                    continue
                shift = hi_pos - iv
                first, last = lp["lo"] + shift, lp["hi"] - 1 + shift
            if len(st["edges"]) == 1:
                if not (first - 1).is_zero() or not (last - (nv - 1)).is_zero():
                    problems.append(("edges", f"for {R} edges end at block positions {first}..{last}, "
                                              f"the block holds positions 0..{nv - 1}"))
        facts.append(f"{R}: {nv} vertices, offset += {k}")
    # initial value of the offset
    fresh_all = False
    first_in_body = outer.body[0] if outer.body else None
    if isinstance(first_in_body, ast.Assign) and len(first_in_body.targets) == 1 and isinstance(first_in_body.targets[0], ast.Name) \
            and first_in_body.targets[0].id == K and len_of_out(first_in_body.value):
        fresh_all = True
    init_ok = fresh_all
    if not fresh_all:
        d = b.reaching(K, outer)
        ctor = b.reaching(mesh_out, outer) if mesh_out.isidentifier() else None
        pre_appends = [c for s in fn.body if s is not outer and before(s, outer) for c in au.calls(s) if is_append(c, "vertices")]
        if d is not None and len_of_out(d):
            init_ok = True
        elif d is not None and au.const(d) == 0 and isinstance(ctor, ast.Call) and not ctor.args and not ctor.keywords and not pre_appends:
            init_ok = True
    ctx.check(init_ok, "C09-F1", site, f"offset `{K}` of build_path does not start at the number of vertices already in the path mesh",
              "the first path must index its own vertices", note=f"offset {K} starts at the size of the (empty) path mesh")
    adv = [p for p in problems if p[0] == "advance"]
    if fresh_all:
        adv = []
    ctx.check(not adv, "C09-F1", site,
              f"offset `{K}` of build_path is not advanced by the number of vertices appended per path",
              "with two or more paths (several targets, export_path_mesh=True) the edges of every path after the first index "
              "the vertices of the first path: " + "; ".join(t for _, t in adv),
              note="; ".join(facts))
    other = [p for p in problems if p[0] != "advance"]
    ctx.check(not other, "C09-F1", site,
              "edges of build_path do not join consecutive vertices of the path block",
              "; ".join(sorted({t for _, t in other})), note=f"{n_regions} length regions: edges join block positions (j-1, j), j = 1..len-1")


def before(a, b):
    return (a.lineno, a.col_offset) < (b.lineno, b.col_offset)


def _only_edge_appends(body):
    return bool(body) and all(isinstance(s, ast.Expr) and isinstance(s.value, ast.Call) and au.call_tail(s.value) == "append"
                              and isinstance(s.value.func, ast.Attribute) and isinstance(s.value.func.value, ast.Attribute)
                              and s.value.func.value.attr == "edges" for s in body)


def _bound_on(test, iv):
    """(op, rhs) if test is `iv <op> rhs` (or mirrored) with op an order comparison / !=."""
    if not (isinstance(test, ast.Compare) and len(test.ops) == 1):
        return None
    l, r, op = test.left, test.comparators[0], test.ops[0]
    mirror = {ast.Gt: ast.Lt, ast.Lt: ast.Gt, ast.GtE: ast.LtE, ast.LtE: ast.GtE, ast.NotEq: ast.NotEq}
    if type(op) not in mirror:
        return None
    if isinstance(l, ast.Name) and l.id == iv and iv not in au.names(r):
        return op, r
    if isinstance(r, ast.Name) and r.id == iv and iv not in au.names(l):
        return mirror[type(op)](), l
    return None


# ----------------------------------------------------------------------- C09-Q1
def q1_priority_queue(ctx):
    repo = ctx.repo
    cls = repo.cls(PQ, "PriorityQueue")
    item = repo.cls(PQ, "PriorityItem")
    fields = [st.target.id for st in item.body if isinstance(st, ast.AnnAssign) and isinstance(st.target, ast.Name)]
    info = {"payload": None, "priority": None}
    # __lt__
    lt = repo.func(PQ, "PriorityItem.__lt__")
    site = ctx.site(PQ, lt)
    ps = au.params(lt)
    rets = [s for s in au.stmts(lt.body) if isinstance(s, ast.Return)]
    ok = False
    pr = None
    if len(rets) == 1 and len(ps) == 2 and isinstance(rets[0].value, ast.Compare) and len(rets[0].value.ops) == 1:
        c = rets[0].value
        l, r = c.left, c.comparators[0]
        if isinstance(l, ast.Attribute) and isinstance(r, ast.Attribute) and l.attr == r.attr and l.attr in fields \
                and isinstance(l.value, ast.Name) and isinstance(r.value, ast.Name):
            pr = l.attr
            ok = (isinstance(c.ops[0], ast.Lt) and (l.value.id, r.value.id) == (ps[0], ps[1])) or \
                 (isinstance(c.ops[0], ast.Gt) and (l.value.id, r.value.id) == (ps[1], ps[0]))
    ctx.check(ok, "C09-Q1", site, "PriorityItem.__lt__ is not `self.priority < other.priority`",
              "heapq orders items with <; any other order makes get() return a non-minimal item and Dijkstra settles vertices too early",
              note="items ordered by priority with <")
    info["priority"] = pr
    rest = [f for f in fields if f != pr]
    info["payload"] = rest[0] if len(rest) == 1 else None
    if pr is None or info["payload"] is None:
        ctx.fail("C09-Q1", ctx.site(PQ, item), "PriorityItem is not a (payload, priority) record", f"fields: {fields}")
        return info
    # get
    g = repo.func(PQ, "PriorityQueue.get")

    def is_heap_call(e, tail, nargs):
        return isinstance(e, ast.Call) and au.call_tail(e) == tail and len(e.args) == nargs and au.is_self_attr(e.args[0], "data")

    def single_return(fn):
        r = [s for s in au.stmts(fn.body) if isinstance(s, ast.Return)]
        return sym.Bindings(fn).resolve(r[0].value, at=r[0]) if len(r) == 1 and r[0].value is not None else None
    rv = single_return(g)
    ctx.check(rv is not None and is_heap_call(rv, "heappop", 1), "C09-Q1", ctx.site(PQ, g),
              "PriorityQueue.get does not return heapq.heappop(self.data)",
              "get() must remove and return the minimum-priority item", note="get = heappop(self.data)")
    p = repo.func(PQ, "PriorityQueue.pop")
    rv = single_return(p)
    okp = rv is not None and (is_heap_call(rv, "heappop", 1) or
                              (isinstance(rv, ast.Call) and au.is_self_attr(rv.func, "get") and not rv.args))
    ctx.check(okp, "C09-Q1", ctx.site(PQ, p), "PriorityQueue.pop does not delegate to get()",
              "pop() is documented as the same operation as get()", note="pop = get")
    # push
    pu = repo.func(PQ, "PriorityQueue.push")
    pps = au.params(pu, skip_self=True)
    bpu = sym.Bindings(pu)
    hp = [c for c in au.calls(pu) if au.call_tail(c) == "heappush"]
    okpush = False
    why = "no heappush(self.data, item)"
    if len(hp) == 1 and len(hp[0].args) == 2 and au.is_self_attr(hp[0].args[0], "data") and len(pps) == 2:
        it = bpu.resolve(hp[0].args[1], at=hp[0])
        if isinstance(it, ast.Call) and au.call_tail(it) == "PriorityItem":
            got = {}
            for i, a in enumerate(it.args):
                if i < len(fields):
                    got[fields[i]] = a
            for kw in it.keywords:
                got[kw.arg] = kw.value
            okpush = isinstance(got.get(info["payload"]), ast.Name) and got[info["payload"]].id == pps[0] and \
                isinstance(got.get(pr), ast.Name) and got[pr].id == pps[1]
            why = f"PriorityItem built as {au.src(it)} with fields {fields}"
        else:
            why = f"pushed item is `{au.src(it)}`"
    ctx.check(okpush, "C09-Q1", ctx.site(PQ, pu),
              "PriorityQueue.push(x, w) does not heappush PriorityItem(payload=x, priority=w) onto self.data", why,
              note="push = heappush(self.data, PriorityItem(x, w))")
    # empty
    em = repo.func(PQ, "PriorityQueue.empty")
    rv = single_return(em)
    oke = False
    if rv is not None:
        def symf(n):
            if isinstance(n, ast.Call) and au.call_tail(n) == "len" and len(n.args) == 1 and au.is_self_attr(n.args[0], "data"):
                return "n"
            raise order.Unsupported(au.src(n))
        try:
            if isinstance(rv, ast.UnaryOp) and isinstance(rv.op, ast.Not) and au.is_self_attr(rv.operand, "data"):
                oke = True
            else:
                pred = order.Pred(symf)
                oke = all(bool(pred.eval(rv, {"n": k})) == (k == 0) for k in range(0, 4))
        except (order.Unsupported, KeyError):
            oke = False
    ctx.check(oke, "C09-Q1", ctx.site(PQ, em), "PriorityQueue.empty() is not `len(self.data) == 0`",
              "the Dijkstra loops run `while not queue.empty()`", note="empty == (len == 0), sizes 0..3")
    # who may touch self.data
    n_uses = 0
    for st in cls.body:
        if not isinstance(st, ast.FunctionDef):
            continue
        for n in au.walk(st):
            if not au.is_self_attr(n, "data"):
                continue
            n_uses += 1
            par = au.parent(n)
            good = False
            if st.name == "__init__" and isinstance(par, (ast.Assign, ast.AnnAssign)) and isinstance(par.value, ast.List) and not par.value.elts:
                good = True
            elif isinstance(par, ast.Call) and au.call_tail(par) in ("heappush", "heappop", "len") and par.args and par.args[0] is n:
                good = True
            elif isinstance(par, ast.Subscript) and par.value is n and isinstance(par.ctx, ast.Load) and au.const(par.slice) == 0:
                good = True
            elif isinstance(par, ast.UnaryOp) and isinstance(par.op, ast.Not):
                good = True
            ctx.check(good, "C09-Q1", ctx.site(PQ, st, n),
                      f"{st.name} uses self.data outside heappush / heappop / len / [0] (`{au.src(au.enclosing_stmt(n))[:60]}`)",
                      "the list is a heap only as long as nothing but heapq writes it", note="self.data touched through heapq only")
    if n_uses < 1:
        ctx.fail("C09-Q1", ctx.site(PQ, cls), "heap list self.data of PriorityQueue not found", "the queue no longer stores its items in self.data")
    _q1_every_push_inserts(ctx, pu, fields)
    _q1_no_side_index(ctx, cls, fields)
    _q1_priorities_immutable(ctx, fields)
    return info


def _q1_every_push_inserts(ctx, pu, fields):
    """must-dataflow: every normal exit of push has gone through heappush(self.data, PriorityItem(...))"""
    def t_stmt(state, st):
        for c in au.calls(st):
            if au.call_tail(c) == "heappush" and len(c.args) == 2 and au.is_self_attr(c.args[0], "data"):
                state = state | {"pushed"}
        return state
    fl = flow.Flow(t_stmt)
    fl.run(pu.body, frozenset())
    bad = [(k, n) for k, n, st in fl.exits if k in ("return", "fall") and "pushed" not in st]
    conds = []
    for k, n in bad:
        if n is not None:
            conds += [("" if p_ else "not ") + au.src(e) for e, p_ in sk.atoms(sk.path_conds(n))]
    ctx.check(not bad, "C09-Q1", ctx.site(PQ, pu),
              "PriorityQueue.push returns on some path without heappush(self.data, item)",
              "every push must insert an entry: the lazy-deletion Dijkstra loops re-push a vertex to lower its key, a push that is skipped "
              "(or replaced by an in-place update of a queued item) leaves the heap without an entry at the new label"
              + (f" (exit under: {', '.join(conds)})" if conds else ""),
              note="heappush on every normal exit of push")


def _q1_no_side_index(ctx, cls, fields):
    """no field other than self.data holds queued items (an index of queued items lets code reach and change them behind the heap)"""
    n = 0
    for fn in [st for st in cls.body if isinstance(st, ast.FunctionDef)]:
        b = sym.Bindings(fn)

        def is_item(e, at):
            r = b.resolve(e, at=at, keep=("self",)) if isinstance(e, ast.Name) else e
            if isinstance(r, ast.Call) and au.call_tail(r) in ("PriorityItem", "heappop", "get", "pop"):
                return True
            if isinstance(r, ast.Subscript) and au.is_self_attr(r.value, "data"):
                return True
            if isinstance(e, ast.Name):
                # ambiguous reaching definition: any binding of the name to an item counts
                for st in au.stmts(fn.body):
                    for nm, v in sym.split_assign(st):
                        if nm == e.id and isinstance(v, ast.Call) and au.call_tail(v) in ("PriorityItem", "heappop"):
                            return True
            return False
        for st in au.stmts(fn.body):
            stores = []
            if isinstance(st, (ast.Assign, ast.AnnAssign)) and st.value is not None:
                for t in au.assign_targets(st):
                    base = t.value if isinstance(t, ast.Subscript) else t
                    if au.is_self_attr(base) and base.attr != "data":
                        stores.append((base.attr, st.value))
            for c in au.calls(st):
                if isinstance(c.func, ast.Attribute) and au.is_self_attr(c.func.value) and c.func.value.attr != "data" \
                        and c.func.attr in ("append", "add", "insert", "setdefault", "update", "appendleft"):
                    for a in c.args:
                        stores.append((c.func.value.attr, a))
            for f, v in stores:
                n += 1
                ctx.check(not is_item(v, st), "C09-Q1", ctx.site(PQ, fn, st),
                          f"PriorityQueue keeps queued items in self.{f} besides the heap",
                          "an index of the queued items makes them reachable without heappop: their priority can be changed (or they can be "
                          "dropped) while the heap order is not restored, so get() no longer returns the minimum", note="no side index of items")
    if n == 0:
        ctx.ok("C09-Q1", ctx.site(PQ, cls), "self.data is the only field of PriorityQueue")


def _q1_priorities_immutable(ctx, fields):
    """the fields of a PriorityItem are never stored to after construction (queue module and the Dijkstra modules)"""
    n = 0
    for modname in (PQ, PATHS, CUT):
        m = ctx.repo.module(modname)
        for q, fn in m.funcs.items():
            for st in au.stmts(fn.body):
                if not isinstance(st, (ast.Assign, ast.AugAssign, ast.AnnAssign)):
                    continue
                for t in au.assign_targets(st):
                    for x in ast.walk(t):
                        if isinstance(x, ast.Attribute) and isinstance(x.ctx, ast.Store) and x.attr == "priority" \
                                and not (au.is_self_attr(x) and q.startswith("PriorityItem.")):
                            n += 1
                            ctx.fail("C09-Q1", ctx.site(modname, fn, st), "priority of an existing PriorityItem is modified in place",
                                     f"`{au.src(st)}`: heapq orders the list at push time only; lowering the priority of an item that is already "
                                     "in the heap breaks the heap invariant and get() returns a non-minimal item (Dijkstra settles vertices too early)")
    if n == 0:
        ctx.ok("C09-Q1", ctx.site(PQ, ctx.repo.cls(PQ, "PriorityItem")), "no store to .priority outside PriorityItem")


# ----------------------------------------------------------------------- C09-D1..D4
def pq_names(fn):
    out = set()
    for st in au.stmts(fn.body):
        if isinstance(st, (ast.Assign, ast.AnnAssign)) and isinstance(st.value, ast.Call) and au.call_tail(st.value) == "PriorityQueue":
            for t in au.assign_targets(st):
                if isinstance(t, ast.Name):
                    out.add(t.id)
    return out


INF_SRC = ("float('inf')", "math.inf", "np.inf", "numpy.inf", "inf", "float('Inf')", "float('infinity')")


def _mentions_inf(e):
    return any(au.src(n) in INF_SRC for n in ast.walk(e))


def dijkstra(ctx, modname, fn, item):
    """All D1..D4 obligations of every Dijkstra loop of `fn`; returns the number of loops analysed."""
    site = ctx.site(modname, fn)
    qs = pq_names(fn)
    b = sym.Bindings(fn)
    n_loops = 0
    if not qs:
        ctx.fail("C09-D1", site, "no PriorityQueue in a Dijkstra site", "the frontier of Dijkstra's algorithm must be a priority queue")
        return 0
    for Q in sorted(qs):
        loops = [st for st in au.stmts(fn.body) if isinstance(st, ast.While) and
                 any(isinstance(n, ast.Name) and n.id == Q for n in au.walk(st))]
        loops = [l for l in loops if not any(l is not o and any(a is o for a in au.ancestors(l)) for o in loops)]
        if len(loops) != 1:
            ctx.fail("C09-D1", site, f"Dijkstra loop on `{Q}` not found", f"{len(loops)} while-loop(s) use the priority queue {Q}")
            continue
        loop = loops[0]
        n_loops += 1
        _dijkstra_loop(ctx, modname, fn, b, Q, loop, item)
    return n_loops


def _dijkstra_loop(ctx, modname, fn, b, Q, loop, item):
    site = ctx.site(modname, fn, loop)
    payload = (item or {}).get("payload") or "x"

    def q_call(e, tails):
        return (isinstance(e, ast.Call) and isinstance(e.func, ast.Attribute) and isinstance(e.func.value, ast.Name)
                and e.func.value.id == Q and e.func.attr in tails)

    # ---- D1: loop condition and pop-min
    test_atoms = sk.atoms([(loop.test, True)])
    runs_until_empty = any(q_call(e, ("empty",)) and not p for e, p in test_atoms)
    ctx.check(runs_until_empty, "C09-D1", site, f"Dijkstra loop does not run `while not {Q}.empty()`",
              "the loop must continue as long as a labelled, unsettled vertex is queued", note=f"while not {Q}.empty()")
    v = pop_stmt = None
    for st in loop.body:
        if isinstance(st, ast.Assign) and len(st.targets) == 1 and isinstance(st.targets[0], ast.Name):
            r = b.resolve(st.value, at=st, keep=(Q,))
            if isinstance(r, ast.Attribute) and q_call(r.value, ("get", "pop")) and not r.value.args:
                v, pop_stmt = st.targets[0].id, st
                ctx.check(r.attr == payload, "C09-D1", ctx.site(modname, fn, st),
                          f"popped item is read through .{r.attr}, the payload field of PriorityItem is .{payload}",
                          "the current node must be the payload of the minimum item", note=f"{v} = {Q}.get().{payload}")
                break
    if v is None:
        ctx.fail("C09-D1", site, f"current node is not taken from {Q}.get() / {Q}.pop()",
                 "Dijkstra must settle the queued node of minimum label and remove it from the queue "
                 "(`front` does not remove, `data.pop()` is not the minimum)")
        return
    # ---- locate the relaxation
    relax = None
    for st in au.stmts(loop.body):
        if isinstance(st, ast.If):
            for s in [n for n in au.walk(st.test) if sk.is_sub(n)]:
                for a in st.body:
                    if isinstance(a, ast.Assign) and len(a.targets) == 1 and sk.same_l(a.targets[0], s) and s.slice.id != v:
                        relax = (st, s.value.id, s.slice.id, a)
                        break
                if relax:
                    break
        if relax:
            break
    pushes = [c for c in au.calls(loop) if q_call(c, ("push",))]
    if relax is None:
        ctx.fail("C09-D3", site, "guarded relaxation `if label[nv] > candidate: label[nv] = candidate` not found",
                 "a label may only be lowered: without the guard the last neighbour processed overwrites a shorter label")
        return
    rif, LBL, nv, lab_assign = relax
    # neighbour loop = outermost For inside the while containing the relaxation
    fors = [a for a in au.ancestors(rif) if isinstance(a, ast.For) and any(x is loop for x in au.ancestors(a))]
    nloop = fors[-1] if fors else None
    if nloop is None:
        ctx.fail("C09-D3", site, "relaxation is not inside a loop over the neighbours of the popped node", "")
        return
    ftargets = set(au.assigned_names(nloop.target))
    # ---- D2
    vis = None
    for e, p in sk.atoms(sk.path_conds(nloop, stop=loop)):
        if sk.is_sub(e, idx=v) and p is False:
            vis = e.value.id
    ctx.check(vis is not None, "C09-D2", site, f"neighbour loop is not guarded by `if visited[{v}]: continue`",
              "with lazy deletion a vertex is queued several times: a stale entry must be skipped, otherwise a settled vertex "
              "is expanded again from an outdated queue entry", note=f"stale entries of {v} are skipped")
    if vis is not None:
        marks = [st for st in au.stmts(loop.body) if isinstance(st, ast.Assign) and len(st.targets) == 1
                 and sk.is_sub(st.targets[0], vis, v)]
        good = [m for m in marks if au.const(m.value) is True and not any(a is nloop for a in au.ancestors(m))
                and all((sk.is_sub(e, vis, v) and not p) for e, p in sk.atoms(sk.path_conds(m, stop=loop)))]
        ctx.check(len(good) >= 1 and len(good) == len(marks), "C09-D2", site,
                  f"`{vis}[{v}] = True` is missing, conditional, or not set to True after the stale-entry test",
                  "an expanded vertex must be marked settled, otherwise every queued duplicate expands it again and "
                  "`if visited: continue` never fires", note=f"{vis}[{v}] = True on the expansion path")
        d = b.reaching(vis, loop)
        bad_init = d is not None and any(isinstance(n, ast.Constant) and n.value is True for n in ast.walk(d))
        ctx.check(not bad_init, "C09-D2", site, f"`{vis}` is initialised with True", "every vertex must start unsettled",
                  note=f"{vis} starts False")
    # ---- D3
    s3 = ctx.site(modname, fn, rif)
    t = rif.test
    cand = None
    strict_ok = False
    if isinstance(t, ast.Compare) and len(t.ops) == 1:
        l, r = t.left, t.comparators[0]
        if sk.is_sub(l, LBL, nv):
            cand, strict_ok = r, isinstance(t.ops[0], ast.Gt)
        elif sk.is_sub(r, LBL, nv):
            cand, strict_ok = l, isinstance(t.ops[0], ast.Lt)
    if cand is None:
        ctx.fail("C09-D3", s3, "relaxation test is not a single comparison of label[nv] with the candidate", au.src(t))
        return
    ctx.check(strict_ok, "C09-D3", s3,
              f"relaxation test `{_generic(t, LBL, nv, v)}` is not `label[nv] > candidate`",
              "with >= a tie rewrites the predecessor of an already settled vertex: two vertices joined by a zero-weight edge "
              "(every target and the virtual sink are) become each other's predecessor and back-tracking never terminates; "
              "with < or <= labels never decrease", note="label[nv] > candidate (strict)")
    keep = tuple({v, nv, LBL} | ftargets)
    cres = sk.resolve_values(b, cand, rif, keep=keep)
    ares = sk.resolve_values(b, lab_assign.value, lab_assign, keep=keep)
    ctx.check(au.same(cres, ares), "C09-D3", s3,
              "label is updated with a value different from the candidate that was tested",
              f"tested `{au.src(cres)}`, stored `{au.src(ares)}`", note="stored label == tested candidate")
    terms = _add_terms(cres)
    base = [x for x in terms if sk.is_sub(x, LBL, v)]
    wts = [x for x in terms if not sk.is_sub(x, LBL, v)]
    okc = len(base) == 1 and len(wts) >= 1 and not any(LBL in au.names(w) for w in wts)
    ctx.check(okc, "C09-D3", s3, f"candidate `{_generic(cres, LBL, nv, v)}` is not `label[v] + weight`",
              "the tentative distance of a neighbour is the settled distance of the expanded vertex plus the edge weight",
              note="candidate = label[v] + w")
    if okc:
        wn = set().union(*[au.names(w) for w in wts])
        is_const = all(order.fold_const(w) is not None for w in wts)
        dep = is_const or (v in wn and (nv in wn or (wn & ftargets)))
        ctx.check(dep, "C09-D3", s3, "edge weight of the relaxation does not depend on both the expanded node and the neighbour",
                  f"weight `{' + '.join(au.src(w) for w in wts)}` must be the weight of the edge ({v}, {nv})",
                  note="weight reads both ends of the edge")
    # stores
    blk = rif.body
    lab_stores = [st for st in au.stmts(loop.body) if isinstance(st, (ast.Assign, ast.AugAssign))
                  and any(isinstance(tg, ast.Subscript) and isinstance(tg.value, ast.Name) and tg.value.id == LBL
                          for tg in au.assign_targets(st))]
    ctx.check(all(any(s is x for x in blk) for s in lab_stores) and len(lab_stores) == 1, "C09-D3", s3,
              f"label table is written outside the guarded relaxation block ({len(lab_stores)} store(s) in the loop)",
              "labels may only decrease, through the guarded update", note="single label store, inside the guard")
    pred_stores = [st for st in blk if isinstance(st, ast.Assign) and len(st.targets) == 1 and sk.is_sub(st.targets[0], None, nv)
                   and st.targets[0].value.id not in (LBL, vis)]
    if len(pred_stores) != 1:
        ctx.fail("C09-D3", s3, "predecessor is not updated in the block that updates the label",
                 f"{len(pred_stores)} store(s) `pred[{nv}] = ...` next to `{LBL}[{nv}] = ...`: label and predecessor must change together, "
                 "otherwise back-tracking follows a predecessor that belongs to a longer path")
        return
    PRED = pred_stores[0].targets[0].value.id
    pv = pred_stores[0].value
    okp = isinstance(pv, ast.Name) and (pv.id == v or pv.id in ftargets) and pv.id != nv
    ctx.check(okp, "C09-D3", ctx.site(modname, fn, pred_stores[0]),
              f"predecessor of the neighbour is set to `{_generic(pv, LBL, nv, v)}`, not to the expanded node (or the edge crossed)",
              "back-tracking follows pred[] from the target to the start", note=f"{PRED}[{nv}] = expanded node / crossed edge")
    other_pred = [st for st in au.stmts(loop.body) if isinstance(st, (ast.Assign, ast.AugAssign))
                  and any(isinstance(tg, ast.Subscript) and isinstance(tg.value, ast.Name) and tg.value.id == PRED
                          for tg in au.assign_targets(st)) and not any(st is x for x in blk)]
    ctx.check(not other_pred, "C09-D3", s3, "predecessor table is also written outside the guarded relaxation block",
              "label and predecessor must change together", note="predecessor written only with the label")
    # ---- D4
    good_push = []
    for c in pushes:
        cst = au.enclosing_stmt(c)
        if len(c.args) != 2 or c.keywords:
            continue
        el, pr = c.args
        if not (isinstance(el, ast.Name) and el.id == nv):
            continue
        inside = any(a is rif for a in au.ancestors(c))
        after = False
        if inside:
            top = sk.top_stmt_in(rif.body, c)
            after = top is not None and sk.index_in(rif.body, top) > sk.index_in(rif.body, lab_assign)
        else:
            # the push (or the statement containing it) is a later sibling of the relaxation If
            rb, _ = au.enclosing_block(rif)
            top = sk.top_stmt_in(rb, c) if rb else None
            after = top is not None and sk.index_in(rb, top) > sk.index_in(rb, rif)
        if not after:
            continue
        pres = sk.resolve_values(b, pr, cst, keep=keep)
        if not (sk.is_sub(pr, LBL, nv) or au.same(pres, cres) or sk.is_sub(pres, LBL, nv)):
            continue
        extra = [(e, p) for e, p in sk.atoms(sk.path_conds(c, stop=nloop))
                 if not any(au.norm(e) == au.norm(e2) and p == p2 for e2, p2 in sk.atoms(sk.path_conds(rif, stop=nloop)))]
        okg = True
        for e, p in extra:
            if sk.is_sub(e, vis, nv) and p is False:
                continue
            if au.norm(e) in [au.norm(x) for x, q in sk.atoms([(rif.test, True)]) if q] and p is True:
                continue
            okg = False
        if okg:
            good_push.append(c)
    s4 = ctx.site(modname, fn, pushes[0]) if pushes else site
    ctx.check(bool(good_push), "C09-D4", s4,
              "no push of the neighbour with its updated label after the relaxation",
              f"after `{LBL}[{nv}]` decreases, `{nv}` must be queued with exactly that label (guarded at most by `not visited[{nv}]`): "
              "a missing, stale, or wrongly guarded push settles vertices in the wrong order or never reaches them"
              + (f"; pushes found: {[au.src(c) for c in pushes]}" if pushes else "; no push in the loop"),
              note=f"{Q}.push({nv}, {LBL}[{nv}]) after the update")
    # initialisation
    d = b.reaching(LBL, loop)
    ctx.check(d is not None and _mentions_inf(d), "C09-D4", site, f"labels `{LBL}` are not initialised to +inf",
              "an unreached vertex must lose every comparison `label[nv] > candidate`", note=f"{LBL} starts at +inf")
    fb, _ = au.enclosing_block(loop)
    idx = sk.index_in(fb, loop) if fb else -1
    pre = list(au.stmts(fb[:idx])) if fb and idx >= 0 else []
    init_push = [c for st in pre for c in au.calls(st) if q_call(c, ("push",)) and len(c.args) == 2]
    init_lab = [st for st in pre if isinstance(st, ast.Assign) and len(st.targets) == 1 and isinstance(st.targets[0], ast.Subscript)
                and isinstance(st.targets[0].value, ast.Name) and st.targets[0].value.id == LBL
                and not au.guards(st)]
    ok_init = False
    why = f"{len(init_push)} push(es) and {len(init_lab)} label store(s) before the loop"
    for c in init_push:
        if au.guards(c):
            continue
        for st in init_lab:
            cv = order.fold_const(st.value)
            if sk.same_l(st.targets[0].slice, c.args[0]) and cv is not None and cv != float("inf") and cv == cv \
                    and order.fold_const(c.args[1]) is not None:
                ok_init = True
    ctx.check(ok_init, "C09-D4", site, "start is not both given a finite label and pushed before the loop", why,
              note="label[start] = 0 and push(start, 0) before the loop")


def _add_terms(e):
    if isinstance(e, ast.BinOp) and isinstance(e.op, ast.Add):
        return _add_terms(e.left) + _add_terms(e.right)
    return [e]


def _generic(e, LBL, nv, v):
    """source text with the local names of the loop replaced by their roles (stable under renaming)."""
    m = {LBL: ast.Name(id="label", ctx=ast.Load()), nv: ast.Name(id="nv", ctx=ast.Load()), v: ast.Name(id="v", ctx=ast.Load())}
    return au.src(sym.subst(e, m))


# ----------------------------------------------------------------------- C09-W1
def w1_weight_modes(ctx):
    repo = ctx.repo
    # (a) shortest_path: every two-argument weight callable reads both endpoints; the custom mode goes through edge_id(u, v)
    fn = repo.func(PATHS, "shortest_path")
    params = set(au.params(fn))
    n = 0
    for name, binds in sk.callable_bindings(fn).items():
        for st, args in binds:
            if not isinstance(st, ast.Assign):
                continue
            lam = st.value
            ps = [a.arg for a in lam.args.posonlyargs + lam.args.args]
            body = lam.body
            s = ctx.site(PATHS, fn, st)
            if order.fold_const(body) is not None:
                n += 1
                ctx.ok("C09-W1", s, "constant weight")
                continue
            n += 1
            if len(ps) != 2:
                continue   # arity is C09-A1's business
            used = au.names(body)
            ctx.check(set(ps) <= used, "C09-W1", s,
                      f"weight callable `{name}` ignores one endpoint of the edge",
                      f"`{au.src(lam)}` must be the weight of the edge between its two arguments", note="weight reads both endpoints")
            # subscripts of a parameter of shortest_path (the custom weights) must be keyed by edge_id(u, v)
            for sub in [x for x in au.walk(body) if isinstance(x, ast.Subscript) and isinstance(x.value, ast.Name) and x.value.id in params]:
                k = sub.slice
                okk = isinstance(k, ast.Call) and au.call_tail(k) == "edge_id" and len(k.args) == 2 and \
                    sorted(a.id if isinstance(a, ast.Name) else "?" for a in k.args) == sorted(ps)
                ctx.check(okk, "C09-W1", s, f"custom weights `{sub.value.id}` are indexed by `{_lam_generic(k, ps)}` instead of edge_id(u, v)",
                          "caller-supplied weights are per edge: the key must be the id of the edge joining the two endpoints",
                          note="custom weights keyed by edge_id(u, v)")
            # vertex coordinates must be read at both endpoints
            vs = [x for x in au.walk(body) if isinstance(x, ast.Subscript) and isinstance(x.value, ast.Attribute) and x.value.attr == "vertices"]
            if vs:
                idxs = sorted(x.slice.id if isinstance(x.slice, ast.Name) else "?" for x in vs)
                ctx.check(idxs == sorted(ps), "C09-W1", s, "length weight does not measure the distance between the two endpoints",
                          f"coordinates read at {idxs}", note="length = distance(P[u], P[v])")
    if n < 1:
        ctx.fail("C09-W1", ctx.site(PATHS, fn), "weight callables of shortest_path not found", "no lambda bound to a local name selects the edge weight")
    # (b) shortest_path_to_vertex_set: adjacency filled symmetrically from the edge list, custom weights by enumeration index
    fn = repo.func(PATHS, "shortest_path_to_vertex_set")
    site = ctx.site(PATHS, fn)
    b = sym.Bindings(fn)
    params = set(au.params(fn))
    n_loops = 0
    adj = None
    for lp in [st for st in au.stmts(fn.body) if isinstance(st, ast.For)]:
        it = lp.iter
        idx = None
        tgt = lp.target
        if isinstance(it, ast.Call) and au.call_tail(it) == "enumerate" and len(it.args) == 1 and isinstance(tgt, ast.Tuple) and len(tgt.elts) == 2:
            it, idx, tgt = it.args[0], tgt.elts[0], tgt.elts[1]
        if not (isinstance(it, ast.Attribute) and it.attr == "edges" and isinstance(tgt, ast.Tuple) and len(tgt.elts) == 2
                and all(isinstance(x, ast.Name) for x in tgt.elts)):
            continue
        u, w = tgt.elts[0].id, tgt.elts[1].id
        stores = [st for st in lp.body if isinstance(st, ast.Assign) and len(st.targets) == 1
                  and isinstance(st.targets[0], ast.Subscript) and isinstance(st.targets[0].value, ast.Subscript)
                  and isinstance(st.targets[0].value.value, ast.Name)]
        if not stores:
            continue
        n_loops += 1
        s = ctx.site(PATHS, fn, lp)
        adj = stores[0].targets[0].value.value.id
        keys = sorted((au.src(st.targets[0].value.slice), au.src(st.targets[0].slice)) for st in stores
                      if st.targets[0].value.value.id == adj)
        ctx.check(keys == sorted([(u, w), (w, u)]), "C09-W1", s,
                  "adjacency weights of the vertex-set query are not stored for both directions of the edge",
                  f"stores found for {keys}; the graph is undirected: w(u,v) and w(v,u) are both needed", note="adj[u][v] and adj[v][u]")
        vals = [b.resolve(st.value, at=st, keep=(u, w) + ((idx.id,) if isinstance(idx, ast.Name) else ())) for st in stores]
        ctx.check(all(au.same(vals[0], x) for x in vals), "C09-W1", s,
                  "the two directions of an edge receive different weights",
                  "; ".join(au.src(x) for x in vals), note="same weight in both directions")
        v0 = vals[0]
        if order.fold_const(v0) is not None:
            continue
        subs = [x for x in au.walk(v0) if isinstance(x, ast.Subscript) and isinstance(x.value, ast.Name) and x.value.id in params]
        for sub_ in subs:
            k = sub_.slice
            okk = (isinstance(idx, ast.Name) and isinstance(k, ast.Name) and k.id == idx.id) or \
                  (isinstance(k, ast.Call) and au.call_tail(k) == "edge_id" and len(k.args) == 2 and
                   sorted(a.id if isinstance(a, ast.Name) else "?" for a in k.args) == sorted([u, w]))
            ctx.check(okk, "C09-W1", s,
                      f"custom weights `{sub_.value.id}` are indexed by {'a vertex of the edge' if isinstance(k, ast.Name) and k.id in (u, w) else 'something other than the edge'} "
                      "instead of the edge index",
                      f"`{au.src(sub_)}`: caller-supplied weights are per edge (enumeration index of mesh.edges or edge_id(u, v))",
                      note="custom weights keyed by the edge index")
        vs = [x for x in au.walk(v0) if isinstance(x, ast.Subscript) and isinstance(x.value, ast.Attribute) and x.value.attr == "vertices"]
        if vs:
            idxs = sorted(x.slice.id if isinstance(x.slice, ast.Name) else "?" for x in vs)
            ctx.check(idxs == sorted([u, w]), "C09-W1", s, "length weight does not measure the distance between the two endpoints",
                      f"coordinates read at {idxs}", note="length = distance(P[u], P[v])")
    if n_loops < 1:
        ctx.fail("C09-W1", site, "weighted adjacency of the vertex-set query is not filled from the edge list",
                 "no `for (u, v) in mesh.edges: adj[u][v] = w; adj[v][u] = w` loop found")
    # (c) the sink is linked from every target
    S = None
    for name, v in b.defs.items():
        c = au.const(v)
        if b.single(name) and isinstance(c, int) and not isinstance(c, bool) and c < 0:
            S = name
    linked = False
    if S and adj:
        for lp in [st for st in au.stmts(fn.body) if isinstance(st, ast.For) and isinstance(st.target, ast.Name)]:
            if not (isinstance(lp.iter, ast.Name) and lp.iter.id in params and not au.guards(lp)):
                continue
            t = lp.target.id
            for st in lp.body:
                if isinstance(st, ast.Assign) and len(st.targets) == 1 and au.src(st.targets[0]) == f"{adj}[{t}][{S}]" \
                        and order.fold_const(st.value) == 0:
                    linked = True
    ctx.check(linked, "C09-W1", site, "targets are not all linked to the virtual sink with weight 0",
              "`for s in targets: adj[s][SINK] = 0` over the whole target list, unconditionally", note="adj[s][SINK] = 0 for every target")


def _lam_generic(e, ps):
    m = {p: ast.Name(id=r, ctx=ast.Load()) for p, r in zip(ps, ("u", "v"))}
    return au.src(sym.subst(e, m))


# ----------------------------------------------------------------------- C09-B1
def b1_backtracking(ctx):
    repo = ctx.repo
    n = 0
    for qual in ("shortest_path", "shortest_path_to_vertex_set"):
        fn = repo.func(PATHS, qual)
        site = ctx.site(PATHS, fn)
        b = sym.Bindings(fn)
        params = au.params(fn)
        start = params[1] if len(params) > 1 else None
        # predecessor tables = tables stored next to the label inside a comparison-guarded block
        preds = set()
        for st in au.stmts(fn.body):
            if isinstance(st, ast.If) and isinstance(st.test, ast.Compare):
                tabs = [s.targets[0].value.id for s in st.body if isinstance(s, ast.Assign) and len(s.targets) == 1 and sk.is_sub(s.targets[0])]
                tested = {x.value.id for x in au.walk(st.test) if sk.is_sub(x)}
                if any(t in tested for t in tabs):
                    preds |= {t for t in tabs if t not in tested}
        walks = []
        for lp in [st for st in au.stmts(fn.body) if isinstance(st, ast.While)]:
            t = lp.test
            if isinstance(t, ast.Compare) and len(t.ops) == 1 and isinstance(t.ops[0], ast.NotEq) and isinstance(t.left, ast.Name) \
                    and isinstance(t.comparators[0], ast.Name):
                names = {t.left.id, t.comparators[0].id}
                if start in names:
                    cur = (names - {start}).pop() if len(names) == 2 else None
                    if cur:
                        walks.append((lp, cur))
        n += 1
        if len(walks) != 1:
            ctx.fail("C09-B1", site, "predecessor back-tracking loop `while v != start` not found",
                     f"{len(walks)} candidate loop(s)")
            continue
        lp, cur = walks[0]
        s = ctx.site(PATHS, fn, lp)
        steps = [st for st in lp.body if isinstance(st, ast.Assign) and len(st.targets) == 1 and isinstance(st.targets[0], ast.Name)
                 and st.targets[0].id == cur]
        pred = steps[0].value.value.id if len(steps) == 1 and sk.is_sub(steps[0].value, None, cur) else None
        ok_step = pred is not None and pred in preds and len([x for x in au.stmts(lp.body)
                                                                                      if cur in [nm for tg in au.assign_targets(x) for nm in au.assigned_names(tg)]]) == 1
        ctx.check(ok_step, "C09-B1", s, "back-tracking does not step with `v = predecessor[v]` on the table written by the relaxation",
                  f"expected a single unconditional `{cur} = pred[{cur}]` in the loop, pred among {sorted(preds)}; found "
                  f"{[au.src(x) for x in steps]}", note=f"{cur} = {pred}[{cur}]")
        if not ok_step:
            continue
        step = steps[0]
        apps = [c for st in lp.body for c in au.calls(st) if au.call_tail(c) in ("append",) and len(c.args) == 1
                and isinstance(c.args[0], ast.Name) and c.args[0].id == cur and not sk.path_conds(c, stop=lp)]
        if len(apps) != 1:
            ctx.fail("C09-B1", s, "back-tracking does not record exactly one node per step", f"{len(apps)} unconditional append({cur}) in the loop")
            continue
        app = apps[0]
        lst = app.func.value
        app_first = sk.index_in(lp.body, sk.top_stmt_in(lp.body, app)) < sk.index_in(lp.body, step)
        init = b.reaching(cur, lp)
        blk, _ = au.enclosing_block(lp)
        i = sk.index_in(blk, lp)
        post = blk[i + 1:]
        post_start = [c for st in post for c in au.calls(st) if au.call_tail(c) == "append" and sk.same_l(c.func.value, lst)
                      and len(c.args) == 1 and isinstance(c.args[0], ast.Name) and c.args[0].id == start
                      and any(st is x for x in post)]
        sentinel_init = isinstance(init, ast.Name) and isinstance(au.const(b.defs.get(init.id)), int) and au.const(b.defs.get(init.id)) < 0
        if app_first:
            # shape A: [append(v); v = pred[v]] ... append(start) afterwards; the initial node is a real vertex
            okA = len(post_start) == 1 and not sentinel_init
            ctx.check(okA, "C09-B1", s,
                      "back-tracking records the current node before stepping but "
                      + ("starts from the sentinel" if sentinel_init else "does not append `start` exactly once after the loop"),
                      "the path must contain every vertex from the target back to the start exactly once, and no virtual vertex",
                      note="target .. start recorded once each")
        else:
            # shape B: [v = pred[v]; append(v)]: the initial node is excluded, start is appended by the last iteration
            okB = sentinel_init and not post_start
            ctx.check(okB, "C09-B1", s,
                      "back-tracking steps before recording but "
                      + ("appends `start` a second time after the loop" if post_start else "does not start from the virtual sink: the target itself is dropped from the path"),
                      "the path must contain every vertex from the target back to the start exactly once",
                      note="sink excluded, nearest target .. start recorded once each")
        rev = [c for st in post for c in au.calls(st) if au.call_tail(c) == "reverse" and sk.same_l(c.func.value, lst) and not c.args
               and any(st is x for x in post)]
        ctx.check(len(rev) == 1, "C09-B1", s, "back-tracked list is not reversed exactly once after the loop",
                  "nodes are collected from the target towards the start; the returned path must begin at `start`",
                  note="list reversed once")


# ----------------------------------------------------------------------- C09-R1
def r1_forwarding(ctx):
    repo = ctx.repo
    m = repo.module(PATHS)
    n = 0
    top = {q: f for q, f in m.funcs.items() if "." not in q}
    for q, fn in sorted(top.items()):
        for c in au.calls(fn, into_funcs=True):
            if not (isinstance(c.func, ast.Name) and c.func.id in top):
                continue
            callee = top[c.func.id]
            ps = [a.arg for a in callee.args.posonlyargs + callee.args.args]
            if any(isinstance(a, ast.Starred) for a in c.args):
                continue
            n += 1
            bad = []
            for i, a in enumerate(c.args):
                if isinstance(a, ast.Name) and a.id in ps and i < len(ps) and ps[i] != a.id:
                    bad.append((a.id, ps[i]))
            for kw in c.keywords:
                if kw.arg and isinstance(kw.value, ast.Name) and kw.value.id in ps and kw.value.id != kw.arg:
                    bad.append((kw.value.id, kw.arg))
            too_many = len(c.args) > len(ps) and not callee.args.vararg
            ctx.check(not bad and not too_many, "C09-R1", ctx.site(PATHS, fn, c),
                      f"call of {c.func.id} passes " + ", ".join(f"`{a}` into parameter `{p}`" for a, p in bad) if bad else
                      f"call of {c.func.id} passes too many arguments",
                      f"`{au.src(c)}`: {c.func.id}{tuple(ps)} has a parameter of that name in another slot",
                      note=f"{c.func.id}: same-named variables land in their parameters")
    if n < 1:
        ctx.fail("C09-R1", ctx.site(PATHS, repo.func(PATHS, "shortest_path_to_border")), "delegating calls between the path functions not found",
                 "shortest_path_to_border -> shortest_path_to_vertex_set -> shortest_path / build_path")
    # ---- C09-R2: shared options are forwarded
    n2 = 0
    for q, fn in sorted(top.items()):
        mine = set(au.params(fn))
        for c in au.calls(fn, into_funcs=True):
            if not (isinstance(c.func, ast.Name) and c.func.id in top) or any(isinstance(a, ast.Starred) for a in c.args) \
                    or any(kw.arg is None for kw in c.keywords):
                continue
            callee = top[c.func.id]
            pos = callee.args.posonlyargs + callee.args.args
            ndef = len(callee.args.defaults)
            defaulted = [a.arg for a in pos[len(pos) - ndef:]] if ndef else []
            defaulted += [a.arg for a, d in zip(callee.args.kwonlyargs, callee.args.kw_defaults) if d is not None]
            shared = [p_ for p_ in defaulted if p_ in mine]
            if not shared:
                continue
            amap = sk.resolve_positional(c, callee) or {}
            missing = [p_ for p_ in shared if p_ not in amap]
            n2 += 1
            ctx.check(not missing, "C09-R2", ctx.site(PATHS, fn, c),
                      f"{q} calls {c.func.id} without forwarding its own option(s) {', '.join('`' + m_ + '`' for m_ in missing)}",
                      f"`{au.src(c)}`: {c.func.id} then runs with its default for {', '.join(missing)} whatever the caller of {q} asked for "
                      "(e.g. weights='one' or a custom weight table is ignored on this branch and the returned path is shortest for the wrong weights)",
                      note=f"{q} -> {c.func.id}: shared options forwarded")
    if n2 < 1:
        ctx.fail("C09-R2", ctx.site(PATHS, repo.func(PATHS, "shortest_path_to_border")), "delegating calls with shared options not found",
                 "shortest_path_to_border / shortest_path_to_vertex_set must delegate with weights and export_path_mesh")
