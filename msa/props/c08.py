"""C08 - discrete differential operators satisfy their defining identities (structural clauses, R-STENCIL)."""
from __future__ import annotations
import ast, itertools
from fractions import Fraction
from .. import au, sym, flow
from ..sym import Poly
from ..core import AnalysisError
from ..rules import c0708 as H
from .c07 import kinds_rule, _sum_over

LAP = "operators.laplacian_op"
GRAD = "operators.gradient_op"
MASS = "operators.mass"
ADJ = "operators.adjacency"
CONN = "processing.connection"

EXPLANATION = (
    "R-STENCIL over the assembly code of the operators: the (row, col, value) triples emitted per loop iteration are "
    "extracted from the three idioms of the repository (parallel stores into rows/cols/values, the local add() helper, "
    "lil[i,j] stores) and, with values as polynomial forms over opaque atoms, checked for symmetry, zero row sums, "
    "Hermitian pairing of the connection branches (phases modulo 2*pi*order, transport antisymmetry checked at its "
    "source), agreement of the real and complex gradient and its exactness on affine functions (polynomial identity), "
    "one entry per incidence for the adjacency / incidence operators, index-kind typing of rows, columns and every "
    "subscript, and the build pattern of the diagonal mass matrices. Structural necessary conditions only: no matrix is built.")

RULES = {
    "C08-S1": "real stencils: every off-diagonal entry (i,j,x) has its transpose (j,i,x) in the same iteration and the entries of each row "
              "emitted in one iteration sum to the zero form (neighbour loops: -1 per neighbour against len(neighbours) on the diagonal)",
    "C08-S2": "connection stencils are Hermitian: (i,j, m*rect(1,phi)) pairs with (j,i, m*rect(1,phi')) and phi+phi' = 0 mod 2*pi*order; with all "
              "phases set to zero the rows sum to zero; laplacian_triangles is Nabla^H [D] Nabla with rows of Nabla summing to zero",
    "C08-S3": "adjacency_matrix: two entries per edge at transposed positions with equal value in every weight branch; vertex_to_edge_operator: "
              "one entry per endpoint, origin coefficient -1 iff oriented; vertex_to_face_operator: 1/len(T) per incidence",
    "C08-S4": "gradient: complex and real branch agree slot by slot, the three coefficients of a face sum to zero and the gradient of the local "
              "coordinates is the identity (polynomial identity with the doubled signed area)",
    "C08-M1": "mass matrices are sp.diags of a per-incidence accumulation (or of the measure attribute itself) indexed by the right element kind; "
              "the inverse / sqrt switches act on that diagonal",
    "C08-K1": "rows, columns and every subscript / connectivity call of the operator modules use ids of the element kind they address",
    "C08-O1": "the cotangent weight of edge (x,y) in a triangle is half the cotangent at the opposite vertex; the opposite vertex of an edge in a "
              "face is addressed with the local indices returned for that same face",
    "C08-N1": "the number of coefficients allocated for a COO assembly covers the entries emitted (slots distinct, counter advanced once per entry)",
    "C08-T1": "parallel transport tables of the face / edge connections are antisymmetric: T[(a,b)] + T[(b,a)] = 0, both stored in the same block",
    "C08-D1": "cotan_edge_diagonal: the inverse branch is 1/x of the direct branch; the two half weights come from the two sides of the edge",
    "C08-W1": "every evaluation / read of cotangent data in laplacian, laplacian_edges, laplacian_triangles is controlled by the `cotan` option "
              "(the uniform-weight branch never reads the cached \"cotan\" attribute)",
    "C08-E1": "per-edge operators visit the faces on both sides of each edge independently (no break / return / nesting between the sides)",
    "C08-B1": "local bases are right handed (Y = normal x X, faces: (X, Y) of face_basis), project returns (X.V, Y.V), edge angles are atan2(E.Y, E.X) in one basis",
}

ASSUMPTIONS = [
    "scipy sums duplicate (row, col) entries of a COO triple list when converting to csc/csr",
    "`order` is an integer (phases are compared modulo 2*pi*order)",
    "the vertex / cell adjacency relations used by the neighbour loops are symmetric (C01 / C03)",
]


def run(ctx):
    s1_s2_stencils(ctx)
    s2_triangles(ctx)
    s3_adjacency(ctx)
    s4_gradient(ctx)
    m1_mass(ctx)
    kinds_rule(ctx, "C08-K1", [LAP, GRAD, MASS, ADJ, CONN], 50)
    k1_matrix_axes(ctx)
    o1_opposite(ctx)
    n1_allocation(ctx)
    t1_transport(ctx)
    d1_inverse_branch(ctx)
    b1_local_bases(ctx)
    w1_option_dominance(ctx)
    e1_edge_sides(ctx)


# ----------------------------------------------------------------------- stencil units
def units(st: H.Stencil, body):
    """outermost loops whose body emits entries directly (on some path)"""
    out = []
    for s in body:
        if isinstance(s, (ast.For, ast.While)):
            paths = [p for p in st.paths(s.body) if H.consistent(p[0])]
            if any(H.flat_emits(items) for _, items in paths):
                out.append((s, paths))
            else:
                out.extend(units(st, s.body))
        elif isinstance(s, ast.If):
            out.extend(units(st, s.body))
            out.extend(units(st, s.orelse))
        elif isinstance(s, (ast.With, ast.Try)):
            out.extend(units(st, s.body))
    return out


def is_pi(e):
    c = au.chain(e)
    return bool(c) and c[-1] == "pi"


class Values:
    """polynomial form of an emitted value; transports / pi / len(...) get canonical atoms"""

    def __init__(self, fn, antisym_transport=False, unit_phase=False, flat=None):
        self.b = sym.Bindings(fn)
        self.antisym = antisym_transport
        self.unit_phase = unit_phase
        self.flat = flat        # None | "vertex" (T(j,i) = T(i,j) + pi: polar angle of the reversed edge) | "zero" (trivial transport)

    def atom_of(self, at):
        def f(e):
            if is_pi(e):
                return "pi"
            if isinstance(e, ast.Call) and au.call_tail(e) == "transport" and len(e.args) == 2:
                a, b = (au.src(self.b.resolve(x, at=at)) for x in e.args)
                if self.flat == "zero":
                    return Poly.const(0)
                if self.flat == "vertex":
                    return Poly.atom(f"T({a},{b})") if a <= b else Poly.atom(f"T({b},{a})") + Poly.atom("pi")
                if self.antisym and b < a:
                    return -Poly.atom(f"T({b},{a})")
                return Poly.atom(f"T({a},{b})")
            if isinstance(e, ast.Call) and au.call_tail(e) == "len" and len(e.args) == 1:
                return "len(" + au.src(self.b.resolve(e.args[0], at=at)) + ")"
            if self.unit_phase and _rect_of(e) is not None:
                return Poly.const(1)
            return None
        return f

    def poly(self, e, at):
        return sym.to_poly(self.b.resolve(e, at=at), atom_of=self.atom_of(at))


def has_phase(e):
    return any(isinstance(n, ast.Call) and au.call_tail(n) in ("rect", "complex", "exp") for n in ast.walk(e))


def _rect_of(x):
    """(rect call, conjugated?) if x is rect(..) or rect(..).conjugate() / .conj() / np.conj(rect(..))"""
    conj = False
    while True:
        if isinstance(x, ast.Call) and isinstance(x.func, ast.Attribute) and x.func.attr in ("conjugate", "conj") and not x.args:
            conj, x = not conj, x.func.value
        elif isinstance(x, ast.Call) and au.call_tail(x) in ("conj", "conjugate") and len(x.args) == 1:
            conj, x = not conj, x.args[0]
        else:
            break
    if isinstance(x, ast.Call) and au.call_tail(x) == "rect":
        return x, conj
    return None


def split_phase(e):
    """value = magnitude * rect(1, phi)  ->  (coef, magnitude factors key, phi) or None  (phi negated under a conjugate)"""
    coef, num, den = H.factors(e)
    ph = [(x, _rect_of(x)) for x in num if _rect_of(x) is not None]
    if len(ph) != 1:
        return None
    node, (rc, conj) = ph[0]
    if len(rc.args) != 2 or au.const(rc.args[0]) not in (1, 1.0):
        return None
    rest = [x for x in num if x is not node]
    phi = rc.args[1]
    if conj:
        phi = ast.UnaryOp(op=ast.USub(), operand=phi)
    return coef, H.factor_key(rest, den), phi


def _multiple_of_2pi(p):
    """is the phase polynomial in 2*pi*Z for every integer value of `order`?"""
    for mono, c in p.t.items():
        if sorted(mono) not in (["order", "pi"], ["pi"]) or c.denominator != 1 or int(c) % 2 != 0:
            return False
    return True


def analyse_unit(ctx, rule_real, rule_cplx, modname, fn, loop, paths, antisym, flat="zero"):
    """symmetry and row sums of one assembly loop; returns (#real paths, #complex paths)"""
    n_real = n_cplx = 0
    q = fn.name
    for conds, items in paths:
        emits = H.flat_emits(items)
        nested = [x for x in items if isinstance(x, tuple) and x[0] == "loop" and any(H.flat_emits(i) for _, i in x[2])]
        if not emits and not nested:
            continue
        _b = sym.Bindings(fn)
        cplx = any(has_phase(_b.resolve(e.val, at=e.node)) for e in emits)
        rule = rule_cplx if cplx else rule_real
        n_real += not cplx
        n_cplx += cplx
        site = ctx.site(modname, fn, emits[0].node if emits else loop)
        label = q + ("" if not conds else " [" + ", ".join(("" if pol else "not ") + au.src(t) for t, pol in conds) + "]")
        problems = []
        vals = Values(fn, antisym_transport=antisym, unit_phase=True)
        # ---- row sums (phases set to zero on connection paths)
        rows = {}
        for e in emits:
            rows.setdefault(au.norm(e.row), Poly())
            rows[au.norm(e.row)] = rows[au.norm(e.row)] + vals.poly(e.val, e.node)
            if au.same(e.row, e.col) and e.mode == "set":
                problems.append(f"diagonal entry `{au.src(e.node)}` overwrites instead of accumulating")
        for _, lp, subpaths in nested:
            for c2, it2 in subpaths:
                sub = H.flat_emits(it2)
                if not sub:
                    continue
                if c2 or any(isinstance(x, str) for x in it2):
                    problems.append(f"entries of the neighbour loop `for {au.src(lp.target)} in {au.src(lp.iter)}` are conditional")
                for e in sub:
                    v = vals.poly(e.val, e.node)
                    if not v.is_const():
                        problems.append(f"neighbour entry `{au.src(e.node)}` has a value depending on the pair: symmetry cannot follow from "
                                        f"the symmetry of the adjacency")
                    if not isinstance(lp.target, ast.Name) or au.src(e.col) != lp.target.id or lp.target.id in au.names(e.row):
                        problems.append(f"neighbour entry `{au.src(e.node)}` is not (element, neighbour)")
                    cnt = Poly.atom("len(" + au.src(vals.b.resolve(lp.iter, at=lp)) + ")")
                    rows.setdefault(au.norm(e.row), Poly())
                    rows[au.norm(e.row)] = rows[au.norm(e.row)] + v * cnt
        for r, p in rows.items():
            if not p.is_zero():
                rname = [au.src(e.row) for e in emits + [x for _, _, sp in nested for _, i in sp for x in H.flat_emits(i)] if au.norm(e.row) == r][0]
                problems.append(f"entries of row `{rname}` emitted in one iteration sum to {p}, not to zero"
                                + (" (with all phases set to zero)" if cplx else ""))
        # ---- symmetry / Hermitian pairing
        off = [e for e in emits if not au.same(e.row, e.col)]
        vals_sym = Values(fn, antisym_transport=antisym, unit_phase=False)
        used = set()
        for e in off:
            if id(e) in used:
                continue
            partner = [f for f in off if f is not e and id(f) not in used and au.same(f.row, e.col) and au.same(f.col, e.row)]
            if not partner:
                problems.append(f"entry ({au.src(e.row)}, {au.src(e.col)}) has no transposed entry ({au.src(e.col)}, {au.src(e.row)}) in the same iteration")
                continue
            f = partner[0]
            used.update((id(e), id(f)))
            if not cplx:
                if vals_sym.poly(e.val, e.node) != vals_sym.poly(f.val, f.node):
                    problems.append(f"entries ({au.src(e.row)}, {au.src(e.col)}) = {au.src(e.val)} and its transpose = {au.src(f.val)} differ")
            else:
                se, sf = split_phase(vals_sym.b.resolve(e.val, at=e.node)), split_phase(vals_sym.b.resolve(f.val, at=f.node))
                if se is None or sf is None:
                    problems.append(f"connection entry ({au.src(e.row)}, {au.src(e.col)}) is not magnitude * rect(1, phase)")
                    continue
                if (se[0], se[1]) != (sf[0], sf[1]):
                    problems.append(f"magnitudes of ({au.src(e.row)}, {au.src(e.col)}) and of its transpose differ")
                tot = vals_sym.poly(se[2], e.node) + vals_sym.poly(sf[2], f.node)
                ok = tot.is_zero()
                if not ok and len(tot.t) == 1:
                    (mono, c), = tot.t.items()
                    ok = sorted(mono) == ["order", "pi"] and c.denominator == 1 and int(c) % 2 == 0
                if not ok:
                    problems.append(f"phases of ({au.src(e.row)}, {au.src(e.col)}) and of its transpose sum to {tot}, not to a multiple of 2*pi*order: "
                                    f"the matrix is not Hermitian")
                # flat connection: the operator must be the scalar Laplacian for EVERY integer order
                vals_flat = Values(fn, flat=flat)
                for g, sg in ((e, se), (f, sf)):
                    ph = vals_flat.poly(sg[2], g.node)
                    if not _multiple_of_2pi(ph):
                        model = ("transport(j,i) = transport(i,j) + pi, the polar angles of the two directions of an edge (FlatConnectionVertices)"
                                 if flat == "vertex" else "transport = 0")
                        problems.append(f"for the flat connection ({model}) the phase of entry ({au.src(g.row)}, {au.src(g.col)}) is {ph}, "
                                        f"not a multiple of 2*pi for every integer order: the operator does not reduce to the scalar Laplacian (odd orders flip the sign)")
        ctx.check(not problems, rule, site, f"{label}: " + "; ".join(dict.fromkeys(problems)),
                  "a Laplacian must be symmetric (Hermitian with a connection) and annihilate constants" if not cplx else
                  "a connection Laplacian must be Hermitian and reduce to the scalar Laplacian for the trivial connection",
                  note=f"{label}: {len(emits)} direct + {sum(len(H.flat_emits(i)) for _, _, sp in nested for _, i in sp)} neighbour entries")
    return n_real, n_cplx


STENCILS = [  # function, antisymmetric transport assumed (checked by C08-T1), flat-connection model
    ("graph_laplacian", False, None), ("laplacian", False, "vertex"), ("laplacian_edges", True, "zero"),
    ("volume_laplacian", False, None), ("laplacian_tetrahedra", False, None),
]


def flat_premises(ctx):
    """the flat-connection models used by C08-S2 are read off processing/connection.py"""
    fn = ctx.repo.func(CONN, "FlatConnectionVertices.transport")
    b = sym.Bindings(fn)
    ps = au.params(fn, skip_self=True)
    r = [s for s in au.stmts(fn.body) if isinstance(s, ast.Return) and s.value is not None]
    ok = False
    if len(r) == 1 and len(ps) == 2:
        e = b.resolve(r[0].value, at=r[0])
        if isinstance(e, ast.Call) and au.call_tail(e) in ("arctan2", "atan2") and len(e.args) == 2:
            comps = []
            for a, want in zip(e.args, ("y", "x")):
                base = None
                if isinstance(a, ast.Attribute) and a.attr == want:
                    base = a.value
                elif isinstance(a, ast.Subscript) and au.const(a.slice) == (1 if want == "y" else 0):
                    base = a.value
                comps.append(base)
            if None not in comps and au.same(comps[0], comps[1]) and isinstance(comps[0], ast.BinOp) and isinstance(comps[0].op, ast.Sub):
                def vid(x):
                    return au.src(x.slice) if isinstance(x, ast.Subscript) and au.chain(x.value) and au.chain(x.value)[-1] == "vertices" else None
                ok = [vid(comps[0].left), vid(comps[0].right)] == [ps[1], ps[0]]
    ctx.check(ok, "C08-S2", ctx.site(CONN, fn), "FlatConnectionVertices.transport is not the polar angle atan2(E.y, E.x) of the edge vector E = P[iB] - P[iA]",
              "premise of the flat reduction: transport(j,i) = transport(i,j) + pi (mod 2*pi)", note="flat vertex transport = polar angle of the edge")
    fn = ctx.repo.func(CONN, "FlatConnectionFaces.transport")
    r = [s for s in au.stmts(fn.body) if isinstance(s, ast.Return)]
    ctx.check(len(r) == 1 and au.const(r[0].value) in (0, 0.0), "C08-S2", ctx.site(CONN, fn), "FlatConnectionFaces.transport does not return 0",
              "premise of the flat reduction for face / edge based operators", note="flat face transport = 0")


def s1_s2_stencils(ctx):
    nr = nc = 0
    flat_premises(ctx)
    for name, antisym, flat in STENCILS:
        fn = ctx.repo.func(LAP, name)
        st = H.Stencil(fn)
        us = units(st, fn.body)
        site = ctx.site(LAP, fn)
        if not us:
            ctx.fail("C08-S1", site, f"{name}: assembly loop not found (no rows/cols/values stores, add() calls or lil[i,j] stores)",
                     "the stencil of the operator can no longer be extracted")
            continue
        for node, msg in st.problems:
            ctx.fail("C08-N1", ctx.site(LAP, fn, node), f"{name}: {msg}", "entries are stored on top of each other or at the wrong slot")
        a = b = 0
        for loop, paths in us:
            x, y = analyse_unit(ctx, "C08-S1", "C08-S2", LAP, fn, loop, paths, antisym, flat or "zero")
            a, b = a + x, b + y
        if a == 0:
            ctx.fail("C08-S1", site, f"{name}: no real assembly path found", "")
        if b == 0 and "connection" in au.params(fn):
            ctx.fail("C08-S2", site, f"{name}: assembly path of the connection branch (entries of the form m * rect(1, phase)) not found",
                     "the function takes a connection but its complex stencil can no longer be extracted")
        nr, nc = nr + a, nc + b
    ctx.require_count("C08-S1 real stencil paths", nr, 2)


# ----------------------------------------------------------------------- C08-S2 (laplacian_triangles)
def _is_adjoint_of(e, name):
    """e is the conjugate transpose of Name `name`"""
    ops = []
    while True:
        if isinstance(e, ast.Call) and isinstance(e.func, ast.Attribute) and not e.args:
            ops.append(e.func.attr)
            e = e.func.value
        elif isinstance(e, ast.Attribute):
            ops.append(e.attr)
            e = e.value
        else:
            break
    if not (isinstance(e, ast.Name) and e.id == name):
        return False
    ops = sorted(ops)
    return ops in (["conj", "transpose"], ["T", "conj"], ["conjugate", "transpose"], ["T", "conjugate"], ["getH"], ["H"])


def s2_triangles(ctx):
    fn = ctx.repo.func(LAP, "laplacian_triangles")
    site = ctx.site(LAP, fn)
    b = sym.Bindings(fn)
    st = H.Stencil(fn)
    # the product pattern
    rets = [s for s in au.stmts(fn.body) if isinstance(s, ast.Return) and s.value is not None]
    n = 0
    for r in rets:
        chain = []
        e = r.value
        while isinstance(e, ast.BinOp) and isinstance(e.op, ast.MatMult):
            chain.insert(0, e.right)
            e = e.left
        chain.insert(0, e)
        n += 1
        ok = len(chain) in (2, 3) and isinstance(chain[-1], ast.Name)
        if ok:
            right = chain[-1].id
            left = b.resolve(chain[0], at=r, keep=(right,))
            ok = _is_adjoint_of(left, right)
            if ok and len(chain) == 3:
                d = b.resolve(chain[1], at=r)
                ok = isinstance(d, ast.Call) and au.call_tail(d) == "cotan_edge_diagonal"
        ctx.check(ok, "C08-S2", ctx.site(LAP, fn, r), f"laplacian_triangles: `{au.src(r.value)}` is not N^H @ [cotan_edge_diagonal] @ N",
                  "only the form (conjugate transpose of N) * (real diagonal) * N is Hermitian positive semi-definite by construction",
                  note="N^H [D] N")
    if n < 2:
        ctx.fail("C08-S2", site, f"laplacian_triangles: {n} returned product(s) found instead of the weighted and unweighted N^H N forms", "")
    fd = ctx.repo.func(LAP, "cotan_edge_diagonal")
    rd = [s for s in au.stmts(fd.body) if isinstance(s, ast.Return) and s.value is not None]
    ctx.check(len(rd) == 1 and isinstance(rd[0].value, ast.Call) and au.call_tail(rd[0].value) == "diags", "C08-S2", ctx.site(LAP, fd),
              "cotan_edge_diagonal does not return sp.diags(...)", "the middle factor must be diagonal")
    # rows of Nabla: -1 on one side, unit-modulus coefficient on the other
    us = units(st, fn.body)
    m = 0
    for loop, paths in us:
        for conds, items in paths:
            emits = H.flat_emits(items)
            if not emits:
                continue
            m += 1
            vals = Values(fn, unit_phase=True)
            tot = Poly()
            for e in emits:
                tot = tot + vals.poly(e.val, e.node)
            rows = {au.norm(e.row) for e in emits}
            cols = {au.norm(e.col) for e in emits}
            unit = all(not has_phase(e.val) or split_phase(e.val) is not None and split_phase(e.val)[0] in (1, -1) and split_phase(e.val)[1] == ((), ())
                       for e in emits)
            ok = len(emits) == 2 and len(rows) == 1 and len(cols) == 2 and tot.is_zero() and unit
            ctx.check(ok, "C08-S2", ctx.site(LAP, fn, emits[0].node),
                      f"laplacian_triangles: the dual-edge row emits {emits} - expected one -1 and one unit-modulus +1 entry in two different columns",
                      "each interior edge contributes the difference of its two faces; constants must be in the kernel when the connection is trivial",
                      note="Nabla row: -1 / +1 (or unit phase)")
    if m < 2:
        ctx.fail("C08-S2", site, f"laplacian_triangles: {m} assembly path(s) of the dual gradient N found instead of the real / connection pair", "")


# ----------------------------------------------------------------------- C08-S3
def _slot(e, var):
    """(stride, offset) if e == stride*var + offset"""
    try:
        p = sym.to_poly(e, opaque=False)
    except sym.NotPoly:
        return None
    c = p.coeff(var)
    rest = p.without(var)
    if c.is_const() and rest.is_const() and c.const_value().denominator == 1 and rest.const_value().denominator == 1 and p.degree_in(var) <= 1:
        return int(c.const_value()), int(rest.const_value())
    return None


def _edge_loop(loop):
    """(index var, [row names]) of `for e,(a,b) in enumerate(mesh.edges)` / `for e in mesh.id_edges`"""
    if isinstance(loop.iter, ast.Call) and au.call_tail(loop.iter) == "enumerate" and loop.iter.args \
            and au.chain(loop.iter.args[0]) and au.chain(loop.iter.args[0])[-1] == "edges" \
            and isinstance(loop.target, ast.Tuple) and len(loop.target.elts) == 2 and isinstance(loop.target.elts[0], ast.Name):
        r = loop.target.elts[1]
        names = [x.id for x in r.elts] if isinstance(r, (ast.Tuple, ast.List)) and all(isinstance(x, ast.Name) for x in r.elts) else []
        return loop.target.elts[0].id, names
    if au.chain(loop.iter) and au.chain(loop.iter)[-1] == "id_edges" and isinstance(loop.target, ast.Name):
        return loop.target.id, []
    if isinstance(loop.iter, ast.Call) and au.call_tail(loop.iter) == "range" and len(loop.iter.args) == 1 and isinstance(loop.target, ast.Name):
        return loop.target.id, []
    return None


def _adjacency_looped(ctx, fn, site, b, arrays, do_rc=True, do_vals=True):
    if True:
        d, r, c = arrays
        # stores per array, per enclosing loop
        stores = {d: [], r: [], c: []}
        for s in au.stmts(fn.body):
            if isinstance(s, ast.Assign) and len(s.targets) == 1 and isinstance(s.targets[0], ast.Subscript) \
                    and isinstance(s.targets[0].value, ast.Name) and s.targets[0].value.id in stores:
                loops = [a for a in au.ancestors(s) if isinstance(a, ast.For)]
                stores[s.targets[0].value.id].append((s, loops[0] if loops else None))
        # rows / cols
        problems = []
        if not do_rc:
            stores[r], stores[c] = [], []
        rc = {}
        for arr in (r, c):
            for s, lp in stores[arr]:
                el = _edge_loop(lp) if lp is not None else None
                sl = _slot(s.targets[0].slice, el[0]) if el else None
                if not el or sl is None or au.guards(s, stop=lp):
                    problems.append(f"`{au.src(s)}` is not an unconditional store at slot 2*e+k of the edge loop")
                    continue
                if sl in rc.get(arr, {}):
                    problems.append(f"slot {sl[0]}*e+{sl[1]} of {arr} is stored twice")
                rc.setdefault(arr, {})[sl] = (au.src(s.value), tuple(el[1]))
        if do_rc:
            if not problems:
                slots = sorted(rc.get(r, {}))
                if slots != [(2, 0), (2, 1)] or sorted(rc.get(c, {})) != slots:
                    problems.append(f"rows are stored at slots {sorted(rc.get(r, {}))}, cols at {sorted(rc.get(c, {}))}: expected 2*e and 2*e+1 for both")
                else:
                    (r0, ends), (r1, _) = rc[r][(2, 0)], rc[r][(2, 1)]
                    c0, c1 = rc[c][(2, 0)][0], rc[c][(2, 1)][0]
                    if not (r0 == c1 and r1 == c0 and r0 != r1 and {r0, r1} == set(ends) and len(ends) == 2):
                        problems.append(f"edge entries are ({r0},{c0}) and ({r1},{c1}): expected (a,b) and (b,a) for the endpoints {list(ends)}")
            ctx.check(not problems, "C08-S3", site, "adjacency_matrix: " + "; ".join(problems),
                      "M[i,j] = M[j,i] = w for every edge (i,j): both transposed positions must be written", note="rows/cols: (a,b) at 2e, (b,a) at 2e+1")
        # values per weight branch
        if not do_vals:
            return
        nb = 0
        val_assigns = [s for s in au.stmts(fn.body) if isinstance(s, ast.Assign) and any(isinstance(t, ast.Name) and t.id == d for t in s.targets)]
        for s in val_assigns:
            blk, owner = au.enclosing_block(s)
            nb += 1
            mine = [(x, lp) for x, lp in stores[d] if any(x is y for y in au.stmts(blk))]
            alloc = s.value
            bsite = ctx.site(ADJ, fn, s)
            if isinstance(alloc, ast.Call) and au.call_tail(alloc) in ("ones", "full"):
                ctx.check(not mine, "C08-S3", bsite, "adjacency_matrix: constant weights are overwritten in the same branch", "", note="constant weights")
                continue
            pr = []
            sl = {}
            for x, lp in mine:
                el = _edge_loop(lp) if lp is not None else None
                k = _slot(x.targets[0].slice, el[0]) if el else None
                if k is None or au.guards(x, stop=lp):
                    pr.append(f"`{au.src(x)}` is not an unconditional store at slot 2*e+k")
                else:
                    sl[k] = au.norm(b.resolve(x.value, at=x, keep=(el[0],)))
            if not pr and (sorted(sl) != [(2, 0), (2, 1)] or sl[(2, 0)] != sl[(2, 1)]):
                pr.append(f"the two entries of an edge receive different / missing weights (slots {sorted(sl)})")
            ctx.check(not pr, "C08-S3", bsite, "adjacency_matrix: " + "; ".join(pr),
                      "both entries (i,j) and (j,i) of an edge carry the same weight", note="equal weights at 2e and 2e+1")
        if nb < 3:
            ctx.fail("C08-S3", site, f"adjacency_matrix: {nb} weight branch(es) building `{d}` found instead of the three options (one / length / custom dict)", "")


# -- vectorised layouts of the adjacency triples -------------------------------------------------
def _edge_table(e):
    """is e the |E| x 2 integer table of the edges?  (np.array(mesh.edges).reshape((m, 2)) and the like)"""
    while isinstance(e, ast.Call) and isinstance(e.func, ast.Attribute) and e.func.attr in ("reshape", "astype", "copy"):
        if e.func.attr == "reshape":
            shp = e.args[0] if len(e.args) == 1 else ast.Tuple(elts=list(e.args), ctx=ast.Load())
            if not (isinstance(shp, ast.Tuple) and len(shp.elts) == 2 and au.const(shp.elts[1]) == 2):
                return False
        e = e.func.value
    return isinstance(e, ast.Call) and au.call_tail(e) in ("array", "asarray") and e.args and au.chain(e.args[0]) is not None \
        and au.chain(e.args[0])[-1] == "edges"


def _layout(e):
    """abstract layout of a vectorised expression over the edge table E:
    ('cols', (i, j)) = E with its columns ordered i, j; ('col', i); ('inter', i, j) = [c_i[0], c_j[0], c_i[1], c_j[1], ...];
    ('block', i, j) = [c_i..., c_j...]; None = not recognised"""
    if _edge_table(e):
        return ("cols", (0, 1))
    if isinstance(e, ast.Subscript) and isinstance(e.slice, ast.Tuple) and len(e.slice.elts) == 2:
        base = _layout(e.value)
        rows, col = e.slice.elts
        if base and base[0] == "cols" and isinstance(rows, ast.Slice) and rows.lower is None and rows.upper is None and rows.step is None:
            if isinstance(col, ast.Slice) and col.lower is None and col.upper is None and au.const(col.step) == -1:
                return ("cols", base[1][::-1])
            k = au.literal(col)
            if isinstance(k, int) and k in (0, 1, -1, -2):
                return ("col", base[1][k])
            if isinstance(k, list) and sorted(k) == [0, 1]:
                return ("cols", tuple(base[1][i] for i in k))
    if isinstance(e, ast.Call):
        t = au.call_tail(e)
        if t in ("fliplr",) and len(e.args) == 1:
            base = _layout(e.args[0])
            return ("cols", base[1][::-1]) if base and base[0] == "cols" else None
        if t == "flip" and len(e.args) >= 1 and any(k.arg == "axis" and au.const(k.value) in (1, -1) for k in e.keywords):
            base = _layout(e.args[0])
            return ("cols", base[1][::-1]) if base and base[0] == "cols" else None
        if t in ("flatten", "ravel") and isinstance(e.func, ast.Attribute) and not e.args:
            base = _layout(e.func.value)
            return ("inter",) + base[1] if base and base[0] == "cols" else None
        if t == "reshape" and isinstance(e.func, ast.Attribute) and len(e.args) == 1 and au.const(e.args[0]) == -1:
            base = _layout(e.func.value)
            return ("inter",) + base[1] if base and base[0] == "cols" else None
        if t in ("concatenate", "hstack") and len(e.args) >= 1 and isinstance(e.args[0], (ast.Tuple, ast.List)) and len(e.args[0].elts) == 2:
            parts = [_layout(x) for x in e.args[0].elts]
            if all(p and p[0] == "col" for p in parts):
                return ("block", parts[0][1], parts[1][1])
        if t in ("astype", "copy") and isinstance(e.func, ast.Attribute):
            return _layout(e.func.value)
    return None


def _value_layout(e):
    """'inter' for np.repeat(w, 2), 'block' for np.tile(w, 2) / concatenate((w, w))"""
    if isinstance(e, ast.Call):
        t = au.call_tail(e)
        if t == "repeat" and len(e.args) == 2 and au.const(e.args[1]) == 2:
            return "inter", e.args[0]
        if t == "tile" and len(e.args) == 2 and au.const(e.args[1]) == 2:
            return "block", e.args[0]
        if t in ("concatenate", "hstack") and e.args and isinstance(e.args[0], (ast.Tuple, ast.List)) and len(e.args[0].elts) == 2 \
                and au.same(e.args[0].elts[0], e.args[0].elts[1]):
            return "block", e.args[0].elts[0]
    return None


def _adjacency_vectorised(ctx, fn, site, b, arrays, ctor, do_rc=True, do_vals=True):
    d, r, c = arrays
    at = ctor
    lr, lc = _layout(b.resolve(ast.Name(id=r, ctx=ast.Load()), at=at)), _layout(b.resolve(ast.Name(id=c, ctx=ast.Load()), at=at))
    vl = _value_layout(b.resolve(ast.Name(id=d, ctx=ast.Load()), at=at))
    if not do_rc:
        lr = lc = ("inter", 0, 1)      # per-slot stores 2*e, 2*e+1 (checked by the store based rule) are the interleaved layout
    if not do_vals:
        vl = ("inter", None)
    if lr is None or lc is None or vl is None:
        what = [n for n, l in ((r, lr), (c, lc), (d, vl)) if l is None]
        ctx.fail("C08-S3", site, f"adjacency_matrix: neither per-edge stores at slots 2*e, 2*e+1 nor a recognised vectorised layout found for {', '.join(what)}",
                 "the two entries (a,b) and (b,a) of every edge and their common weight can no longer be related")
        return
    ok = lr[0] == lc[0] and lr[0] in ("inter", "block") and lr[1:] == lc[1:][::-1] and lr[1] != lr[2]
    if do_rc:
      ctx.check(ok, "C08-S3", site, f"adjacency_matrix: rows are laid out as {lr} and cols as {lc}: expected the same layout with the two endpoint columns swapped",
              "M[i,j] = M[j,i] = w for every edge (i,j): both transposed positions must be written", note=f"rows {lr} / cols {lc}")
    ctx.check(vl[0] == lr[0], "C08-S3", site, f"adjacency_matrix: values are laid out per edge as `{vl[0]}` but rows / cols as `{lr[0]}`",
              "the two entries of an edge must carry that edge's weight", note=f"values follow the {lr[0]} layout: both entries of an edge share its weight")


def _weights_lookup(ctx, fn, site):
    """custom weights are a dict edge id -> weight: every data read must be a lookup by the id of an edge"""
    if "weights" not in au.params(fn):
        ctx.fail("C08-S3", site, "adjacency_matrix: the `weights` option not found", "")
        return
    m = ctx.repo.module(ADJ)
    K = H.Kinds(ctx.repo, m.name, fn, H.make_attr_func_kind(ctx.repo, m.name))
    keyed = 0
    for n in au.walk(fn):
        if not (isinstance(n, ast.Name) and n.id == "weights" and isinstance(n.ctx, ast.Load)):
            continue
        par = au.parent(n)
        if isinstance(par, ast.Compare) or (isinstance(par, ast.Call) and au.call_tail(par) == "isinstance"):
            continue
        idx = None
        if isinstance(par, ast.Subscript) and par.value is n:
            idx = par.slice
        elif isinstance(par, ast.Attribute) and par.attr == "get" and isinstance(au.parent(par), ast.Call) and au.parent(par).args:
            idx = au.parent(par).args[0]
        if idx is not None:
            k = K.kind(idx, K._scope_of(par))
            keyed += 1
            ctx.check(k == "edges", "C08-S3", ctx.site(ADJ, fn, par),
                      f"adjacency_matrix: custom weight `{au.src(par)}` is looked up with `{au.src(idx)}`, which is not known to be the id of an edge"
                      + (f" (it is an id of {k})" if isinstance(k, str) else ""),
                      "weights is a dict edge_id -> weight", note="custom weight looked up by edge id")
        else:
            use = au.src(au.parent(par)) if isinstance(par, ast.Attribute) else au.src(par)
            ctx.fail("C08-S3", ctx.site(ADJ, fn, n), f"adjacency_matrix: custom weights are read through `{use[:80]}` instead of a lookup `weights[e]` by the id of the edge being emitted",
                     "weights is a dict edge_id -> weight: taking its values in iteration (insertion) order attaches them to the wrong edges as soon as the "
                     "dict was not filled in increasing edge order")
    if keyed == 0:
        ctx.fail("C08-S3", site, "adjacency_matrix: lookup `weights[e]` of the custom weight of an edge not found",
                 "the custom dict option must read the weight of each edge under that edge's id")


def s3_adjacency(ctx):
    fn = ctx.repo.func(ADJ, "adjacency_matrix")
    site = ctx.site(ADJ, fn)
    b = sym.Bindings(fn)
    arrays, ctor = H.coo_arrays(fn)
    _weights_lookup(ctx, fn, site)
    if not arrays:
        ctx.fail("C08-S3", site, "adjacency_matrix: sparse constructor `coo_matrix((vals, (rows, cols)))` not found", "")
    else:
        def stored(names):
            return any(isinstance(s, ast.Assign) and len(s.targets) == 1 and isinstance(s.targets[0], ast.Subscript)
                       and isinstance(s.targets[0].value, ast.Name) and s.targets[0].value.id in names for s in au.stmts(fn.body))
        rc_loop, val_loop = stored(arrays[1:]), stored(arrays[:1])
        ones = any(isinstance(v, ast.Call) and au.call_tail(v) in ("ones", "full") for s in au.stmts(fn.body) for nm, v in sym.split_assign(s) if nm == arrays[0])
        val_loop = val_loop or (ones and rc_loop)
        if rc_loop or val_loop:
            _adjacency_looped(ctx, fn, site, b, arrays, do_rc=rc_loop, do_vals=val_loop)
        if not (rc_loop and val_loop):
            _adjacency_vectorised(ctx, fn, site, b, arrays, ctor, do_rc=not rc_loop, do_vals=not val_loop)
    # vertex_to_edge_operator
    fn = ctx.repo.func(ADJ, "vertex_to_edge_operator")
    site = ctx.site(ADJ, fn)
    b = sym.Bindings(fn)
    st = H.Stencil(fn)
    us = units(st, fn.body)
    ok, why = False, "assembly loop over the edges not found"
    if len(us) == 1:
        loop, paths = us[0]
        el = _edge_loop(loop)
        emits = H.flat_emits(paths[0][1]) if len(paths) == 1 else []
        if el and len(el[1]) == 2 and len(emits) == 2 and not paths[0][0]:
            by_row = {au.src(e.row): e for e in emits}
            why = f"entries {emits}"
            if set(by_row) == set(el[1]) and all(au.src(e.col) == el[0] for e in emits):
                orig = b.resolve(by_row[el[1][0]].val, at=by_row[el[1][0]].node)
                dest = b.resolve(by_row[el[1][1]].val, at=by_row[el[1][1]].node)
                ok = au.const(dest) == 1 and isinstance(orig, ast.IfExp) and isinstance(orig.test, ast.Name) and orig.test.id == "oriented" \
                    and au.const(orig.body) == -1 and au.const(orig.orelse) == 1
                why = f"origin coefficient `{au.src(orig)}`, arrival coefficient `{au.src(dest)}`"
    ctx.check(ok, "C08-S3", site, f"vertex_to_edge_operator: not one entry per endpoint in column e with origin -1 iff oriented ({why})",
              "M[v,e] = 1 for both ends, and -1 at the origin (first vertex of the edge) when oriented", note="one entry per endpoint; origin -1 iff oriented")
    # vertex_to_face_operator
    fn = ctx.repo.func(ADJ, "vertex_to_face_operator")
    site = ctx.site(ADJ, fn)
    b = sym.Bindings(fn)
    st = H.Stencil(fn)
    ok, why = False, "assembly loop `for iT,T in enumerate(mesh.faces): for V in T` not found"
    for loop in [s for s in au.stmts(fn.body) if isinstance(s, ast.For)]:
        paths = st.paths(loop.body)
        emits = [e for _, it in paths for e in H.flat_emits(it)]
        if not emits:
            continue
        outer = [a for a in au.ancestors(loop) if isinstance(a, ast.For)]
        if len(emits) == 1 and len(paths) == 1 and not paths[0][0] and outer and isinstance(outer[0].target, ast.Tuple) \
                and len(outer[0].target.elts) == 2 and all(isinstance(x, ast.Name) for x in outer[0].target.elts) \
                and isinstance(outer[0].iter, ast.Call) and au.call_tail(outer[0].iter) == "enumerate" and not au.guards(loop, stop=outer[0]):
            e = emits[0]
            fi, row = (x.id for x in outer[0].target.elts)
            v = b.resolve(e.val, at=e.node, keep=(row,))
            coef, num, den = H.factors(v)
            val_ok = coef == 1 and not num and len(den) == 1 and au.src(den[0]) == f"len({row})"
            ok = val_ok and au.src(loop.iter) == row and isinstance(loop.target, ast.Name) and au.src(e.col) == loop.target.id and au.src(e.row) == fi
            why = f"entry ({au.src(e.row)}, {au.src(e.col)}) = {au.src(v)} for {au.src(loop.target)} in {au.src(loop.iter)}"
    ctx.check(ok, "C08-S3", site, f"vertex_to_face_operator: not one entry 1/len(T) per vertex of every face ({why})",
              "averaging operator: each row sums to one and has one entry per incidence", note="1/len(T) per incidence")


# ----------------------------------------------------------------------- C08-S4
def _gradient_branch(ctx, fn, loop, st, b, kinds):
    """-> dict vertex -> {'re': Poly, 'im': Poly}, coords vertex -> (x, y), problems, slots"""
    problems = []
    if not (isinstance(loop.target, ast.Tuple) and len(loop.target.elts) == 2 and isinstance(loop.target.elts[0], ast.Name)
            and isinstance(loop.target.elts[1], (ast.Tuple, ast.List)) and len(loop.target.elts[1].elts) == 3
            and all(isinstance(x, ast.Name) for x in loop.target.elts[1].elts)):
        return None, None, ["loop is not `for iT,(A,B,C) in enumerate(mesh.faces)`"], []
    fi = loop.target.elts[0].id
    verts = [x.id for x in loop.target.elts[1].elts]
    coords = {}
    for s in loop.body:
        if isinstance(s, ast.Assign) and isinstance(s.targets[0], ast.Tuple) and len(s.targets[0].elts) == 2 \
                and isinstance(s.value, ast.Call) and au.call_tail(s.value) == "project" and len(s.value.args) == 2:
            p = s.value.args[0]
            if isinstance(p, ast.Subscript) and au.chain(p.value) and au.chain(p.value)[-1] == "vertices" and isinstance(p.slice, ast.Name) \
                    and au.src(s.value.args[1]) == fi and all(isinstance(t, ast.Name) for t in s.targets[0].elts):
                coords[p.slice.id] = tuple(t.id for t in s.targets[0].elts)
    if set(coords) != set(verts):
        problems.append(f"local coordinates are projected for {sorted(coords)} instead of the three vertices {verts} in the basis of face {fi}")
    emits = [e for s in loop.body for e in st.emits_of(s)]
    out = {}
    slots = []
    for e in emits:
        v = b.resolve(e.val, at=e.node, keep=tuple(x for xy in coords.values() for x in xy) + (fi,))
        coef, num, den = H.factors(v)
        # value = numerator / (2 * area[face]); after resolution the 2 sits in the rational coefficient
        den_ok = len(den) == 1 and isinstance(den[0], ast.Subscript) and isinstance(den[0].value, ast.Name) \
            and au.src(den[0].slice) == fi and kinds.kind(den[0].value) == ("idx", "faces")
        if not den_ok:
            problems.append(f"`{au.src(e.val)}` is not divided by (a multiple of) the area of face {fi}")
        coef = coef * 2
        col = au.src(e.col)
        if col not in verts:
            problems.append(f"column `{col}` is not a vertex of the face")
            continue
        rowp = sym.to_poly(e.row)
        slots.append(e.slot)
        if len(num) == 1 and isinstance(num[0], ast.Call) and au.call_tail(num[0]) == "complex" and len(num[0].args) == 2:
            if not (rowp == Poly.atom(fi)):
                problems.append(f"complex entry of {col} is stored in row {au.src(e.row)}, not {fi}")
            out.setdefault(col, {})["re"] = sym.to_poly(num[0].args[0]).scale(coef)
            out.setdefault(col, {})["im"] = sym.to_poly(num[0].args[1]).scale(coef)
        else:
            part = None
            if rowp == Poly.atom(fi).scale(2):
                part = "re"
            elif rowp == Poly.atom(fi).scale(2) + 1:
                part = "im"
            if part is None:
                problems.append(f"real entry of {col} is stored in row {au.src(e.row)} (expected 2*{fi} for the x part, 2*{fi}+1 for the y part)")
                continue
            if part in out.get(col, {}):
                problems.append(f"two entries for the {part} part of vertex {col}")
            numer = ast.Constant(value=1)
            p = Poly.const(coef)
            for x in num:
                p = p * sym.to_poly(x)
            out.setdefault(col, {})[part] = p
    return out, coords, problems, (fi, verts, emits)


def s4_gradient(ctx):
    fn = ctx.repo.func(GRAD, "gradient")
    site = ctx.site(GRAD, fn)
    b = sym.Bindings(fn)
    st = H.Stencil(fn)
    loops = [s for s in au.stmts(fn.body) if isinstance(s, ast.For) and any(st.emits_of(x) for x in s.body)]
    st.problems = []
    mod = ctx.repo.module(GRAD)
    kinds = H.Kinds(ctx.repo, mod.name, fn, H.make_attr_func_kind(ctx.repo, mod.name))
    if len(loops) != 2:
        ctx.fail("C08-S4", site, f"gradient: {len(loops)} assembly loop(s) found instead of the complex / real pair", "")
        return
    res = []
    for lp in loops:
        out, coords, problems, info = _gradient_branch(ctx, fn, lp, st, b, kinds)
        lsite = ctx.site(GRAD, fn, lp)
        g = au.guards(lp)
        label = "complex" if g and g[0][1] and "as_complex" in au.src(g[0][0]) else "real"
        if out is None or problems:
            ctx.fail("C08-S4", lsite, f"gradient[{label}]: " + "; ".join(problems), "the per-face gradient coefficients cannot be read")
            continue
        fi, verts, emits = info
        full = all(set(out.get(v, {})) == {"re", "im"} for v in verts)
        if not full:
            ctx.fail("C08-S4", lsite, f"gradient[{label}]: not every vertex of the face has an x and a y coefficient", "")
            continue
        zero = Poly()
        sre = sum((out[v]["re"] for v in verts), zero)
        sim = sum((out[v]["im"] for v in verts), zero)
        ctx.check(sre.is_zero() and sim.is_zero(), "C08-S4", lsite,
                  f"gradient[{label}]: the three coefficients of a face sum to ({sre}, {sim}) instead of zero",
                  "the gradient of a constant function must vanish", note=f"{label}: coefficient sum is the zero form")
        # affine exactness
        X = {v: Poly.atom(coords[v][0]) for v in verts}
        Y = {v: Poly.atom(coords[v][1]) for v in verts}
        A, B, C = verts
        D = (X[B] - X[A]) * (Y[C] - Y[A]) - (X[C] - X[A]) * (Y[B] - Y[A])
        gxx = sum((out[v]["re"] * X[v] for v in verts), zero)
        gxy = sum((out[v]["im"] * X[v] for v in verts), zero)
        gyx = sum((out[v]["re"] * Y[v] for v in verts), zero)
        gyy = sum((out[v]["im"] * Y[v] for v in verts), zero)
        ok = gxx == D and gyy == D and gxy.is_zero() and gyx.is_zero()
        ctx.check(ok, "C08-S4", lsite,
                  f"gradient[{label}]: applied to the local coordinates (x, y) the numerators give [[{gxx}, {gxy}], [{gyx}, {gyy}]] "
                  f"instead of twice the signed area times the identity",
                  "the gradient of an affine function must be its constant gradient: grad x = (1,0), grad y = (0,1) in the face basis",
                  note=f"{label}: exact on affine functions")
        # slots
        sl = [_slot(e.slot, fi) for e in emits]
        nslot = len(emits)
        ctx.check(None not in sl and sorted(sl) == [(nslot, k) for k in range(nslot)], "C08-N1", lsite,
                  f"gradient[{label}]: entries are stored at slots {[au.src(e.slot) for e in emits]}: expected {nslot}*{fi}+0..{nslot - 1}",
                  "two entries stored at one slot lose a coefficient", note=f"{label}: {nslot} distinct slots per face")
        res.append((label, out, verts))
    for node, msg in st.problems:
        ctx.fail("C08-N1", ctx.site(GRAD, fn, node), f"gradient: {msg}", "")
    if len(res) == 2:
        (l1, o1, v1), (l2, o2, v2) = res
        same = all(o1[a]["re"] == o2[c]["re"] and o1[a]["im"] == o2[c]["im"] for a, c in zip(v1, v2))
        # the two loops may name their locals differently: compare positionally after renaming is not needed when names coincide
        ctx.check(same, "C08-S4", site, "gradient: the complex and the real branch disagree on a coefficient (Re <-> row 2iT, Im <-> row 2iT+1)",
                  "as_complex only changes the storage: G_real[2f] + i G_real[2f+1] must equal G_complex[f]", note="real / complex branches agree slot by slot")
    # shape of the real branch is doubled
    arrays, ctor = H.coo_arrays(fn)
    shape = [k.value for k in (ctor.keywords if ctor else []) if k.arg == "shape"]
    ok = False
    if shape and isinstance(shape[0], ast.Tuple) and isinstance(shape[0].elts[0], ast.Name):
        M = shape[0].elts[0].id
        real_loop = [lp for lp in loops if au.guards(lp) and not au.guards(lp)[0][1]]
        if real_loop:
            blk, _ = au.enclosing_block(real_loop[0])
            for s in blk:
                if isinstance(s, ast.AugAssign) and isinstance(s.target, ast.Name) and s.target.id == M and isinstance(s.op, ast.Mult) and au.const(s.value) == 2:
                    ok = True
                if isinstance(s, ast.Assign) and isinstance(s.targets[0], ast.Name) and s.targets[0].id == M and sym.to_poly(s.value) == Poly.atom(M).scale(2):
                    ok = True
        bases = [v for x in au.stmts(fn.body) for nm, v in sym.split_assign(x) if nm == M and isinstance(v, ast.Call) and au.call_tail(v) == "len"]
        ok = ok and len(bases) == 1 and au.chain(bases[0].args[0]) is not None and au.chain(bases[0].args[0])[-1] == "faces"
    ctx.check(ok, "C08-S4", site, "gradient: the real branch does not double the number of rows of the |F| x |V| shape",
              "rows 2*iT and 2*iT+1 need 2|F| rows", note="real branch has 2|F| rows")


# ----------------------------------------------------------------------- C08-M1
MASS_KIND = {
    "area_weight_matrix": ("vertices", "faces"), "area_weight_matrix_faces": ("faces", "faces"),
    "area_weight_matrix_edges": ("edges", "faces"), "volume_weight_matrix": ("vertices", "cells"),
    "volume_weight_matrix_cells": ("cells", "cells"),
}


def m1_mass(ctx):
    m = ctx.repo.module(MASS)
    resolver = H.make_attr_func_kind(ctx.repo, m.name)
    for name, (kind, measure) in MASS_KIND.items():
        fn = ctx.repo.func(MASS, name)
        site = ctx.site(MASS, fn)
        K = H.Kinds(ctx.repo, m.name, fn, resolver)
        rets = [s for s in au.stmts(fn.body) if isinstance(s, ast.Return) and s.value is not None]
        problems = []
        diag = None
        if len(rets) == 1 and isinstance(rets[0].value, ast.Call) and au.call_tail(rets[0].value) == "diags" and rets[0].value.args \
                and isinstance(rets[0].value.args[0], ast.Name):
            diag = rets[0].value.args[0].id
        else:
            problems.append("does not return sp.diags(<array>)")
        if diag:
            k = K.name_kind(diag)
            if k != ("idx", kind):
                problems.append(f"the diagonal `{diag}` is {'indexed by ' + str(k[1]) if isinstance(k, tuple) else 'of unknown indexing'}, expected one entry per element of {kind}")
            accs = [s for s in au.stmts(fn.body) if isinstance(s, ast.AugAssign) and isinstance(s.target, ast.Subscript)
                    and isinstance(s.target.value, ast.Name) and s.target.value.id == diag]
            if kind != measure:
                if len(accs) != 1 or not isinstance(accs[0].op, ast.Add):
                    problems.append(f"{len(accs)} accumulation(s) `{diag}[i] += measure[j]` found (expected one)")
                else:
                    a = accs[0]
                    coef, num, den = H.factors(a.value)
                    meas = [x for x in num if isinstance(x, ast.Subscript) and K.kind(x.value) == ("idx", measure)]
                    if len(meas) != 1 or len(num) != 1 or den:
                        problems.append(f"`{au.src(a)}` does not add the {measure[:-1]} measure of the incident element")
                    loops = [x for x in au.ancestors(a) if isinstance(x, ast.For)]
                    if kind == "vertices":
                        # for i,row in enumerate(mesh.<measure>): for u in row: (unguarded)
                        rowvar = loops[1].target.elts[1] if len(loops) == 2 and isinstance(loops[1].target, ast.Tuple) and len(loops[1].target.elts) == 2 else None
                        ok = len(loops) == 2 and not au.guards(a) and K.kind(loops[1].iter) == ("seq", ("tup", (measure, ("row", measure)))) \
                            and isinstance(rowvar, ast.Name) and isinstance(loops[0].iter, ast.Name) and loops[0].iter.id == rowvar.id and coef == 1 \
                            and not any(isinstance(x, (ast.Continue, ast.Break)) for lp in loops for x in au.stmts(lp.body))
                        if not ok:
                            problems.append(f"`{au.src(a)}` is not executed once for every (element, vertex) incidence of mesh.{measure} with weight 1")
                    else:
                        gs = [au.src(t) for t, pol in au.guards(a)]
                        skips = [s for lp in loops[:1] for s in lp.body if isinstance(s, ast.If)]
                        ok = len(loops) == 2 and coef > 0
                        if not ok:
                            problems.append(f"`{au.src(a)}` is not accumulated over the elements incident to each {kind[:-1]}")
            else:
                srcs = [s for s in au.stmts(fn.body) if isinstance(s, ast.Assign) and isinstance(s.value, ast.Call)
                        and au.call_tail(s.value) == "as_array" and any(isinstance(t, ast.Name) and t.id == diag for t in s.targets)]
                if len(srcs) != 1 or K.kind(srcs[0].value.func.value) != ("idx", measure) or accs:
                    problems.append(f"the diagonal is not the {measure[:-1]} measure attribute itself (`attr.as_array(len(mesh.{measure}))`)")
                elif len(srcs[0].value.args) != 1 or K.kind(srcs[0].value.args[0]) != ("len", measure):
                    problems.append(f"`{au.src(srcs[0].value)}` does not size the array by len(mesh.{measure}) (a sparse attribute is expanded to that length)")
            # switches
            ps = au.params(fn)
            for sw, test in (("sqrt", lambda v: isinstance(v, ast.Call) and au.call_tail(v) == "sqrt" and au.src(v.args[0]) == diag),
                             ("inverse", lambda v: isinstance(v, ast.BinOp) and isinstance(v.op, ast.Div) and au.const(v.left) in (1, 1.0) and au.src(v.right) == diag)):
                if sw not in ps:
                    continue
                hit = [s for s in fn.body if isinstance(s, ast.If) and isinstance(s.test, ast.Name) and s.test.id == sw and not s.orelse
                       and len(s.body) == 1 and isinstance(s.body[0], ast.Assign) and au.src(s.body[0].targets[0]) == diag and test(s.body[0].value)]
                if len(hit) != 1:
                    problems.append(f"the `{sw}` switch does not rebind the diagonal to {'np.sqrt(d)' if sw == 'sqrt' else '1/d'}")
        ctx.check(not problems, "C08-M1", site, f"{name}: " + "; ".join(problems),
                  "a lumped mass matrix is diagonal with one positive entry per element, the sum over incident measures",
                  note=f"{name}: sp.diags over {kind}, measure on {measure}")


# ----------------------------------------------------------------------- C08-K1 (matrix axes)
def k1_matrix_axes(ctx):
    """kinds of the rows / columns emitted against the declared shape"""
    n = 0
    for modname, name in ((LAP, "graph_laplacian"), (ADJ, "adjacency_matrix"), (GRAD, "gradient")):
        fn = ctx.repo.func(modname, name)
        m = ctx.repo.module(modname)
        K = H.Kinds(ctx.repo, m.name, fn, H.make_attr_func_kind(ctx.repo, m.name))
        st = H.Stencil(fn)
        arrays, ctor = st.arrays, st.ctor
        shape = [k.value for k in (ctor.keywords if ctor else []) if k.arg == "shape"]
        if not arrays or not shape or not isinstance(shape[0], ast.Tuple) or len(shape[0].elts) != 2:
            ctx.fail("C08-K1", ctx.site(modname, fn), f"{name}: sparse constructor with an explicit shape not found", "")
            continue
        want = []
        for x in shape[0].elts:
            k = K.kind(x)
            want.append(k[1] if isinstance(k, tuple) and k[0] == "len" else None)
        d, r, c = arrays
        for s in au.walk(fn):
            pairs = []
            if isinstance(s, ast.Assign) and len(s.targets) == 1:
                t, v = s.targets[0], s.value
                if isinstance(t, ast.Tuple) and isinstance(v, ast.Tuple) and len(t.elts) == len(v.elts):
                    pairs = list(zip(t.elts, v.elts))
                else:
                    pairs = [(t, v)]
                for e in st.emits_of(s) if st.helper else []:
                    pairs += [(ast.Subscript(value=ast.Name(id=r, ctx=ast.Load()), slice=e.slot, ctx=ast.Store()), e.row),
                              (ast.Subscript(value=ast.Name(id=c, ctx=ast.Load()), slice=e.slot, ctx=ast.Store()), e.col)]
            for t, v in pairs:
                if isinstance(t, ast.Subscript) and isinstance(t.value, ast.Name) and t.value.id in (r, c):
                    axis = 0 if t.value.id == r else 1
                    got = K.kind(v, K._scope_of(s))
                    if want[axis] and isinstance(got, str) and got in H.CONTAINERS:
                        n += 1
                        ctx.check(got == want[axis], "C08-K1", ctx.site(modname, fn, s),
                                  f"{name}: {'row' if axis == 0 else 'column'} index `{au.src(v)}` is an id of {got} but that axis has one line per element of {want[axis]}",
                                  "entries land on lines of the wrong element kind (or beyond the shape)",
                                  note=f"{name}: {'rows' if axis == 0 else 'cols'} are {want[axis]} ids")
    ctx.require_count("C08-K1 typed row/col stores", n, 2)


# ----------------------------------------------------------------------- C08-O1
def _binding_stmt(name, at):
    """nearest statement before `at` (same or enclosing blocks) that binds `name`"""
    cur = au.enclosing_stmt(at)
    while cur is not None and not isinstance(cur, (ast.FunctionDef, ast.AsyncFunctionDef)):
        blk, owner = au.enclosing_block(cur)
        if blk is None:
            return None
        idx = [id(x) for x in blk].index(id(cur))
        for s in reversed(blk[:idx]):
            if sym.Bindings._assigns(s, name):
                return s
        if isinstance(owner, (ast.For, ast.AsyncFor)) and name in au.assigned_names(owner.target):
            return owner
        cur = owner
    return None


def opposite_index_sites(fn):
    """subscripts / sums of the form 3 - iu - iv : yields (node, [iu, iv])"""
    for n in au.walk(fn):
        if isinstance(n, ast.BinOp) and isinstance(n.op, ast.Sub) and not (isinstance(au.parent(n), ast.BinOp) and isinstance(au.parent(n).op, (ast.Sub, ast.Add))):
            p = sym.to_poly(n, opaque=True)
            neg = [k[0] for k, v in p.t.items() if len(k) == 1 and v == -1]
            if p.const_value() == 3 and len(neg) == 2 and not any(x.startswith("\u27e8") for x in neg):
                others = [k for k, v in p.t.items() if k and not (len(k) == 1 and v == -1)]
                yield n, neg, others


def o1_opposite(ctx):
    # (a) laplacian: weight of edge (x,y) is the half cotangent at the third vertex
    fn = ctx.repo.func(LAP, "laplacian")
    site = ctx.site(LAP, fn)
    b = sym.Bindings(fn)
    lits = [s for s in au.stmts(fn.body) if isinstance(s, ast.For) and isinstance(s.iter, (ast.List, ast.Tuple))
            and all(isinstance(x, ast.Tuple) and len(x.elts) == 3 for x in s.iter.elts)]
    if len(lits) != 1:
        ctx.fail("C08-O1", site, "laplacian: literal loop over the three (edge, weight) triples of a face not found", "")
    else:
        lp = lits[0]
        outer = [a for a in au.ancestors(lp) if isinstance(a, ast.For)]
        verts = []
        if outer and isinstance(outer[0].target, ast.Tuple) and len(outer[0].target.elts) == 2 and isinstance(outer[0].target.elts[1], (ast.Tuple, ast.List)):
            verts = [x.id for x in outer[0].target.elts[1].elts if isinstance(x, ast.Name)]
        problems = []
        edges = set()
        weights_of = {}
        # weights: every definition of the weight names (both cotan branches)
        for s in au.stmts(outer[0].body if outer else []):
            for name, v in sym.split_assign(s):
                weights_of.setdefault(name, []).append((v, s))
        for t in lp.iter.elts:
            x, y, w = (au.src(e) for e in t.elts)
            if x == y or x not in verts or y not in verts or frozenset((x, y)) in edges:
                problems.append(f"({x}, {y}) is not a new edge of the face {verts}")
                continue
            edges.add(frozenset((x, y)))
            third = [v for v in verts if v not in (x, y)]
            defs = weights_of.get(w, [])
            if not defs:
                problems.append(f"weight `{w}` of edge ({x}, {y}) has no definition in the face loop")
            for v, s in defs:
                coef, num, den = H.factors(v)
                if coef != Fraction(1, 2) or den:
                    problems.append(f"weight `{w}` = `{au.src(v)}` is not one half of a cotangent (coefficient {coef})")
                if num:
                    call = [c for c in au.calls(num[0]) if au.call_tail(c) == "vertex_to_corner_in_face"]
                    at_v = au.src(call[0].args[0]) if call and call[0].args else None
                    if len(num) != 1 or at_v is None:
                        problems.append(f"weight `{w}` = `{au.src(v)}` is not cot[corner of a vertex in the face]/2")
                    elif [at_v] != third:
                        problems.append(f"edge ({x}, {y}) is weighted by the cotangent at {at_v}, the opposite vertex is {third[0] if third else '?'}")
        if len(edges) != 3 and not problems:
            problems.append(f"{len(edges)} edges of the triangle are assembled")
        ctx.check(not problems, "C08-O1", ctx.site(LAP, fn, lp), "laplacian: " + "; ".join(dict.fromkeys(problems)),
                  "cotangent Laplacian: w_xy = (cot at the vertex opposite to edge xy) / 2 per triangle",
                  note="each edge weighted by half the opposite cotangent")
    # (b) opposite local index 3 - iu - iv uses the indices returned for that very face
    n = 0
    for modname, name in ((LAP, "cotan_edge_diagonal"), ("attributes.attr_edges", "cotan_weights")):
        fn = ctx.repo.func(modname, name)
        if not list(opposite_index_sites(fn)):
            ctx.fail("C08-O1", ctx.site(modname, fn), f"{name}: opposite local index `3 - iu - iv` not found",
                     "the corner / vertex opposite to an edge in a triangle is no longer addressed through the local indices of the edge")
        for node, neg, others in opposite_index_sites(fn):
            n += 1
            st = au.enclosing_stmt(node)
            defs = [_binding_stmt(x, node) for x in neg]
            ok = defs[0] is not None and defs[0] is defs[1] and isinstance(defs[0], ast.Assign) and isinstance(defs[0].value, ast.Call) \
                and au.call_tail(defs[0].value) == "direct_face" and isinstance(defs[0].targets[0], ast.Tuple) and len(defs[0].targets[0].elts) == 3
            face_ok = True
            detail = ""
            if ok:
                tnames = [au.src(t) for t in defs[0].targets[0].elts]
                face = tnames[0]
                ok = set(neg) == set(tnames[1:])
                # the face whose row / first corner is addressed
                used = None
                par = au.parent(node)
                if isinstance(par, ast.Subscript) and par.slice is node and isinstance(par.value, ast.Subscript):
                    used = au.src(par.value.slice)
                else:
                    for c in au.calls(st):
                        if au.call_tail(c) == "face_to_first_corner" and c.args:
                            used = au.src(c.args[0])
                if used is not None:
                    face_ok = used == face and _binding_stmt(face, node) is defs[0]
                    detail = f" (face addressed: {used}, indices returned for {face})"
            ctx.check(ok and face_ok, "C08-O1", ctx.site(modname, fn, node),
                      f"{name}: opposite local index `{au.src(node)}` does not combine the two local indices returned by one direct_face(.., True) call "
                      f"for the face it addresses{detail}",
                      "in a triangle the third vertex has local index 3 - iu - iv only when iu, iv are the positions of the edge in that same face",
                      note=f"{name}: 3 - iu - iv from one direct_face call")
    ctx.require_count("C08-O1 opposite index sites", n, 1)


# ----------------------------------------------------------------------- C08-N1
def _len_atom(b, e, at):
    def f(x):
        if isinstance(x, ast.Call) and au.call_tail(x) == "len" and len(x.args) == 1:
            return "len(" + au.src(b.resolve(x.args[0], at=at)) + ")"
        return None
    return sym.to_poly(b.resolve(e, at=at), atom_of=f)


def _alloc_size(fn, b, arr):
    for s in au.stmts(fn.body):
        for name, v in sym.split_assign(s):
            if name == arr and isinstance(v, ast.Call) and au.call_tail(v) in ("zeros", "ones", "empty") and v.args:
                return _len_atom(b, v.args[0], s), s
    return None, None


def n1_allocation(ctx):
    n = 0
    for modname, name in ((LAP, "laplacian"), (LAP, "laplacian_edges"), (LAP, "graph_laplacian"), (ADJ, "adjacency_matrix"), (GRAD, "gradient")):
        fn = ctx.repo.func(modname, name)
        site = ctx.site(modname, fn)
        b = sym.Bindings(fn)
        st = H.Stencil(fn)
        if not st.arrays:
            ctx.fail("C08-N1", site, f"{name}: COO arrays not found", "")
            continue
        if name in ("adjacency_matrix",):
            # fixed slots 2*e+k over the edges
            for arr in st.arrays:
                allocs = [(v, s) for s in au.stmts(fn.body) for nm, v in sym.split_assign(s) if nm == arr and isinstance(v, ast.Call) and v.args
                          and au.call_tail(v) in ("zeros", "ones", "empty", "full")]
                for v, s in allocs:
                    n += 1
                    size = _len_atom(b, v.args[0], s)
                    ctx.check(size == Poly.atom("len(mesh.edges)").scale(2), "C08-N1", ctx.site(modname, fn, s),
                              f"{name}: `{arr}` is allocated with {size} entries, two per edge are stored", "slots 2*e and 2*e+1 for every edge need 2|E| entries",
                              note=f"{arr}: 2|E| entries")
            continue
        if name == "gradient":
            for s in au.stmts(fn.body):
                pairs = list(sym.split_assign(s))
                for nm, v in pairs:
                    if nm in st.arrays and isinstance(v, ast.Call) and v.args:
                        n += 1
                        size = _len_atom(b, v.args[0], s)
                        want = 3 if au.guards(s) and au.guards(s)[0][1] else 6
                        ctx.check(size == Poly.atom("len(mesh.faces)").scale(want), "C08-N1", ctx.site(modname, fn, s),
                                  f"{name}: `{nm}` is allocated with {size} entries in the branch that stores {want} per face", "",
                                  note=f"{nm}: {want}|F| entries")
            continue
        us = units(st, fn.body)
        size, alloc_st = _alloc_size(fn, b, st.arrays[0])
        if size is None or not us:
            ctx.fail("C08-N1", site, f"{name}: allocation of `{st.arrays[0]}` or assembly loop not found", "")
            continue
        total = Poly()
        for loop, paths in us:
            counts = set()
            extra = Poly()
            for conds, items in paths:
                c = len(H.flat_emits(items))
                for x in items:
                    if isinstance(x, tuple) and x[0] == "loop" and any(H.flat_emits(i) for _, i in x[2]):
                        it = b.resolve(x[1].iter, at=x[1])
                        if isinstance(it, ast.Call) and au.call_tail(it) == "vertex_to_vertices":
                            extra = Poly.atom("len(mesh.edges)").scale(2 * max(len(H.flat_emits(i)) for _, i in x[2]))   # handshake: sum of degrees = 2|E|
                        else:
                            extra = Poly.atom("?")
                counts.add(c)
            # trip count of the unit: product of enclosing loops
            trip = Poly.const(1)
            for lp in [loop] + [a for a in au.ancestors(loop) if isinstance(a, ast.For)]:
                it = lp.iter
                if isinstance(it, (ast.List, ast.Tuple)):
                    trip = trip * len(it.elts)
                elif isinstance(it, ast.Call) and au.call_tail(it) == "enumerate" and it.args:
                    trip = trip * Poly.atom("len(" + au.src(b.resolve(it.args[0], at=lp)) + ")")
                elif au.chain(it) and au.chain(it)[-1] in H.ID_PROPS and au.chain(it)[-1].startswith("id_"):
                    trip = trip * Poly.atom("len(mesh." + H.ID_PROPS[au.chain(it)[-1]] + ")")
                else:
                    trip = trip * Poly.atom("?")
            if len(counts) != 1:
                total = total + Poly.atom("?")
            else:
                total = total + trip * counts.pop() + (extra if not extra.is_zero() else Poly())
        n += 1
        ctx.check(total == size, "C08-N1", ctx.site(modname, fn, alloc_st),
                  f"{name}: {size} coefficients are allocated but the assembly emits {total}",
                  "fewer slots than entries raises IndexError on the last faces; the count documents the stencil (entries per element)",
                  note=f"{name}: allocated = emitted = {size}")
    ctx.require_count("C08-N1 allocation sites", n, 3)


# ----------------------------------------------------------------------- C08-T1
def t1_transport(ctx):
    n = 0
    for cls in ("SurfaceConnectionFaces", "SurfaceConnectionEdges"):
        fn = ctx.repo.func(CONN, cls + "._initialize")
        site = ctx.site(CONN, fn)
        b = sym.Bindings(fn)
        stores = [s for s in au.stmts(fn.body) if isinstance(s, ast.Assign) and len(s.targets) == 1 and isinstance(s.targets[0], ast.Subscript)
                  and au.is_self_attr(s.targets[0].value, "_transport") and isinstance(s.targets[0].slice, ast.Tuple) and len(s.targets[0].slice.elts) == 2]
        if not stores:
            ctx.fail("C08-T1", site, f"{cls}: stores into self._transport[(a, b)] not found", "")
            continue
        done = set()
        for s in stores:
            if id(s) in done:
                continue
            a, c = (au.src(x) for x in s.targets[0].slice.elts)
            blk, _ = au.enclosing_block(s)
            partner = [t for t in stores if t is not s and any(t is x for x in blk)
                       and [au.src(x) for x in t.targets[0].slice.elts] == [c, a]]
            n += 1
            if not partner or a == c:
                ctx.fail("C08-T1", ctx.site(CONN, fn, s), f"{cls}: transport ({a}, {c}) is stored without its reverse ({c}, {a}) in the same block",
                         "laplacian_edges / laplacian_triangles are Hermitian only if the transport is antisymmetric")
                continue
            t = partner[0]
            done.update((id(s), id(t)))
            first, second = (s, t) if s.lineno <= t.lineno else (t, s)
            p1 = sym.to_poly(b.resolve(first.value, at=first))
            key1 = au.norm(b.resolve(first.targets[0], at=first)).replace("Store()", "Load()")

            def atom(e, p1=p1, key1=key1):
                if isinstance(e, ast.Subscript) and au.norm(e) == key1:
                    return p1
                return None
            p2 = sym.to_poly(b.resolve(second.value, at=second), atom_of=atom)
            ctx.check((p1 + p2).is_zero(), "C08-T1", ctx.site(CONN, fn, s),
                      f"{cls}: transport ({a}, {c}) + transport ({c}, {a}) = {p1 + p2}, not zero",
                      "parallel transport between two elements must be antisymmetric: the Hermitian pairing of the connection Laplacians relies on it",
                      note=f"{cls}: T[({a},{c})] = -T[({c},{a})]")
    ctx.require_count("C08-T1 transport pairs", n, 1)


# ----------------------------------------------------------------------- C08-D1
def d1_inverse_branch(ctx):
    fn = ctx.repo.func(LAP, "cotan_edge_diagonal")
    site = ctx.site(LAP, fn)
    tests = [s for s in au.stmts(fn.body) if isinstance(s, ast.If) and isinstance(s.test, ast.Name) and s.test.id == "inverse" and s.orelse]
    if len(tests) != 1:
        ctx.fail("C08-D1", site, "cotan_edge_diagonal: `if inverse: ... else: ...` not found", "")
        return
    t = tests[0]

    def stores(body):
        return [s for s in au.stmts(body) if isinstance(s, ast.Assign) and isinstance(s.targets[0], ast.Subscript)]
    direct = stores(t.orelse)
    inv = [s for s in stores(t.body) if not isinstance(s.value, ast.Constant)]
    ok = len(direct) == 1 and len(inv) == 1 and au.same(direct[0].targets[0], inv[0].targets[0])
    if ok:
        v = inv[0].value
        ok = isinstance(v, ast.BinOp) and isinstance(v.op, ast.Div) and au.const(v.left) in (1, 1.0) \
            and sym.to_poly(v.right) == sym.to_poly(direct[0].value)
    ctx.check(ok, "C08-D1", ctx.site(LAP, fn, t), "cotan_edge_diagonal: the inverse branch is not 1/(value of the direct branch) stored at the same place",
              "M and M^-1 must be inverse diagonals", note="inverse branch = 1/x of the direct branch")
    # the two half weights come from the two sides of the edge
    b = sym.Bindings(fn)
    sides = [s for s in au.stmts(fn.body) if isinstance(s, ast.Assign) and isinstance(s.value, ast.Call) and au.call_tail(s.value) == "direct_face"]
    args = [[au.src(a) for a in s.value.args[:2]] for s in sides]
    ctx.check(len(args) == 2 and args[0] == args[1][::-1] and args[0][0] != args[0][1], "C08-D1", site,
              f"cotan_edge_diagonal: the two incident faces are queried as direct_face{tuple(args[0]) if args else ''} and direct_face{tuple(args[1]) if len(args) > 1 else ''}",
              "the two triangles of an edge (u,v) are direct_face(u,v) and direct_face(v,u)", note="both sides of the edge")


# ----------------------------------------------------------------------- C08-B1
def b1_local_bases(ctx):
    """orientation of the local bases the operators are expressed in: (X, Y, normal) right handed, project = (X.V, Y.V),
    transport angles measured as atan2(E.Y, E.X) in one and the same basis"""
    n = 0
    # project
    for cls in ("SurfaceConnection", "FlatConnectionVertices", "FlatConnectionFaces"):
        fn = ctx.repo.func(CONN, cls + ".project")
        r = [s for s in au.stmts(fn.body) if isinstance(s, ast.Return) and s.value is not None]
        ok = False
        if len(r) == 1 and isinstance(r[0].value, ast.Call) and len(r[0].value.args) == 2:
            bases = []
            for a in r[0].value.args:
                names = {x.attr for x in ast.walk(a) if isinstance(x, ast.Attribute) and x.attr in ("_baseX", "_baseY")}
                bases.append(names)
            ok = bases == [{"_baseX"}, {"_baseY"}] and all(isinstance(a, ast.Call) and au.call_tail(a) == "dot" for a in r[0].value.args)
        n += 1
        ctx.check(ok, "C08-B1", ctx.site(CONN, fn), f"{cls}.project does not return (baseX . V, baseY . V)",
                  "gradient() reads (x, y) = project(...): swapped or mixed components rotate every gradient", note=f"{cls}.project = (X.V, Y.V)")
    # faces: X, Y from face_basis in order
    fn = ctx.repo.func(CONN, "SurfaceConnectionFaces._initialize")
    b = sym.Bindings(fn)
    fb = [s for s in au.stmts(fn.body) if isinstance(s, ast.Assign) and isinstance(s.value, ast.Call) and au.call_tail(s.value) == "face_basis"
          and isinstance(s.targets[0], ast.Tuple) and len(s.targets[0].elts) == 3]
    ok = False
    if len(fb) == 1:
        x, y, _ = (au.src(t) for t in fb[0].targets[0].elts)
        blk, _o = au.enclosing_block(fb[0])
        st = {s.targets[0].value.attr: au.src(s.value) for s in blk if isinstance(s, ast.Assign) and isinstance(s.targets[0], ast.Subscript)
              and au.is_self_attr(s.targets[0].value)}
        ok = st.get("_baseX") == x and st.get("_baseY") == y
    n += 1
    ctx.check(ok, "C08-B1", ctx.site(CONN, fn), "SurfaceConnectionFaces: (baseX, baseY) are not the first and second vector of geom.face_basis of the face",
              "face_basis returns a right-handed (X, Y, normal)", note="face bases = (X, Y) of face_basis")
    # transport angles atan2(E.Y_k, E.X_k)
    at = [c for c in au.calls(fn) if au.call_tail(c) == "atan2" and len(c.args) == 2]
    for c in at:
        n += 1
        ry, rx = (b.resolve(a, at=c) for a in c.args)

        def base_of(e):
            hits = [(x.value.attr, au.src(x.slice)) for x in ast.walk(e) if isinstance(x, ast.Subscript) and au.is_self_attr(x.value) and x.value.attr in ("_baseX", "_baseY")]
            return hits[0] if len(hits) == 1 else None
        by, bx = base_of(ry), base_of(rx)
        ok = by is not None and bx is not None and by[0] == "_baseY" and bx[0] == "_baseX" and by[1] == bx[1]
        ctx.check(ok, "C08-B1", ctx.site(CONN, fn, c), f"SurfaceConnectionFaces: edge angle `{au.src(c)}` is not atan2(E . baseY[T], E . baseX[T]) in one face basis",
                  "the angle of the shared edge must be measured counter-clockwise from X in each face's own basis", note="edge angle = atan2(E.Y, E.X)")
    # vertices / edges: Y = normal x X
    for cls, normal in (("SurfaceConnectionVertices", None), ("SurfaceConnectionEdges", None)):
        fn = ctx.repo.func(CONN, cls + "._initialize")
        b = sym.Bindings(fn)
        sy = [s for s in au.stmts(fn.body) if isinstance(s, ast.Assign) and isinstance(s.targets[0], ast.Subscript) and au.is_self_attr(s.targets[0].value, "_baseY")]
        sx = [s for s in au.stmts(fn.body) if isinstance(s, ast.Assign) and isinstance(s.targets[0], ast.Subscript) and au.is_self_attr(s.targets[0].value, "_baseX")]
        ok = False
        if len(sy) == 1 and len(sx) == 1 and au.same(sx[0].targets[0].slice, sy[0].targets[0].slice):
            yval = b.resolve(sy[0].value, at=sy[0])
            cr = [c for c in ast.walk(yval) if isinstance(c, ast.Call) and au.call_tail(c) == "cross" and len(c.args) == 2]
            cr = [c for c in cr if not any(c is not d and any(c is x for x in ast.walk(d)) for d in cr)]   # outermost
            if len(cr) == 1:
                second = b.resolve(cr[0].args[1], at=sy[0])
                xval = b.resolve(sx[0].value, at=sx[0])
                key = au.norm(sx[0].targets[0]).replace("Store()", "Load()")
                x_ok = au.same(second, xval) or au.norm(cr[0].args[1]) == key
                first = b.resolve(cr[0].args[0], at=sy[0])
                ok = x_ok and not au.same(first, xval) and au.norm(cr[0].args[0]) != key
        n += 1
        ctx.check(ok, "C08-B1", ctx.site(CONN, fn), f"{cls}: baseY is not cross(normal, baseX) of the same element",
                  "the tangent basis must be right handed with respect to the normal: cross(X, Y) = N", note=f"{cls}: Y = N x X")
    if len(at) < 2:
        fn = ctx.repo.func(CONN, "SurfaceConnectionFaces._initialize")
        ctx.fail("C08-B1", ctx.site(CONN, fn), "SurfaceConnectionFaces: the two edge angles atan2(E . Y, E . X) of an interior edge not found", "")
    ctx.require_count("C08-B1 basis sites", n, 4)


# ----------------------------------------------------------------------- C08-W1
def _holds(guards, name, notnone=()):
    """is the option `name` known to be true at a node with these guards (or one of `notnone` known to be not None)?"""
    for t, pol in guards:
        conj = t.values if isinstance(t, ast.BoolOp) and isinstance(t.op, ast.And) else [t]
        if pol:
            for x in conj:
                if isinstance(x, ast.Name) and x.id == name:
                    return True
                if isinstance(x, ast.Compare) and len(x.ops) == 1 and isinstance(x.ops[0], ast.IsNot) and isinstance(x.left, ast.Name) \
                        and x.left.id in notnone and au.const(x.comparators[0], 0) is None:
                    return True
        else:
            if isinstance(t, ast.UnaryOp) and isinstance(t.op, ast.Not) and isinstance(t.operand, ast.Name) and t.operand.id == name:
                return True
            if isinstance(t, ast.Compare) and len(t.ops) == 1 and isinstance(t.ops[0], ast.Is) and isinstance(t.left, ast.Name) \
                    and t.left.id in notnone and au.const(t.comparators[0], 0) is None:
                return True
    return False


def w1_option_dominance(ctx):
    """the uniform-weight branch must not read cotangent data: every evaluation of a source of cotangents
    (cached "cotan" attribute, cotangent(mesh), cotan_edge_diagonal(mesh)) is controlled by the `cotan` option"""
    for name in ("laplacian", "laplacian_edges", "laplacian_triangles"):
        fn = ctx.repo.func(LAP, name)
        site = ctx.site(LAP, fn)
        if "cotan" not in au.params(fn):
            ctx.fail("C08-W1", site, f"{name}: the `cotan` option not found", "")
            continue
        sources = []
        for c in au.calls(fn):
            t = au.call_tail(c)
            if t == "get_attribute" and c.args and au.const(c.args[0]) == "cotan":
                sources.append(c)
            elif t in ("cotangent", "cotan_edge_diagonal"):
                sources.append(c)
        if not sources:
            ctx.fail("C08-W1", site, f"{name}: source of the cotangent weights (cached \"cotan\" attribute / cotangent() / cotan_edge_diagonal()) not found",
                     "the cotan=True branch must take its weights from the corner cotangents")
            continue
        holders = set()
        for c in sources:
            st = au.enclosing_stmt(c)
            if isinstance(st, ast.Assign) and st.value is c:
                holders |= {t.id for t in st.targets if isinstance(t, ast.Name)}
        for c in sources:
            ctx.check(_holds(au.guards(c), "cotan"), "C08-W1", ctx.site(LAP, fn, c),
                      f"{name}: `{au.src(c)}` is evaluated whatever the value of the `cotan` option",
                      "with cotan=False the operator must have uniform weights; if cotangent data is fetched regardless (e.g. because a cached "
                      "\"cotan\" attribute exists) the result depends on what was computed on the mesh before",
                      note=f"{name}: `{au.src(c)[:40]}` only under cotan=True")
        for n in au.walk(fn):
            if isinstance(n, ast.Subscript) and isinstance(n.value, ast.Name) and n.value.id in holders and isinstance(n.ctx, ast.Load):
                ctx.check(_holds(au.guards(n), "cotan", holders), "C08-W1", ctx.site(LAP, fn, n),
                          f"{name}: cotangent value `{au.src(n)}` is read outside the control of the `cotan` option",
                          "the uniform-weight branch must not use cotangents", note=f"{name}: `{au.src(n)[:30]}` read under cotan")


# ----------------------------------------------------------------------- C08-E1
def e1_edge_sides(ctx):
    from .c07 import edge_sides_rule
    n = edge_sides_rule(ctx, "C08-E1", [(LAP, "cotan_edge_diagonal"), (MASS, "area_weight_matrix_edges"), (CONN, "SurfaceConnectionEdges._initialize")])
    ctx.require_count("C08-E1 two-sided edge loops", n, 1)
