"""C08 - discrete differential operators satisfy their defining identities (structural clauses, R-STENCIL)."""
from __future__ import annotations
import ast, itertools
from fractions import Fraction
from .. import au, sym, flow
from ..sym import Poly
from ..core import AnalysisError
from ..rules import c0708 as H
from ..rules import he_norm, he_seq, he_stencil as ST
from .c07 import kinds_rule, _sum_over, run_steps, floor, _specialisations

LAP = "operators.laplacian_op"
GRAD = "operators.gradient_op"
MASS = "operators.mass"
ADJ = "operators.adjacency"
CONN = "processing.connection"

EXPLANATION = (
    "R-STENCIL over the assembly code of the operators: the (row, col, value) triples emitted per loop iteration are "
    "extracted path by path from every storage idiom (parallel stores into rows/cols/values in one or several statements, running or "
    "fixed slots, list appends, a local add() helper, lil[i,j] stores), after looking through private helpers, local aliases and "
    "loops over literal tuples, and, with values as polynomial forms over opaque atoms, checked for symmetry, zero row sums, "
    "Hermitian pairing of the connection branches (phases modulo 2*pi*order, transport antisymmetry checked at its "
    "source), agreement of the real and complex gradient and its exactness on affine functions (polynomial identity), "
    "one entry per incidence for the adjacency / incidence operators, index-kind typing of rows, columns and every "
    "subscript, and the exponent of the diagonal mass matrices under every (inverse, sqrt) option. Structural necessary conditions only: no matrix is built.")

RULES = {
    "C08-S1": "real stencils: every off-diagonal entry (i,j,x) has its transpose (j,i,x) in the same iteration and the entries of each row "
              "emitted in one iteration sum to the zero form (neighbour loops: -1 per neighbour against len(neighbours) on the diagonal)",
    "C08-S2": "connection stencils are Hermitian: (i,j, m*rect(1,phi)) pairs with (j,i, m*rect(1,phi')) and phi+phi' = 0 mod 2*pi*order; with all "
              "phases set to zero the rows sum to zero; laplacian_triangles is Nabla^H [D] Nabla with rows of Nabla summing to zero",
    "C08-S3": "adjacency_matrix: two entries per edge at transposed positions with equal value in every weight branch; vertex_to_edge_operator: "
              "one entry per endpoint, origin coefficient -1 iff oriented; vertex_to_face_operator: 1/len(T) per incidence",
    "C08-S4": "gradient: complex and real branch agree slot by slot, the three coefficients of a face sum to zero and the gradient of the local "
              "coordinates (projections in the basis of the connection) is the identity (polynomial identity with the doubled signed area)",
    "C08-M1": "mass matrices are sp.diags of a per-incidence accumulation (or of the measure attribute itself) indexed by the right element kind; "
              "under every (inverse, sqrt) option the diagonal is the measure to the power (-1 if inverse) * (1/2 if sqrt); a view of a cached "
              "attribute is never modified in place",
    "C08-K1": "rows, columns and every subscript / connectivity call of the operator modules use ids of the element kind they address",
    "C08-O1": "the cotangent weight of edge (x,y) in a triangle is half the cotangent at the opposite vertex; the opposite vertex of an edge in a "
              "face is addressed with the local indices returned for that same face",
    "C08-N1": "the number of coefficients allocated for a COO assembly covers the entries emitted (slots distinct, counter advanced once per entry)",
    "C08-T1": "parallel transport tables of the face / edge connections are antisymmetric: T[(a,b)] + T[(b,a)] = 0, both stored in the same block",
    "C08-D1": "cotan_edge_diagonal: the inverse branch is 1/x of the direct branch; the two half weights come from the two sides of the edge",
    "C08-W1": "every evaluation / read of cotangent data in laplacian, laplacian_edges, laplacian_triangles is controlled by the `cotan` option "
              "(the uniform-weight branch never reads the cached \"cotan\" attribute)",
    "C08-E1": "per-edge operators visit the faces on both sides of each edge independently (no break / return / nesting between the sides)",
    "C08-B1": "local bases are right handed (Y = normal x X, faces: (X, Y) of face_basis), project returns (X.V, Y.V), edge angles are atan2(E.Y, E.X) in one basis",
}

ASSUMPTIONS = [
    "scipy sums duplicate (row, col) entries of a COO triple list when converting to csc/csr",
    "`order` is an integer (phases are compared modulo 2*pi*order)",
    "the vertex / cell adjacency relations used by the neighbour loops are symmetric (C01 / C03)",
]


def run(ctx):
    steps = [("C08-S1", s1_s2_stencils), ("C08-S2", s2_triangles), ("C08-S3", s3_adjacency), ("C08-S4", s4_gradient), ("C08-M1", m1_mass),
             ("C08-K1", lambda c: kinds_rule(c, "C08-K1", [LAP, GRAD, MASS, ADJ, CONN], 50)), ("C08-K1", k1_matrix_axes),
             ("C08-O1", o1_opposite), ("C08-N1", n1_allocation), ("C08-T1", t1_transport), ("C08-D1", d1_inverse_branch),
             ("C08-B1", b1_local_bases), ("C08-W1", w1_option_dominance), ("C08-E1", e1_edge_sides)]
    run_steps(ctx, steps, LAP)


def is_pi(e):
    c = au.chain(e)
    return bool(c) and c[-1] == "pi"


def cond_label(conds):
    out = []
    for t, pol in conds:
        s = au.canon_test(t, pol)
        if s not in out:
            out.append(s)
    return ", ".join(out)


class Values:
    """polynomial form of an emitted value; transports / pi / len(...) get canonical atoms"""

    def __init__(self, fn, antisym_transport=False, unit_phase=False, flat=None):
        self.b = sym.Bindings(fn)
        self.antisym = antisym_transport
        self.unit_phase = unit_phase
        self.flat = flat        # None | "vertex" (T(j,i) = T(i,j) + pi: polar angle of the reversed edge) | "zero" (trivial transport)

    def atom_of(self, at):
        def f(e):
            if is_pi(e):
                return "pi"
            if isinstance(e, ast.Call) and au.call_tail(e) == "transport" and len(e.args) == 2:
                a, b = (au.src(self.b.resolve(x, at=at)) for x in e.args)
                if self.flat == "zero":
                    return Poly.const(0)
                if self.flat == "vertex":
                    return Poly.atom(f"T({a},{b})") if a <= b else Poly.atom(f"T({b},{a})") + Poly.atom("pi")
                if self.antisym and b < a:
                    return -Poly.atom(f"T({b},{a})")
                return Poly.atom(f"T({a},{b})")
            if isinstance(e, ast.Call) and au.call_tail(e) == "len" and len(e.args) == 1:
                return "len(" + au.src(self.b.resolve(e.args[0], at=at)) + ")"
            if self.unit_phase and _rect_of(e) is not None:
                return Poly.const(1)
            return None
        return f

    def poly(self, e, at):
        return sym.to_poly(self.b.resolve(e, at=at), atom_of=self.atom_of(at))


def has_phase(e):
    return any(isinstance(n, ast.Call) and au.call_tail(n) in ("rect", "complex", "exp") for n in ast.walk(e))


def _rect_of(x):
    """(rect call, conjugated?) if x is rect(..) or rect(..).conjugate() / .conj() / np.conj(rect(..))"""
    conj = False
    while True:
        if isinstance(x, ast.Call) and isinstance(x.func, ast.Attribute) and x.func.attr in ("conjugate", "conj") and not x.args:
            conj, x = not conj, x.func.value
        elif isinstance(x, ast.Call) and au.call_tail(x) in ("conj", "conjugate") and len(x.args) == 1:
            conj, x = not conj, x.args[0]
        else:
            break
    if isinstance(x, ast.Call) and au.call_tail(x) == "rect":
        return x, conj
    if isinstance(x, ast.Call) and au.call_tail(x) == "exp" and len(x.args) == 1:
        # exp(1j * phi) == rect(1, phi)
        coef, num, den = H.factors(x.args[0]) if not _has_imag(x.args[0]) else _imag_factors(x.args[0])
        if coef is not None:
            phi = None
            for f in num:
                phi = f if phi is None else ast.BinOp(left=phi, op=ast.Mult(), right=f)
            if phi is None:
                phi = ast.Constant(value=1)
            if coef != 1:
                phi = ast.BinOp(left=ast.Constant(value=float(coef) if coef.denominator != 1 else int(coef)), op=ast.Mult(), right=phi)
            for f in den:
                phi = ast.BinOp(left=phi, op=ast.Div(), right=f)
            return ast.Call(func=ast.Name(id="rect", ctx=ast.Load()), args=[ast.Constant(value=1), phi], keywords=[]), conj
    return None


def _has_imag(e):
    return any(isinstance(n, ast.Constant) and isinstance(n.value, complex) for n in ast.walk(e))


def _imag_factors(e):
    """(coef, num, den) of phi when e == 1j * phi (exactly one imaginary unit among the factors), (None, .., ..) otherwise"""
    units = []

    class T(ast.NodeTransformer):
        def visit_Constant(self, n):
            if isinstance(n.value, complex) and n.value.real == 0:
                units.append(n.value.imag)
                return ast.Constant(value=n.value.imag)
            return n
    e2 = T().visit(sym.clone(e))
    if len(units) != 1:
        return None, [], []
    return H.factors(e2)


def split_phase(e):
    """value = magnitude * rect(1, phi)  ->  (coef, magnitude factors key, phi) or None  (phi negated under a conjugate)"""
    coef, num, den = H.factors(e)
    ph = [(x, _rect_of(x)) for x in num if _rect_of(x) is not None]
    if len(ph) != 1:
        return None
    node, (rc, conj) = ph[0]
    if len(rc.args) != 2 or not isinstance(au.const(rc.args[0]), (int, float)) or au.const(rc.args[0]) == 0:
        return None
    coef = coef * Fraction(au.const(rc.args[0])).limit_denominator(10 ** 6)      # rect(r, phi): the modulus belongs to the magnitude
    rest = [x for x in num if x is not node]
    phi = rc.args[1]
    if conj:
        phi = ast.UnaryOp(op=ast.USub(), operand=phi)
    return coef, H.factor_key(rest, den), phi


def _multiple_of_2pi(p):
    """is the phase polynomial in 2*pi*Z for every integer value of `order`?"""
    for mono, c in p.t.items():
        if sorted(mono) not in (["order", "pi"], ["pi"]) or c.denominator != 1 or int(c) % 2 != 0:
            return False
    return True


def _own_index(V, loop, row):
    """is `row` the index variable of the assembly loop itself (each value visited exactly once)?"""
    if not isinstance(row, ast.Name) or not isinstance(loop, ast.For):
        return False
    try:
        F = he_seq.Forms(V)
        L = he_seq.LoopCtx(F, loop.target, loop.iter, loop)
    except Exception:
        return False
    d = L.names.get(row.id)
    if d is None:
        return False
    return (d[0] == "idx" and d[2].is_zero()) or (d[0] == "at" and d[2] == 0 and any(d[1].endswith("." + k) for k in H.ID_PROPS if k.startswith("id_")))


def _is_call_text(src):
    try:
        return isinstance(ast.parse(src, mode="eval").body, ast.Call)
    except SyntaxError:
        return False


def _neighbour_loop(V, lp):
    """(name of the neighbour, collection of the neighbours) of an inner loop over the neighbours of an element, through enumerate / list /
    reversed wrappers (`for i, nb in enumerate(adj, start=k + 1)`)"""
    it, tgt = lp.iter, lp.target
    for _ in range(3):
        if isinstance(it, ast.Call) and isinstance(it.func, ast.Name) and it.func.id == "enumerate" and it.args and isinstance(tgt, ast.Tuple) and len(tgt.elts) == 2:
            it, tgt = it.args[0], tgt.elts[1]
        elif isinstance(it, ast.Call) and isinstance(it.func, ast.Name) and it.func.id in ("list", "tuple", "reversed", "sorted", "iter") and len(it.args) == 1:
            it = it.args[0]
        else:
            break
    return (tgt.id if isinstance(tgt, ast.Name) else None), it


def nested_with_entries(path):
    return [x for x in path.loops if any(q.entries for q in x[2])]


def analyse_unit(ctx, rule_real, rule_cplx, modname, fn, V, loop, paths, antisym, flat="zero"):
    """symmetry and row sums of one assembly loop; returns (#real paths, #complex paths)"""
    n_real = n_cplx = 0
    q = fn.name
    for path in paths:
        emits = path.entries
        nested = nested_with_entries(path)
        if not emits and not nested:
            continue
        _b = sym.Bindings(V)
        cplx = any(has_phase(_b.resolve(e.val, at=e.node)) for e in emits)
        rule = rule_cplx if cplx else rule_real
        n_real += not cplx
        n_cplx += cplx
        site = ctx.site(modname, fn, emits[0].node if emits else loop)
        label = q + ("" if not path.conds else " [" + cond_label(path.conds) + "]")
        for node, msg in path.problems + [pm for _, _, sps in path.loops for sp in sps for pm in sp.problems]:
            ctx.fail("C08-N1", ctx.site(modname, fn, node), f"{q}: {msg}", "entries are stored on top of each other or at the wrong slot")
        if path.unclear:
            ctx.undecided(rule, site, f"{label}: some stores of the assembly could not be grouped into (row, col, value) entries ({path.unclear[0][1]})", "")
            continue
        problems, unclear = [], []
        vals = Values(V, antisym_transport=antisym, unit_phase=True)
        # ---- row sums (phases set to zero on connection paths)
        rows = {}
        for e in emits:
            rows.setdefault(au.norm(e.row), Poly())
            rows[au.norm(e.row)] = rows[au.norm(e.row)] + vals.poly(e.val, e.node)
            if au.same(e.row, e.col) and e.mode == "set" and not _own_index(V, loop, e.row):
                problems.append("a diagonal entry is overwritten (`M[i, i] = ..`) instead of accumulated, although several iterations contribute to it")
        all_nested = []
        for _, lp, subpaths in nested:
            for sp in subpaths:
                sub = sp.entries
                if not sub:
                    continue
                all_nested += sub
                if sp.conds or sp.stop:
                    unclear.append(f"entries of the neighbour loop over `{au.src(lp.iter)}` are conditional")
                for e in sub:
                    v = vals.poly(e.val, e.node)
                    if not v.is_const():
                        unclear.append("a neighbour entry has a value depending on the pair: symmetry cannot follow from the symmetry of the adjacency")
                    nb_name, nb_iter = _neighbour_loop(V, lp)
                    if nb_name is None or au.src(e.col) != nb_name or nb_name in au.names(e.row):
                        unclear.append("a neighbour entry is not (element, neighbour)")
                    cnt = Poly.atom("len(" + au.src(vals.b.resolve(nb_iter, at=lp)) + ")")
                    rows.setdefault(au.norm(e.row), Poly())
                    rows[au.norm(e.row)] = rows[au.norm(e.row)] + v * cnt
        for r, p in rows.items():
            if not p.is_zero():
                rname = [au.src(e.row) for e in emits + all_nested if au.norm(e.row) == r][0]
                foreign = [a for a in p.atoms() if a.startswith("⟨") and not a.startswith("⟨len(") and _is_call_text(a[1:-1])]
                if foreign and not cplx:
                    # the residual is made of calls the rule does not evaluate (a degree obtained from another query ...): equal values may be spelled differently
                    unclear.append(f"the entries of row `{rname}` could not be summed symbolically (they involve `{foreign[0][1:-1][:50]}`)")
                    continue
                problems.append(f"entries of row `{rname}` emitted in one iteration sum to {p}, not to zero"
                                + (" (with all phases set to zero)" if cplx else ""))
        # ---- symmetry / Hermitian pairing
        off = [e for e in emits if not au.same(e.row, e.col)]
        vals_sym = Values(V, antisym_transport=antisym, unit_phase=False)
        used = set()
        for e in off:
            if id(e) in used:
                continue
            partner = [f for f in off if f is not e and id(f) not in used and au.same(f.row, e.col) and au.same(f.col, e.row)]
            if not partner:
                problems.append(f"entry ({au.src(e.row)}, {au.src(e.col)}) has no transposed entry ({au.src(e.col)}, {au.src(e.row)}) in the same iteration")
                continue
            f = partner[0]
            used.update((id(e), id(f)))
            if not cplx:
                if vals_sym.poly(e.val, e.node) != vals_sym.poly(f.val, f.node):
                    problems.append(f"entries ({au.src(e.row)}, {au.src(e.col)}) = {au.src(e.val)} and its transpose = {au.src(f.val)} differ")
            else:
                se, sf = split_phase(vals_sym.b.resolve(e.val, at=e.node)), split_phase(vals_sym.b.resolve(f.val, at=f.node))
                if se is None or sf is None:
                    unclear.append(f"connection entry ({au.src(e.row)}, {au.src(e.col)}) is not read as magnitude * rect(1, phase)")
                    continue
                if (se[0], se[1]) != (sf[0], sf[1]):
                    problems.append(f"magnitudes of ({au.src(e.row)}, {au.src(e.col)}) and of its transpose differ")
                tot = vals_sym.poly(se[2], e.node) + vals_sym.poly(sf[2], f.node)
                ok = tot.is_zero()
                if not ok and len(tot.t) == 1:
                    (mono, c), = tot.t.items()
                    ok = sorted(mono) == ["order", "pi"] and c.denominator == 1 and int(c) % 2 == 0
                if not ok:
                    problems.append(f"phases of ({au.src(e.row)}, {au.src(e.col)}) and of its transpose sum to {tot}, not to a multiple of 2*pi*order: "
                                    f"the matrix is not Hermitian")
                # flat connection: the operator must be the scalar Laplacian for EVERY integer order
                vals_flat = Values(V, flat=flat)
                for g, sg in ((e, se), (f, sf)):
                    ph = vals_flat.poly(sg[2], g.node)
                    if not _multiple_of_2pi(ph):
                        model = ("transport(j,i) = transport(i,j) + pi, the polar angles of the two directions of an edge (FlatConnectionVertices)"
                                 if flat == "vertex" else "transport = 0")
                        problems.append(f"for the flat connection ({model}) the phase of entry ({au.src(g.row)}, {au.src(g.col)}) is {ph}, "
                                        f"not a multiple of 2*pi for every integer order: the operator does not reduce to the scalar Laplacian (odd orders flip the sign)")
        if problems:
            ctx.fail(rule, site, f"{label}: " + "; ".join(dict.fromkeys(problems)),
                     "a Laplacian must be symmetric (Hermitian with a connection) and annihilate constants" if not cplx else
                     "a connection Laplacian must be Hermitian and reduce to the scalar Laplacian for the trivial connection")
        elif unclear:
            ctx.undecided(rule, site, f"{label}: " + "; ".join(dict.fromkeys(unclear)), "")
        else:
            ctx.ok(rule, site, f"{label}: {len(emits)} direct + {len(all_nested)} neighbour entries")
    return n_real, n_cplx


STENCILS = [  # function, antisymmetric transport assumed (checked by C08-T1), flat-connection model
    ("graph_laplacian", False, None), ("laplacian", False, "vertex"), ("laplacian_edges", True, "zero"),
    ("volume_laplacian", False, None), ("laplacian_tetrahedra", False, None),
]


def _method_view(ctx, modname, clsname, meth):
    """view of a method looked up through the MRO of the class (a base-class implementation is read with the receiver's overrides)"""
    m = ctx.repo.module(modname)
    cls = ctx.repo.cls(modname, clsname)
    ms = ctx.repo.methods(m, cls)
    if meth not in ms:
        return None, None
    om, fn, owner = ms[meth]
    return fn, he_norm.view(ctx.repo, om.name, fn, cls=(m, cls))


def flat_premises(ctx):
    """the flat-connection models used by C08-S2 are read off processing/connection.py"""
    fn, V = _method_view(ctx, CONN, "FlatConnectionVertices", "transport")
    site = ctx.site(CONN, "FlatConnectionVertices.transport")
    e = he_norm.return_expr(V) if V is not None else None
    ok = None
    if e is not None and fn is not None:
        ps = au.params(fn, skip_self=True)
        if isinstance(e, ast.Call) and au.call_tail(e) in ("arctan2", "atan2") and len(e.args) == 2 and len(ps) == 2:
            comps = []
            for a, want in zip(e.args, ("y", "x")):
                base = None
                if isinstance(a, ast.Attribute) and a.attr in ("x", "y"):
                    base = (a.value, a.attr)
                elif isinstance(a, ast.Subscript) and au.const(a.slice) in (0, 1):
                    base = (a.value, "xy"[au.const(a.slice)])
                comps.append(base)
            if None not in comps and au.same(comps[0][0], comps[1][0]) and isinstance(comps[0][0], ast.BinOp) and isinstance(comps[0][0].op, ast.Sub):
                def vid(x):
                    return au.src(x.slice) if isinstance(x, ast.Subscript) and au.chain(x.value) and au.chain(x.value)[-1] == "vertices" else None
                ends = [vid(comps[0][0].left), vid(comps[0][0].right)]
                if None not in ends:
                    ok = [comps[0][1], comps[1][1]] == ["y", "x"] and ends == [ps[1], ps[0]]
    if ok is None:
        ctx.undecided("C08-S2", site, "FlatConnectionVertices.transport: the polar angle atan2(E.y, E.x) of the edge vector not recognised",
                      "premise of the flat reduction: transport(j,i) = transport(i,j) + pi (mod 2*pi)")
    else:
        ctx.check(ok, "C08-S2", site, "FlatConnectionVertices.transport is not the polar angle atan2(E.y, E.x) of the edge vector E = P[iB] - P[iA]",
                  "premise of the flat reduction: transport(j,i) = transport(i,j) + pi (mod 2*pi)", note="flat vertex transport = polar angle of the edge")
    fn, V = _method_view(ctx, CONN, "FlatConnectionFaces", "transport")
    site = ctx.site(CONN, "FlatConnectionFaces.transport")
    e = he_norm.return_expr(V) if V is not None else None
    if e is None or not isinstance(au.const(e), (int, float)):
        ctx.undecided("C08-S2", site, "FlatConnectionFaces.transport: constant transport not recognised", "premise of the flat reduction for face / edge based operators")
    else:
        ctx.check(au.const(e) in (0, 0.0), "C08-S2", site, "FlatConnectionFaces.transport does not return 0",
                  "premise of the flat reduction for face / edge based operators", note="flat face transport = 0")


class _Recorder:
    """records the verdicts of an analysis so that the caller can decide to replay them or to try another reading of the code first"""

    def __init__(self, ctx):
        self.ctx, self.log = ctx, []
        self.repo = ctx.repo

    def site(self, *a, **k):
        return self.ctx.site(*a, **k)

    def ok(self, *a, **k):
        self.log.append(("ok", a, k))

    def fail(self, *a, **k):
        self.log.append(("fail", a, k))

    def undecided(self, *a, **k):
        self.log.append(("undecided", a, k))

    def check(self, cond, rule, site, construct, what, note="", **detail):
        if cond:
            self.ok(rule, site, note or construct)
        else:
            self.fail(rule, site, construct, what, **detail)
        return cond

    @property
    def failed(self):
        return any(k == "fail" for k, _, _ in self.log)

    def replay(self, demote=False):
        for kind, a, k in self.log:
            if kind == "fail" and demote:
                self.ctx.undecided(a[0], a[1], a[2], "the assembly is split over several loops that could not be read as one stencil")
            else:
                getattr(self.ctx, kind)(*a, **k)


def _merge_units(us):
    """units (loops) with the same header and the same guards are one stencil written in several passes (loop fission): their paths are
    combined pairwise.  Returns the merged unit list, or None when the loops cannot be aligned."""
    groups = {}
    for loop, paths in us:
        key = (au.src(loop.target), au.src(loop.iter), tuple(sorted(H.canon_facts(loop, toplevel=False)))) if isinstance(loop, ast.For) else None
        if key is None:
            return None
        groups.setdefault(key, []).append((loop, paths))
    if all(len(g) == 1 for g in groups.values()):
        return None
    out = []
    for g in groups.values():
        loop0, merged = g[0]
        for loop, paths in g[1:]:
            nxt = []
            for p in merged:
                for q in paths:
                    if not ST.consistent(p.conds + q.conds):
                        continue
                    r = ST.Path()
                    r.conds = p.conds + [c for c in q.conds if not any(au.same(c[0], d[0]) and c[1] == d[1] for d in p.conds)]
                    r.items = p.items + q.items
                    r.problems, r.unclear = p.problems + q.problems, p.unclear + q.unclear
                    r.stop = p.stop or q.stop
                    nxt.append(r)
            merged = nxt
            if len(merged) > 256:
                return None
        out.append((loop0, merged))
    return out


def s1_s2_stencils(ctx):
    nr = nc = 0
    flat_premises(ctx)
    for name, antisym, flat in STENCILS:
        fn = ctx.repo.func(LAP, name)
        V = H.fview(ctx, LAP, fn)
        st = ST.Stencil(V)
        site = ctx.site(LAP, fn)
        try:
            us = ST.units(st, V.body)
        except OverflowError:
            us = []
        if not us:
            ctx.undecided("C08-S1", site, f"{name}: assembly loop not recognised (no rows/cols/values stores, appends, add() calls or lil[i,j] stores)",
                          "the stencil of the operator could not be extracted")
            continue
        a = b = 0
        rec = _Recorder(ctx)
        for loop, paths in us:
            x, y = analyse_unit(rec, "C08-S1", "C08-S2", LAP, fn, V, loop, paths, antisym, flat or "zero")
            a, b = a + x, b + y
        if rec.failed and len(us) > 1:
            # several assembly loops: read them as one stencil written in several passes before judging each pass on its own
            merged = _merge_units(us)
            if merged is None:
                rec.replay(demote=True)
            else:
                rec2 = _Recorder(ctx)
                a = b = 0
                for loop, paths in merged:
                    x, y = analyse_unit(rec2, "C08-S1", "C08-S2", LAP, fn, V, loop, paths, antisym, flat or "zero")
                    a, b = a + x, b + y
                rec2.replay()
        else:
            rec.replay()
        if a == 0:
            ctx.undecided("C08-S1", site, f"{name}: no real assembly path recognised", "")
        if b == 0 and "connection" in au.params(fn):
            ctx.undecided("C08-S2", site, f"{name}: assembly path of the connection branch (entries of the form m * rect(1, phase)) not recognised",
                          "the function takes a connection but its complex stencil could not be extracted")
        nr, nc = nr + a, nc + b
    floor(ctx, "C08-S1", nr, 1, LAP, "real stencil path(s)")


# ----------------------------------------------------------------------- C08-S2 (laplacian_triangles)
ADJ_OPS = (["conj", "transpose"], ["T", "conj"], ["conjugate", "transpose"], ["T", "conjugate"], ["getH"], ["H"])


def _matrix_ops(e):
    """(base name, sorted attribute / method chain) of  N.conj().transpose() ...; None when not such a chain"""
    ops = []
    while True:
        if isinstance(e, ast.Call) and isinstance(e.func, ast.Attribute) and not e.args:
            ops.append(e.func.attr)
            e = e.func.value
        elif isinstance(e, ast.Attribute):
            ops.append(e.attr)
            e = e.value
        else:
            break
    if not isinstance(e, ast.Name):
        return None
    return e.id, sorted(o for o in ops if o not in ("tocsc", "tocsr", "tocoo", "copy"))


def s2_triangles(ctx):
    fn = ctx.repo.func(LAP, "laplacian_triangles")
    site = ctx.site(LAP, fn)
    V = H.fview(ctx, LAP, fn)
    b = sym.Bindings(V)
    st = ST.Stencil(V)
    # the product pattern
    rets = [s for s in au.stmts(V.body) if isinstance(s, ast.Return) and s.value is not None]
    n = 0
    for r in rets:
        chain = []
        e = r.value
        if isinstance(e, ast.Name):
            d = b.reaching(e.id, r)
            e = d if d is not None else e
        while isinstance(e, ast.BinOp) and isinstance(e.op, ast.MatMult):
            chain.insert(0, e.right)
            e = e.left
        chain.insert(0, e)
        rsite = ctx.site(LAP, fn, r)
        if len(chain) not in (2, 3):
            ctx.undecided("C08-S2", rsite, "laplacian_triangles: a returned value is not read as a product N^H @ [D] @ N", "")
            continue
        n += 1
        stop = [nm for nm in sym.Bindings(V).defs if isinstance(sym.Bindings(V).defs[nm], ast.Call) and au.call_tail(sym.Bindings(V).defs[nm]) in ("lil_matrix", "coo_matrix", "csc_matrix", "csr_matrix", "tocsc", "tocsr")]
        left = _matrix_ops(b.resolve(chain[0], at=r, keep=tuple(stop)))
        rgt = _matrix_ops(b.resolve(chain[-1], at=r, keep=tuple(stop)))
        if left is None or rgt is None or left[0] != rgt[0]:
            ctx.undecided("C08-S2", rsite, "laplacian_triangles: the outer factors of the returned product are not read as transforms of one matrix N", "")
            continue
        problems = []
        adj = [sorted(x) for x in ADJ_OPS]
        if rgt[1] in adj and left[1] == []:
            problems.append("the product is N @ [D] @ N^H: the conjugate transpose is on the right")
        elif rgt[1] != [] or left[1] not in adj:
            problems.append(f"the left factor applies {left[1] or 'nothing'} and the right factor {rgt[1] or 'nothing'} to N: not (conjugate transpose of N) @ [D] @ N")
        if len(chain) == 3:
            d = b.resolve(chain[1], at=r)
            if not (isinstance(d, ast.Call) and au.call_tail(d) == "cotan_edge_diagonal"):
                if isinstance(d, ast.Call):
                    problems.append(f"the middle factor is `{au.call_tail(d)}(..)`, not the diagonal of cotangent weights")
                else:
                    ctx.undecided("C08-S2", rsite, "laplacian_triangles: the middle factor of the returned product not recognised", "")
                    continue
        ctx.check(not problems, "C08-S2", rsite, "laplacian_triangles: " + "; ".join(problems),
                  "only the form (conjugate transpose of N) * (real diagonal) * N is Hermitian positive semi-definite by construction",
                  note="N^H [D] N")
    if n < 1:
        ctx.undecided("C08-S2", site, "laplacian_triangles: returned products N^H @ [D] @ N not recognised", "")
    fd = ctx.repo.func(LAP, "cotan_edge_diagonal")
    e = he_norm.return_expr(H.fview(ctx, LAP, fd))
    if isinstance(e, ast.Call) and au.call_tail(e) in ("diags", "dia_matrix", "spdiags"):
        ctx.ok("C08-S2", ctx.site(LAP, fd), "cotan_edge_diagonal returns a diagonal matrix")
    else:
        ctx.undecided("C08-S2", ctx.site(LAP, fd), "cotan_edge_diagonal: returned diagonal matrix sp.diags(...) not recognised", "the middle factor must be diagonal")
    # rows of Nabla: -1 on one side, unit-modulus coefficient on the other
    us = ST.units(st, V.body)
    m = 0
    for loop, paths in us:
        for path in paths:
            emits = path.entries
            if not emits:
                continue
            esite = ctx.site(LAP, fn, emits[0].node)
            for node, msg in path.problems:
                ctx.fail("C08-N1", ctx.site(LAP, fn, node), f"laplacian_triangles: {msg}", "")
            if path.unclear:
                ctx.undecided("C08-S2", esite, f"laplacian_triangles: stores of the dual gradient could not be grouped into entries ({path.unclear[0][1]})", "")
                continue
            m += 1
            vals = Values(V, unit_phase=True)
            tot = Poly()
            for e in emits:
                tot = tot + vals.poly(e.val, e.node)
            rows = {au.norm(e.row) for e in emits}
            cols = {au.norm(e.col) for e in emits}
            unit = all(not has_phase(e.val) or split_phase(e.val) is not None and split_phase(e.val)[0] in (1, -1) and split_phase(e.val)[1] == ((), ())
                       for e in emits)
            problems = []
            if len(rows) != 1:
                problems.append("one iteration writes into several rows")
            elif len(emits) != 2 or len(cols) != 2:
                problems.append(f"the row of an edge receives {len(emits)} entr{'y' if len(emits) == 1 else 'ies'} in {len(cols)} column(s) "
                                f"[{cond_label(path.conds)}] - expected one -1 and one +1 entry in the columns of its two faces")
            elif not tot.is_zero():
                problems.append(f"the two entries of a row sum to {tot} (phases set to one), not to zero")
            elif not unit:
                problems.append("an entry of the dual gradient is not of unit modulus")
            ctx.check(not problems, "C08-S2", esite, "laplacian_triangles: " + "; ".join(problems),
                      "each interior edge contributes the difference of its two faces; constants must be in the kernel when the connection is trivial",
                      note="Nabla row: -1 / +1 (or unit phase)")
    if m < 1:
        ctx.undecided("C08-S2", site, "laplacian_triangles: assembly of the dual gradient N not recognised", "")


# ----------------------------------------------------------------------- C08-S3
def _slot(e, var):
    """(stride, offset) if e == stride*var + offset"""
    try:
        p = sym.to_poly(e, opaque=False)
    except sym.NotPoly:
        return None
    c = p.coeff(var)
    rest = p.without(var)
    if c.is_const() and rest.is_const() and c.const_value().denominator == 1 and rest.const_value().denominator == 1 and p.degree_in(var) <= 1:
        return int(c.const_value()), int(rest.const_value())
    return None


def _edge_loop(F, loop):
    """(edge index name, [endpoint names]) of a loop over the edges in any spelling"""
    L = he_seq.LoopCtx(F, loop.target, loop.iter, loop)
    if L.seq is None or L.seq.base is None or not (L.seq.base.endswith(".edges") or L.seq.base.endswith(".id_edges")):
        return None
    idx = [nm for nm, d in L.names.items() if (d[0] == "idx" and d[2].is_zero()) or (d[0] == "at" and d[1].endswith(".id_edges") and d[2] == 0)]
    ends = next(iter(L.rows.values()), [])
    if len(idx) != 1:
        return None
    if not ends:
        # for e in mesh.id_edges: a, b = mesh.edges[e]
        for s_ in loop.body:
            if isinstance(s_, ast.Assign) and len(s_.targets) == 1 and isinstance(s_.targets[0], ast.Tuple) and len(s_.targets[0].elts) == 2 \
                    and all(isinstance(x, ast.Name) for x in s_.targets[0].elts) and isinstance(s_.value, ast.Subscript) \
                    and au.chain(s_.value.value) and au.chain(s_.value.value)[-1] == "edges" and au.src(s_.value.slice) == idx[0]:
                ends = [x.id for x in s_.targets[0].elts]
    return idx[0], [x for x in ends if x]


def _edge_table(e):
    """is e the |E| x 2 table of the edges?  (np.array(mesh.edges).reshape((m, 2)) and the like)"""
    while isinstance(e, ast.Call) and isinstance(e.func, ast.Attribute) and e.func.attr in ("reshape", "astype", "copy"):
        if e.func.attr == "reshape":
            shp = e.args[0] if len(e.args) == 1 else ast.Tuple(elts=list(e.args), ctx=ast.Load())
            if not (isinstance(shp, ast.Tuple) and len(shp.elts) == 2 and au.const(shp.elts[1]) == 2):
                return False
        e = e.func.value
    if not (isinstance(e, ast.Call) and au.call_tail(e) in ("array", "asarray") and e.args):
        return False
    a = e.args[0]
    if isinstance(a, ast.Call) and isinstance(a.func, ast.Name) and a.func.id in ("list", "tuple") and len(a.args) == 1:
        a = a.args[0]
    return au.chain(a) is not None and au.chain(a)[-1] == "edges"


def _comp_column(e):
    """k when e is an unfiltered comprehension / generator over the edges yielding endpoint k of every edge, in edge order:
    (e[k] for e in mesh.edges), [a for a, b in mesh.edges], (mesh.edges[i][k] for i in mesh.id_edges / range(len(mesh.edges)))"""
    if not (isinstance(e, (ast.GeneratorExp, ast.ListComp)) and len(e.generators) == 1):
        return None
    g = e.generators[0]
    if g.ifs or getattr(g, "is_async", 0):
        return None
    elt = e.elt
    while isinstance(elt, ast.Call) and isinstance(elt.func, ast.Name) and elt.func.id in ("int", "float") and len(elt.args) == 1 and not elt.keywords:
        elt = elt.args[0]
    ch = au.chain(g.iter)
    if ch and ch[-1] == "edges":
        if isinstance(g.target, ast.Name) and isinstance(elt, ast.Subscript) and isinstance(elt.value, ast.Name) and elt.value.id == g.target.id:
            k = au.literal(elt.slice)
            if isinstance(k, int) and not isinstance(k, bool) and k in (0, 1, -1, -2):
                return k % 2
        if isinstance(g.target, (ast.Tuple, ast.List)) and len(g.target.elts) == 2 and all(isinstance(x, ast.Name) for x in g.target.elts) \
                and isinstance(elt, ast.Name):
            names = [x.id for x in g.target.elts]
            if names[0] != names[1] and elt.id in names:
                return names.index(elt.id)
        return None
    # index spelling
    is_ids = bool(ch) and ch[-1] == "id_edges"
    if not is_ids and isinstance(g.iter, ast.Call) and isinstance(g.iter.func, ast.Name) and g.iter.func.id == "range" and len(g.iter.args) == 1 \
            and not g.iter.keywords:
        a = g.iter.args[0]
        if isinstance(a, ast.Call) and isinstance(a.func, ast.Name) and a.func.id == "len" and len(a.args) == 1:
            c2 = au.chain(a.args[0])
            is_ids = bool(c2) and c2[-1] == "edges"
    if is_ids and isinstance(g.target, ast.Name) and isinstance(elt, ast.Subscript) and isinstance(elt.value, ast.Subscript):
        inner = elt.value
        c3 = au.chain(inner.value)
        if c3 and c3[-1] == "edges" and isinstance(inner.slice, ast.Name) and inner.slice.id == g.target.id:
            k = au.literal(elt.slice)
            if isinstance(k, int) and not isinstance(k, bool) and k in (0, 1, -1, -2):
                return k % 2
    return None


def _layout(e):
    """abstract layout of a vectorised expression over the edge table E:
    ('cols', (i, j)) = E with its columns ordered i, j; ('col', i); ('inter', i, j) = [c_i[0], c_j[0], c_i[1], c_j[1], ...];
    ('block', i, j) = [c_i..., c_j...]; None = not recognised"""
    if _edge_table(e):
        return ("cols", (0, 1))
    if isinstance(e, ast.Subscript) and isinstance(e.slice, ast.Tuple) and len(e.slice.elts) == 2:
        base = _layout(e.value)
        rows, col = e.slice.elts
        if base and base[0] == "cols" and isinstance(rows, ast.Slice) and rows.lower is None and rows.upper is None and rows.step is None:
            if isinstance(col, ast.Slice) and col.lower is None and col.upper is None and au.const(col.step) == -1:
                return ("cols", base[1][::-1])
            k = au.literal(col)
            if isinstance(k, int) and k in (0, 1, -1, -2):
                return ("col", base[1][k])
            if isinstance(k, list) and sorted(k) == [0, 1]:
                return ("cols", tuple(base[1][i] for i in k))
    if isinstance(e, ast.Attribute) and e.attr == "T":
        return None
    k = _comp_column(e)
    if k is not None:
        return ("col", k)
    if isinstance(e, ast.Call):
        t = au.call_tail(e)
        if t == "fromiter" and e.args:
            k = _comp_column(e.args[0])
            if k is not None:
                return ("col", k)
        if t in ("fliplr",) and len(e.args) == 1:
            base = _layout(e.args[0])
            return ("cols", base[1][::-1]) if base and base[0] == "cols" else None
        if t == "flip" and len(e.args) >= 1 and any(k.arg == "axis" and au.const(k.value) in (1, -1) for k in e.keywords):
            base = _layout(e.args[0])
            return ("cols", base[1][::-1]) if base and base[0] == "cols" else None
        if t in ("flatten", "ravel") and isinstance(e.func, ast.Attribute) and not e.args:
            base = _layout(e.func.value)
            return ("inter",) + base[1] if base and base[0] == "cols" else None
        if t == "ravel" and len(e.args) == 1:
            base = _layout(e.args[0])
            return ("inter",) + base[1] if base and base[0] == "cols" else None
        if t == "reshape" and isinstance(e.func, ast.Attribute) and len(e.args) == 1 and au.const(e.args[0]) == -1:
            base = _layout(e.func.value)
            return ("inter",) + base[1] if base and base[0] == "cols" else None
        if t in ("concatenate", "hstack") and len(e.args) >= 1 and isinstance(e.args[0], (ast.Tuple, ast.List)) and len(e.args[0].elts) == 2:
            parts = [_layout(x) for x in e.args[0].elts]
            if all(p and p[0] == "col" for p in parts):
                return ("block", parts[0][1], parts[1][1])
        if t in ("astype", "copy") and isinstance(e.func, ast.Attribute):
            return _layout(e.func.value)
        if t in ("array", "asarray") and len(e.args) >= 1:
            return _layout(e.args[0])
    return None


def _value_layout(e):
    """'inter' for np.repeat(w, 2), 'block' for np.tile(w, 2) / concatenate((w, w)), 'const' for np.ones / np.full"""
    if isinstance(e, ast.Call):
        t = au.call_tail(e)
        if t == "repeat" and len(e.args) == 2 and au.const(e.args[1]) == 2:
            return "inter", e.args[0]
        if t == "tile" and len(e.args) == 2 and au.const(e.args[1]) == 2:
            return "block", e.args[0]
        if t in ("concatenate", "hstack") and e.args and isinstance(e.args[0], (ast.Tuple, ast.List)) and len(e.args[0].elts) == 2 \
                and au.same(e.args[0].elts[0], e.args[0].elts[1]):
            return "block", e.args[0].elts[0]
        if t in ("ones", "full", "ones_like"):
            return "const", e
    return None


def _strided(V, b, arr):
    """layout of an array filled by `arr[0::2] = <column>` and `arr[1::2] = <column>`"""
    got = {}
    for s in au.stmts(V.body):
        if not isinstance(s, ast.Assign) or len(s.targets) != 1:
            continue
        t, v = s.targets[0], s.value
        pairs = list(zip(t.elts, v.elts)) if isinstance(t, ast.Tuple) and isinstance(v, ast.Tuple) and len(t.elts) == len(v.elts) else [(t, v)]
        for tt, vv in pairs:
            if isinstance(tt, ast.Subscript) and isinstance(tt.value, ast.Name) and tt.value.id == arr and isinstance(tt.slice, ast.Slice) \
                    and au.const(tt.slice.step) == 2 and tt.slice.upper is None:
                lo = 0 if tt.slice.lower is None else au.const(tt.slice.lower)
                lay = _layout(b.resolve(vv, at=s))
                if lo in (0, 1) and lay and lay[0] == "col":
                    if lo in got:
                        return None
                    got[lo] = lay[1]
                else:
                    return None
    if set(got) == {0, 1}:
        return ("inter", got[0], got[1])
    return None


def element_loop(F, loop, container):
    """(index name, set of texts naming the row of the current element) when `loop` runs over all the elements of mesh.<container> in any
    spelling (enumerate(mesh.K), for i in mesh.id_K / range(len(mesh.K)) with row = mesh.K[i], for row in mesh.K); None otherwise"""
    if not isinstance(loop, ast.For):
        return None
    L = he_seq.LoopCtx(F, loop.target, loop.iter, loop)
    if L.seq is None or L.seq.base is None or not he_seq.full(L.seq):
        return None
    tail = L.seq.base.split(".")[-1]
    if tail not in (container, "id_" + container):
        return None
    idx = next((nm for nm, d in L.names.items() if (d[0] == "idx" and d[2].is_zero()) or (d[0] == "at" and d[1].endswith(".id_" + container) and d[2] == 0)), None)
    rows = {nm for nm, d in L.names.items() if d[0] == "at" and d[1].endswith("." + container) and d[2] == 0 and not d[3]}
    if idx is not None:
        for s in au.stmts(loop.body):
            for nm, v in sym.split_assign(s):
                if isinstance(v, ast.Subscript) and au.chain(v.value) and au.chain(v.value)[-1] == container and au.src(v.slice) == idx:
                    rows.add(nm)
                    rows.add(au.src(v))
        prefix = L.seq.base.rsplit(".", 1)[0]
        rows.add(f"{prefix}.{container}[{idx}]")
    return idx, rows


def _component(V, e):
    """a name bound by  a, b = (x, y) if cond else (u, v)  is the conditional expression of its own component"""
    if not isinstance(e, ast.Name):
        return e
    hits = []
    for s_ in au.stmts(V.body):
        if isinstance(s_, ast.Assign) and len(s_.targets) == 1 and isinstance(s_.targets[0], (ast.Tuple, ast.List)) and isinstance(s_.value, ast.IfExp):
            names = [x.id if isinstance(x, ast.Name) else None for x in s_.targets[0].elts]
            v = s_.value
            if e.id in names and all(isinstance(x, (ast.Tuple, ast.List)) and len(x.elts) == len(names) for x in (v.body, v.orelse)):
                i = names.index(e.id)
                hits.append(ast.IfExp(test=v.test, body=v.body.elts[i], orelse=v.orelse.elts[i]))
        elif sym.Bindings._assigns(s_, e.id, deep=False):
            hits.append(None)
    return hits[0] if len(hits) == 1 and hits[0] is not None else e


def _data_guards(V, st, loop):
    """guards of a store inside the loop that depend on the data of the iteration (a test on the options of the function alone selects a
    mode, it does not skip elements)"""
    ps = set(au.params(V))
    b = sym.Bindings(V)
    out = []
    for t, pol in au.guards(st, stop=loop):
        r = b.resolve(t, at=st)
        if not (au.names(r) <= ps | {"isinstance", "str", "dict", "bool", "None"}):
            out.append(t)
    return out


def _adjacency_layouts(ctx, fn, V, site, F, arrays, ctor):
    """layout of rows / cols / values of adjacency_matrix, read from per-edge loops or from vectorised expressions"""
    d, r, c = arrays
    b = F.b
    und, bad = [], []
    lay = {}
    # ---- per-edge loop stores  arr[2*e + k] = endpoint
    loop_stores = {d: [], r: [], c: []}
    for s in au.stmts(V.body):
        if isinstance(s, ast.Assign):
            pairs = []
            for t in s.targets:
                v = s.value
                pairs += list(zip(t.elts, v.elts)) if isinstance(t, ast.Tuple) and isinstance(v, ast.Tuple) and len(t.elts) == len(v.elts) else [(t, v)]
            for tt, vv in pairs:
                if isinstance(tt, ast.Subscript) and isinstance(tt.value, ast.Name) and tt.value.id in loop_stores and not isinstance(tt.slice, ast.Slice):
                    lp = next((a for a in au.ancestors(s) if isinstance(a, ast.For)), None)
                    loop_stores[tt.value.id].append((s, tt, vv, lp))
    for arr in (r, c):
        if loop_stores[arr]:
            slots = {}
            for s, tt, vv, lp in loop_stores[arr]:
                el = _edge_loop(F, lp) if lp is not None else None
                sl = _slot(b.resolve(tt.slice, at=s, keep=(el[0],)), el[0]) if el else None
                if not el or sl is None or _data_guards(V, s, lp):
                    und.append(f"a store into `{arr}` is not read as an unconditional store at slot 2*e+k of a loop over the edges")
                    continue
                val = b.resolve(vv, at=s, keep=tuple(el[1]))
                end = el[1].index(val.id) if isinstance(val, ast.Name) and val.id in el[1] else None
                if end is None:
                    und.append(f"the value stored into `{arr}` is not an endpoint of the edge")
                    continue
                if sl in slots:
                    bad.append(f"slot {sl[0]}*e+{sl[1]} of {arr} is stored twice")
                slots[sl] = end
            if not und and not bad:
                if sorted(slots) == [(2, 0), (2, 1)]:
                    lay[arr] = ("inter", slots[(2, 0)], slots[(2, 1)])
                else:
                    bad.append(f"`{arr}` is stored at slots {sorted(slots)} of the edge loop: expected 2*e and 2*e+1")
        else:
            l = _layout(b.resolve(ast.Name(id=arr, ctx=ast.Load()), at=ctor)) or _strided(V, b, arr)
            if l is None or l[0] not in ("inter", "block"):
                und.append(f"neither per-edge stores at slots 2*e, 2*e+1 nor a recognised vectorised layout found for `{arr}`")
            else:
                lay[arr] = l
    return lay, und, bad, loop_stores


def _weights_lookup(ctx, fn, V, site):
    """custom weights are a dict edge id -> weight: every data read must be a lookup by the id of an edge"""
    if "weights" not in au.params(fn):
        ctx.undecided("C08-S3", site, "adjacency_matrix: the `weights` option not found", "")
        return
    m = ctx.repo.module(ADJ)
    K = H.Kinds(ctx.repo, m.name, V, H.make_attr_func_kind(ctx.repo, m.name))
    keyed = 0
    for n in au.walk(V):
        if not (isinstance(n, ast.Name) and n.id == "weights" and isinstance(n.ctx, ast.Load)):
            continue
        par = au.parent(n)
        if isinstance(par, ast.Compare) or (isinstance(par, ast.Call) and au.call_tail(par) in ("isinstance", "type", "len", "str", "repr", "format")) \
                or isinstance(par, (ast.FormattedValue, ast.JoinedStr)):
            continue
        idx = None
        if isinstance(par, ast.Subscript) and par.value is n:
            idx = par.slice
        elif isinstance(par, ast.Attribute) and par.attr == "get" and isinstance(au.parent(par), ast.Call) and au.parent(par).args:
            idx = au.parent(par).args[0]
        if idx is not None:
            k = K.kind(idx, K._scope_of(par))
            keyed += 1
            if k == "edges":
                ctx.ok("C08-S3", ctx.site(ADJ, fn, par), "custom weight looked up by edge id")
            elif isinstance(k, str):
                ctx.fail("C08-S3", ctx.site(ADJ, fn, par), f"adjacency_matrix: a custom weight is looked up with an id of {k}, not with the id of an edge",
                         "weights is a dict edge_id -> weight")
            else:
                ctx.undecided("C08-S3", ctx.site(ADJ, fn, par), "adjacency_matrix: the key of a custom weight lookup is not known to be the id of an edge", "")
        elif isinstance(par, ast.Attribute) and par.attr in ("items", "keys"):
            keyed += 1
            ctx.undecided("C08-S3", ctx.site(ADJ, fn, n), "adjacency_matrix: custom weights are iterated with their keys; the pairing of each weight with its edge is not followed", "")
        elif isinstance(par, ast.Attribute) and par.attr in ("values",) or (isinstance(par, ast.Call) and au.call_tail(par) in ("list", "tuple", "fromiter", "array", "asarray", "sorted")) \
                or isinstance(par, (ast.For, ast.comprehension)):
            use = au.src(au.parent(par)) if isinstance(par, ast.Attribute) else au.src(par)
            ctx.fail("C08-S3", ctx.site(ADJ, fn, n), f"adjacency_matrix: custom weights are read through `{use[:80]}` instead of a lookup `weights[e]` by the id of the edge being emitted",
                     "weights is a dict edge_id -> weight: taking its values in iteration (insertion) order attaches them to the wrong edges as soon as the "
                     "dict was not filled in increasing edge order")
            keyed += 1
        # other uses (passed on to a helper ...): not decided here
    if keyed == 0:
        ctx.undecided("C08-S3", site, "adjacency_matrix: lookup `weights[e]` of the custom weight of an edge not recognised",
                      "the custom dict option must read the weight of each edge under that edge's id")


def s3_adjacency(ctx):
    fn = ctx.repo.func(ADJ, "adjacency_matrix")
    m = ctx.repo.module(ADJ)
    site = ctx.site(ADJ, fn)
    V = H.fview(ctx, ADJ, fn)
    F = he_seq.Forms(V, ctx.repo, m.name)
    b = F.b
    arrays, ctor = H.coo_arrays(V)
    _weights_lookup(ctx, fn, V, site)
    if not arrays:
        ctx.undecided("C08-S3", site, "adjacency_matrix: sparse constructor `coo_matrix((vals, (rows, cols)))` not recognised", "")
    else:
        d, r, c = arrays
        lay, und, bad, loop_stores = _adjacency_layouts(ctx, fn, V, site, F, arrays, ctor)
        if r in lay and c in lay and not bad:
            lr, lc = lay[r], lay[c]
            if not (lr[0] == lc[0] and lr[1:] == lc[1:][::-1] and lr[1] != lr[2]):
                bad.append(f"rows are laid out as {lr} and cols as {lc}: expected the same layout with the two endpoint columns swapped")
        # values
        kinds = set()
        if loop_stores[d]:
            # per-edge stores: the two slots of an edge receive the same weight in every branch
            groups = {}
            for s, tt, vv, lp in loop_stores[d]:
                groups.setdefault(id(lp), []).append((s, tt, vv, lp))
            for g in groups.values():
                lp = g[0][3]
                el = _edge_loop(F, lp) if lp is not None else None
                sl = {}
                for s, tt, vv, _ in g:
                    k = _slot(b.resolve(tt.slice, at=s, keep=(el[0],)), el[0]) if el else None
                    if k is None or _data_guards(V, s, lp):
                        und.append("a store of a weight is not read as an unconditional store at slot 2*e+k of a loop over the edges")
                    else:
                        sl[k] = au.norm(b.resolve(vv, at=s, keep=(el[0],)))
                if not und:
                    if sorted(sl) != [(2, 0), (2, 1)]:
                        bad.append(f"weights are stored at slots {sorted(sl)} of the edge loop: expected 2*e and 2*e+1")
                    elif sl[(2, 0)] != sl[(2, 1)]:
                        bad.append("the two entries of an edge receive different weights")
            kinds.add("inter")
        # whole-array bindings of the value array (vectorised branches / constant weights)
        for s in au.stmts(V.body):
            for nm, v in sym.split_assign(s):
                if nm != d:
                    continue
                rv = b.resolve(v, at=s)
                if isinstance(rv, ast.IfExp) and all(isinstance(x, ast.Call) and au.call_tail(x) in ("ones", "zeros", "empty", "full") for x in (rv.body, rv.orelse)):
                    continue        # allocation chosen by an option: constant weights or filled by stores
                vl = _value_layout(rv)
                if vl is not None:
                    if vl[0] != "const":
                        kinds.add(vl[0])
                elif isinstance(v, ast.Call) and au.call_tail(v) in ("zeros", "empty", "zeros_like"):
                    pass           # allocation, filled by stores
                else:
                    und.append(f"a binding of `{d}` is not read as a per-edge weight duplicated for the two entries of the edge")
        if r in lay and not bad and not und:
            wrong = [k for k in kinds if k != lay[r][0]]
            if wrong:
                bad.append(f"values are laid out per edge as `{wrong[0]}` but rows / cols as `{lay[r][0]}`")
        if bad:
            ctx.fail("C08-S3", site, "adjacency_matrix: " + "; ".join(dict.fromkeys(bad)),
                     "M[i,j] = M[j,i] = w for every edge (i,j): both transposed positions must be written and carry that edge's weight")
        elif und:
            ctx.undecided("C08-S3", site, "adjacency_matrix: " + "; ".join(dict.fromkeys(und)),
                          "the two entries (a,b) and (b,a) of every edge and their common weight could not be related")
        else:
            ctx.ok("C08-S3", site, f"adjacency_matrix: rows {lay[r]} / cols {lay[c]}, both entries of an edge share its weight")
    # vertex_to_edge_operator
    fn = ctx.repo.func(ADJ, "vertex_to_edge_operator")
    site = ctx.site(ADJ, fn)
    V = H.fview(ctx, ADJ, fn)
    F = he_seq.Forms(V, ctx.repo, m.name)
    b = F.b
    st = ST.Stencil(V)
    us = ST.units(st, V.body)
    ok, why = None, ""
    if len(us) == 1:
        loop, paths = us[0]
        el = _edge_loop(F, loop)
        paths = [p for p in paths if p.entries]
        only_option = all(isinstance(au.strip_not(t)[0], ast.Name) and au.strip_not(t)[0].id == "oriented" for p in paths for t, _ in p.conds)
        if el and len(el[1]) == 2 and paths and only_option and not any(p.unclear for p in paths):
            verdicts = []
            for p in paths:
                emits = p.entries
                known = {au.strip_not(t)[0].id: (pol == au.strip_not(t)[1]) for t, pol in p.conds}
                by_row = {au.src(e.row): e for e in emits}
                if len(emits) == 2 and set(by_row) == set(el[1]) and all(au.src(e.col) == el[0] for e in emits):
                    orig = _component(V, b.resolve(by_row[el[1][0]].val, at=by_row[el[1][0]].node))
                    dest = _component(V, b.resolve(by_row[el[1][1]].val, at=by_row[el[1][1]].node))
                    for oriented in ([known["oriented"]] if "oriented" in known else [True, False]):
                        o, d = au.const(_specialise(orig, {"oriented": oriented})), au.const(_specialise(dest, {"oriented": oriented}))
                        if o is None or d is None:
                            verdicts.append(None)
                        else:
                            good = d == 1 and o == (-1 if oriented else 1)
                            verdicts.append(good)
                            if not good:
                                why = f"with oriented={oriented} the origin gets {o} and the arrival {d}"
                elif len(emits) == 2 and all(au.src(e.col) == el[0] for e in emits) and set(by_row) <= set(el[1]):
                    verdicts.append(False)
                    why = f"the two entries of an edge are stored in the row(s) {sorted(by_row)}, not one per endpoint"
                elif len(emits) != 2:
                    verdicts.append(False)
                    why = f"{len(emits)} entries per edge"
                elif not all(au.src(e.col) == el[0] for e in emits):
                    verdicts.append(False)
                    why = "an entry is not stored in the column of the edge"
                else:
                    verdicts.append(None)
            if verdicts and None not in verdicts:
                ok = all(verdicts)
            elif False in verdicts:
                ok = False
    if ok is None:
        ctx.undecided("C08-S3", site, "vertex_to_edge_operator: assembly of one entry per endpoint of every edge not recognised", "")
    else:
        ctx.check(ok, "C08-S3", site, f"vertex_to_edge_operator: not one entry per endpoint in column e with origin -1 iff oriented ({why})",
                  "M[v,e] = 1 for both ends, and -1 at the origin (first vertex of the edge) when oriented", note="one entry per endpoint; origin -1 iff oriented")
    # vertex_to_face_operator
    fn = ctx.repo.func(ADJ, "vertex_to_face_operator")
    site = ctx.site(ADJ, fn)
    V = H.fview(ctx, ADJ, fn)
    F = he_seq.Forms(V, ctx.repo, m.name)
    b = F.b
    st = ST.Stencil(V)
    ok, why = None, ""
    for loop in [s for s in au.stmts(V.body) if isinstance(s, ast.For)]:
        paths = [p for p in st.paths(loop.body) if p.entries]
        if not paths:
            continue
        outer = [a for a in au.ancestors(loop) if isinstance(a, ast.For)]
        if len(paths) != 1 or paths[0].conds or paths[0].unclear or len(paths[0].entries) != 1 or not outer or au.guards(loop, stop=outer[0]):
            continue
        el = element_loop(F, outer[-1], "faces")
        if el is None or el[0] is None or not el[1]:
            continue
        fi, rows_ = el
        e = paths[0].entries[0]
        v = b.resolve(e.val, at=e.node, keep=tuple(r for r in rows_ if r.isidentifier()))
        coef, num, den = H.factors(v)
        val_ok = coef == 1 and not num and len(den) == 1 and isinstance(den[0], ast.Call) and au.call_tail(den[0]) == "len" and len(den[0].args) == 1 \
            and (au.src(den[0].args[0]) in rows_ or F.key(den[0].args[0], e.node) in rows_)
        over_row = (F.key(loop.iter, loop) in rows_ or au.src(loop.iter) in rows_) and isinstance(loop.target, ast.Name)
        if not over_row:
            continue
        ok = val_ok and au.src(e.col) == loop.target.id and au.src(e.row) == fi
        why = f"entry ({au.src(e.row)}, {au.src(e.col)}) = {au.src(v)} for every vertex of a face"
    if ok is None:
        ctx.undecided("C08-S3", site, "vertex_to_face_operator: assembly of one entry per (face, vertex of the face) not recognised", "")
    else:
        ctx.check(ok, "C08-S3", site, f"vertex_to_face_operator: not one entry 1/len(T) per vertex of every face ({why})",
                  "averaging operator: each row sums to one and has one entry per incidence", note="1/len(T) per incidence")


# ----------------------------------------------------------------------- C08-S4
GEOM_CALLS = {"norm", "distance", "hypot"}


def _gradient_path(ctx, fn, V, F, loop, path, kinds):
    """-> (per-vertex {'re': Poly, 'im': Poly}, coords, verts, fi), problems (contradictions), unclear (unread shapes)"""
    b = F.b
    bad, und = [], []
    LF = he_seq.LoopCtx(F, loop.target, loop.iter, loop)
    fi = next((nm for nm, d in LF.names.items() if d[0] == "idx" and d[2].is_zero()), None)
    verts = next((r for r in LF.rows.values() if None not in r), None)
    if LF.seq is None or not (LF.seq.base or "").endswith(".faces") or fi is None or not verts or len(verts) != 3:
        return None, [], ["the loop over (face index, (A, B, C)) of the triangles not recognised"]
    # local coordinates: components of conn.project(<position of a vertex> [- <position of an origin vertex>], face)
    coords, origin = {}, set()

    def pairs_of(t, v):
        """(pair of names, call) for  (x, y) = f(..)  also inside  (xA, yA), (xB, yB) = f(A), f(B)  /  ... = (f(v) for v in (A, B))"""
        if isinstance(t, (ast.Tuple, ast.List)) and len(t.elts) == 2 and all(isinstance(x, ast.Name) for x in t.elts) and isinstance(v, ast.Call):
            yield tuple(x.id for x in t.elts), v
        elif isinstance(t, (ast.Tuple, ast.List)) and isinstance(v, (ast.Tuple, ast.List)) and len(t.elts) == len(v.elts):
            for a, c in zip(t.elts, v.elts):
                yield from pairs_of(a, c)
        elif isinstance(t, (ast.Tuple, ast.List)) and isinstance(v, (ast.GeneratorExp, ast.ListComp)) and len(v.generators) == 1 and not v.generators[0].ifs \
                and isinstance(v.generators[0].target, ast.Name):
            items = he_norm.lit_items(v.generators[0].iter)
            if items is not None and len(items) == len(t.elts):
                for a, it in zip(t.elts, items):
                    yield from pairs_of(a, sym.subst(v.elt, {v.generators[0].target.id: it}))
    for s in au.stmts(loop.body):
        if not (isinstance(s, ast.Assign) and len(s.targets) == 1):
            continue
        for names, call in pairs_of(s.targets[0], s.value):
            if not (au.call_tail(call) == "project" and len(call.args) == 2):
                continue
            p = b.resolve(call.args[0], at=s, keep=tuple(verts) + (fi,))
            face = b.resolve(call.args[1], at=s, keep=(fi,))
            v = he_seq.vertex_index(p)
            rel = None
            if v is None and isinstance(p, ast.BinOp) and isinstance(p.op, ast.Sub):
                v, rel = he_seq.vertex_index(p.left), he_seq.vertex_index(p.right)
            if isinstance(v, ast.Name) and v.id in verts and au.src(face) == fi and (rel is None or (isinstance(rel, ast.Name) and rel.id in verts)):
                if v.id in coords and coords[v.id] != names:
                    bad.append(f"the position of vertex {v.id} is projected into two different pairs of local coordinates (another vertex of the face is never projected)")
                coords[v.id] = names
                if rel is not None:
                    origin.add(rel.id)
            elif isinstance(v, ast.Name) and v.id in verts and au.src(face) != fi:
                bad.append(f"the coordinates of vertex {v.id} are projected in the basis of `{au.src(face)}`, not of the face being assembled")
    # names bound through nested unpacking  (xA, yA), (xB, yB), (xC, yC) = <tuple of pairs>  are looked through
    leaf, dup = {}, set()

    def leaves(t, v):
        if isinstance(t, ast.Name):
            yield t.id, v
        elif isinstance(t, (ast.Tuple, ast.List)) and isinstance(v, (ast.Tuple, ast.List)) and len(t.elts) == len(v.elts):
            for a, c in zip(t.elts, v.elts):
                yield from leaves(a, c)
        elif isinstance(t, (ast.Tuple, ast.List)) and isinstance(v, (ast.GeneratorExp, ast.ListComp)) and len(v.generators) == 1 and not v.generators[0].ifs \
                and isinstance(v.generators[0].target, ast.Name):
            items = he_norm.lit_items(v.generators[0].iter)
            if items is not None and len(items) == len(t.elts):
                for a, it in zip(t.elts, items):
                    yield from leaves(a, sym.subst(v.elt, {v.generators[0].target.id: it}))
    for s in au.stmts(loop.body):
        if isinstance(s, ast.Assign) and len(s.targets) == 1 and isinstance(s.targets[0], (ast.Tuple, ast.List)) \
                and any(isinstance(x, (ast.Tuple, ast.List)) for x in s.targets[0].elts):
            for nm, v in leaves(s.targets[0], s.value):
                if nm in leaf:
                    dup.add(nm)
                leaf[nm] = b.resolve(v, at=s, keep=tuple(verts) + (fi,))
    for nm in dup:
        leaf.pop(nm, None)
    rowtexts = {f"{LF.seq.base}[{fi}]"} | {r for r in LF.names if LF.names[r][0] == "at"}

    def vert_name(x):
        if isinstance(x, ast.Name) and x.id in verts:
            return x.id
        if isinstance(x, ast.Subscript) and isinstance(x.slice, ast.Constant) and x.slice.value in (0, 1, 2) and au.src(x.value) in rowtexts:
            return verts[x.slice.value]
        return None

    def inline_coord(x):
        """atom of  conn.project(P, face)[k]  /  .x  /  .y  written in place (no intermediate name)"""
        k = None
        if isinstance(x, ast.Subscript) and isinstance(x.slice, ast.Constant) and x.slice.value in (0, 1):
            k, c = x.slice.value, x.value
        elif isinstance(x, ast.Attribute) and x.attr in ("x", "y"):
            k, c = "xy".index(x.attr), x.value
        if k is None or not (isinstance(c, ast.Call) and au.call_tail(c) == "project" and len(c.args) == 2):
            return None
        p, face = c.args
        v = he_seq.vertex_index(p)
        rel = None
        if v is None and isinstance(p, ast.BinOp) and isinstance(p.op, ast.Sub):
            v, rel = he_seq.vertex_index(p.left), he_seq.vertex_index(p.right)
        vn, rn = (vert_name(v) if v is not None else None), (vert_name(rel) if rel is not None else None)
        if vn is None or (rel is not None and rn is None):
            return None
        if au.src(face) != fi:
            bad.append(f"the coordinates of vertex {vn} are projected in the basis of `{au.src(face)}`, not of the face being assembled")
            return None
        coords.setdefault(vn, (f"x_{vn}", f"y_{vn}"))
        if rn is not None:
            origin.add(rn)
        return coords[vn][k]
    out = {}

    def cpoly(e):
        for _ in range(4):
            used = au.names(e) & set(leaf)
            if not used:
                break
            e = sym.subst(e, {k: leaf[k] for k in used})

        def atom(x):
            if isinstance(x, ast.Name):
                for vv, ns in coords.items():
                    if x.id in ns:
                        return x.id
                return None
            return inline_coord(x)
        return sym.to_poly(e, atom_of=atom, opaque=True)
    for e in path.entries:
        v = b.resolve(e.val, at=e.node, keep=tuple(n for ns in coords.values() for n in ns) + tuple(leaf) + (fi,))
        coef, num, den = H.factors(v)
        den_ok = len(den) == 1 and isinstance(den[0], ast.Subscript) and isinstance(den[0].value, ast.Name) \
            and au.src(b.resolve(den[0].slice, at=e.node, keep=(fi,))) == fi and kinds.kind(den[0].value) == ("idx", "faces")
        if not den_ok:
            clamp = [x for x in den if isinstance(x, ast.Call) and au.call_tail(x) in ("max", "maximum", "min", "minimum", "clip")
                     and any(isinstance(a, ast.Constant) or (isinstance(a, ast.Name) and a.id.isupper()) or (isinstance(a, ast.Name) and a.id.startswith("_")) for a in x.args)]
            if clamp:
                bad.append(f"the coefficient is divided by `{au.src(clamp[0])}`: the doubled face area is clamped by an absolute constant")
            else:
                und.append("a coefficient is not read as numerator / (2 * area of the face)")
            continue
        coef = coef * 2
        col = au.src(b.resolve(e.col, at=e.node, keep=tuple(verts)))
        if col not in verts:
            und.append(f"a column index is not read as a vertex of the face")
            continue
        try:
            rowp = sym.to_poly(b.resolve(e.row, at=e.node, keep=(fi,)), opaque=False)
        except sym.NotPoly:
            und.append("a row index is not affine in the face index")
            continue
        if len(num) == 1 and isinstance(num[0], ast.Call) and au.call_tail(num[0]) == "complex" and len(num[0].args) == 2:
            if not (rowp == Poly.atom(fi)):
                bad.append(f"the complex entry of vertex {col} is stored in row {rowp}, not in the row of the face")
            out.setdefault(col, {})["re"] = cpoly(num[0].args[0]).scale(coef)
            out.setdefault(col, {})["im"] = cpoly(num[0].args[1]).scale(coef)
        else:
            part = "re" if rowp == Poly.atom(fi).scale(2) else "im" if rowp == Poly.atom(fi).scale(2) + 1 else None
            if part is None:
                bad.append(f"a real entry of vertex {col} is stored in row {rowp} (expected 2*face for the x part, 2*face+1 for the y part)")
                continue
            if part in out.get(col, {}):
                bad.append(f"two entries for the {'x' if part == 're' else 'y'} part of vertex {col}")
            p = Poly.const(coef)
            for x in num:
                p = p * cpoly(x)
            out.setdefault(col, {})[part] = p
    if len(origin) > 1:
        und.append("local coordinates are taken relative to several origins")
    missing = [v for v in verts if v not in coords and v not in origin]
    cname = {n: (v, k) for v, ns in coords.items() for k, n in enumerate(ns)}
    # every atom of the coefficients must be a projected coordinate
    for v, parts in out.items():
        for p in parts.values():
            for a in p.atoms():
                if a in cname:
                    continue
                if a.startswith("⟨") and any(a[1:].startswith(g + "(") or ("." + g + "(") in a for g in GEOM_CALLS):
                    g = next(g for g in GEOM_CALLS if a[1:].startswith(g + "(") or ("." + g + "(") in a)
                    bad.append(f"a local coordinate entering the coefficients is a length computed with `{g}(..)`, not a projection in the basis of the connection")
                else:
                    und.append("a coefficient depends on a quantity that is not a projected coordinate of a vertex of the face")
    if missing and not bad:
        und.append(f"local coordinates of {missing} not found as conn.project(position, face)")
    return (out, coords, verts, fi, origin), list(dict.fromkeys(bad)), list(dict.fromkeys(und))


def s4_gradient(ctx):
    fn = ctx.repo.func(GRAD, "gradient")
    site = ctx.site(GRAD, fn)
    V = H.fview(ctx, GRAD, fn)
    mod = ctx.repo.module(GRAD)
    F = he_seq.Forms(V, ctx.repo, mod.name)
    st = ST.Stencil(V)
    kinds = H.Kinds(ctx.repo, mod.name, V, H.make_attr_func_kind(ctx.repo, mod.name))
    us = ST.units(st, V.body)
    res = {}
    for loop, paths in us:
        for path in paths:
            if not path.entries:
                continue
            cplx = any(isinstance(n, ast.Call) and au.call_tail(n) == "complex" for e in path.entries for n in ast.walk(e.val))
            label = "complex" if cplx else "real"
            lsite = ctx.site(GRAD, fn, path.entries[0].node)
            for node, msg in path.problems:
                ctx.fail("C08-N1", ctx.site(GRAD, fn, node), f"gradient: {msg}", "two entries stored at one slot lose a coefficient")
            if path.unclear:
                ctx.undecided("C08-S4", lsite, f"gradient[{label}]: stores could not be grouped into entries ({path.unclear[0][1]})", "")
                continue
            info, bad, und = _gradient_path(ctx, fn, V, F, loop, path, kinds)
            if bad:
                ctx.fail("C08-S4", lsite, f"gradient[{label}]: " + "; ".join(bad), "the gradient of an affine function must be its constant gradient in the face basis of the connection")
                continue
            if und or info is None:
                ctx.undecided("C08-S4", lsite, f"gradient[{label}]: " + "; ".join(und or ["per-face coefficients not read"]), "")
                continue
            out, coords, verts, fi, origin = info
            full = all(set(out.get(v, {})) == {"re", "im"} for v in verts)
            if not full:
                ctx.fail("C08-S4", lsite, f"gradient[{label}]: not every vertex of the face has an x and a y coefficient", "")
                continue
            zero = Poly()
            sre = sum((out[v]["re"] for v in verts), zero)
            sim = sum((out[v]["im"] for v in verts), zero)
            ctx.check(sre.is_zero() and sim.is_zero(), "C08-S4", lsite,
                      f"gradient[{label}]: the three coefficients of a face sum to ({sre}, {sim}) instead of zero",
                      "the gradient of a constant function must vanish", note=f"{label}: coefficient sum is the zero form")
            X = {v: (Poly.atom(coords[v][0]) if v in coords else Poly()) for v in verts}
            Y = {v: (Poly.atom(coords[v][1]) if v in coords else Poly()) for v in verts}
            A, B, C = verts
            D = (X[B] - X[A]) * (Y[C] - Y[A]) - (X[C] - X[A]) * (Y[B] - Y[A])
            gxx = sum((out[v]["re"] * X[v] for v in verts), zero)
            gxy = sum((out[v]["im"] * X[v] for v in verts), zero)
            gyx = sum((out[v]["re"] * Y[v] for v in verts), zero)
            gyy = sum((out[v]["im"] * Y[v] for v in verts), zero)
            ok = gxx == D and gyy == D and gxy.is_zero() and gyx.is_zero()
            ctx.check(ok, "C08-S4", lsite,
                      f"gradient[{label}]: applied to the local coordinates (x, y) the numerators give [[{gxx}, {gxy}], [{gyx}, {gyy}]] "
                      f"instead of twice the signed area times the identity",
                      "the gradient of an affine function must be its constant gradient: grad x = (1,0), grad y = (0,1) in the face basis",
                      note=f"{label}: exact on affine functions")
            res.setdefault(label, []).append((out, verts, coords, origin))
    if not res:
        if not any(p.entries for _, ps in us for p in ps):
            ctx.undecided("C08-S4", site, "gradient: assembly loop(s) of the per-face coefficients not recognised", "")
        return
    if "complex" in res and "real" in res:
        (o1, v1, c1, g1), (o2, v2, c2, g2) = res["complex"][0], res["real"][0]

        def canon(p, verts, coords, origin):
            """the polynomial over canonical absolute coordinates X<k>, Y<k> of the k-th vertex (coordinates relative to an origin vertex are
            differences of absolute ones)"""
            o = next(iter(origin), None)
            sub = {}
            for k, v in enumerate(verts):
                if v in coords:
                    for ax, nm in zip("XY", coords[v]):
                        q = Poly.atom(f"{ax}{k}")
                        if o is not None:
                            q = q - Poly.atom(f"{ax}{verts.index(o)}")
                        sub[nm] = q
            out = Poly()
            for mono, c in p.t.items():
                term = Poly.const(c)
                for a in mono:
                    term = term * sub.get(a, Poly.atom(a))
                out = out + term
            return out
        same = all(canon(o1[a][part], v1, c1, g1) == canon(o2[c][part], v2, c2, g2) for a, c in zip(v1, v2) for part in ("re", "im"))
        ctx.check(same, "C08-S4", site, "gradient: the complex and the real branch disagree on a coefficient (Re <-> row 2iT, Im <-> row 2iT+1)",
                  "as_complex only changes the storage: G_real[2f] + i G_real[2f+1] must equal G_complex[f]", note="real / complex branches agree slot by slot")
    elif "as_complex" in au.params(fn):
        ctx.undecided("C08-S4", site, f"gradient: only the {list(res)[0]} assembly path recognised", "the complex and the real storage could not be compared")
    # number of rows: |F| for the complex operator, 2|F| for the real one
    e = he_norm.return_expr(V)
    shape = None
    if isinstance(e, ast.Call):
        shape = next((k.value for k in e.keywords if k.arg == "shape"), None)
        if shape is None and len(e.args) >= 2:
            shape = e.args[1]
    if not (isinstance(shape, ast.Tuple) and len(shape.elts) == 2):
        ctx.undecided("C08-S4", site, "gradient: the shape of the returned sparse matrix not recognised", "")
        return
    b = sym.Bindings(V)

    def lenpoly(x):
        def atom(y):
            if isinstance(y, ast.Call) and au.call_tail(y) == "len" and len(y.args) == 1:
                return "len(" + au.src(y.args[0]) + ")"
            return None
        return sym.to_poly(x, atom_of=atom, opaque=True)
    rows_e = shape.elts[0]
    got = {}
    for val in (True, False):
        class T(ast.NodeTransformer):
            def visit_IfExp(self, n):
                t, pol = au.strip_not(n.test)
                if isinstance(t, ast.Name) and t.id == "as_complex":
                    return self.visit(n.body if (val == pol) else n.orelse)
                return self.generic_visit(n)
        got[val] = lenpoly(T().visit(sym.clone(rows_e)))
    nf = Poly.atom("len(mesh.faces)")
    if any(a.startswith("⟨") for p in got.values() for a in p.atoms()):
        ctx.undecided("C08-S4", site, "gradient: the number of rows of the returned matrix is not read as a multiple of the number of faces", "")
    else:
        ctx.check(got[True] == nf and got[False] == nf.scale(2), "C08-S4", site,
                  f"gradient: the returned matrix has {got[True]} rows when complex and {got[False]} rows when real (expected |F| and 2|F|)",
                  "rows 2*iT and 2*iT+1 need 2|F| rows", note="real branch has 2|F| rows")


# ----------------------------------------------------------------------- C08-M1
MASS_KIND = {
    "area_weight_matrix": ("vertices", "faces"), "area_weight_matrix_faces": ("faces", "faces"),
    "area_weight_matrix_edges": ("edges", "faces"), "volume_weight_matrix": ("vertices", "cells"),
    "volume_weight_matrix_cells": ("cells", "cells"),
}
VIEW_PRESERVING = {"atleast_1d", "asarray", "asanyarray", "squeeze", "ravel", "reshape", "view", "transpose", "as_array"}


class _Undecidable(Exception):
    pass


def _truth(e, env):
    """truth value of a test under an assignment of boolean options (constants are evaluated), _Undecidable otherwise"""
    if isinstance(e, ast.Name) and e.id in env:
        return env[e.id]
    if isinstance(e, ast.Constant):
        return bool(e.value)
    if isinstance(e, ast.UnaryOp) and isinstance(e.op, ast.Not):
        return not _truth(e.operand, env)
    if isinstance(e, ast.BoolOp):
        vals = [_truth(v, env) for v in e.values]
        return all(vals) if isinstance(e.op, ast.And) else any(vals)
    if isinstance(e, ast.Compare) and len(e.ops) == 1:
        l, r = _specialise(e.left, env), _specialise(e.comparators[0], env)
        a, c = au.literal(l), au.literal(r)
        if (a is not None or (isinstance(l, ast.Constant))) and (c is not None or isinstance(r, ast.Constant)):
            import operator as _o
            ops = {ast.Eq: _o.eq, ast.NotEq: _o.ne, ast.Lt: _o.lt, ast.LtE: _o.le, ast.Gt: _o.gt, ast.GtE: _o.ge, ast.Is: _o.is_, ast.IsNot: _o.is_not}
            if type(e.ops[0]) in ops:
                try:
                    return bool(ops[type(e.ops[0])](a, c))
                except Exception:
                    pass
    raise _Undecidable(au.src(e))


def _specialise(e, env):
    """expression with its conditional sub-expressions resolved under the assignment env (those that can be decided)"""
    class T(ast.NodeTransformer):
        def visit_IfExp(self, n):
            try:
                t = _truth(n.test, env)
            except _Undecidable:
                return self.generic_visit(n)
            return self.visit(n.body if t else n.orelse)
    return T().visit(sym.clone(e))


TRANSFORMING = {"sqrt", "reciprocal", "power", "float_power", "divide", "true_divide", "square", "cbrt", "exp", "log", "abs", "absolute", "maximum", "minimum",
                "clip", "where", "multiply", "negative", "rsqrt"}


def _num(e):
    from .. import order as _order
    v = _order.fold_const(e)
    return v if isinstance(v, (int, float)) and not isinstance(v, bool) else None


def _power_form(e):
    """(exponent, base) of  base ** exponent  written with np.sqrt / 1/x / np.reciprocal / ** / np.power;
    _Undecidable when the expression transforms its argument in a way the rule does not evaluate"""
    p, b = _power_form0(e)
    for n in ast.walk(b):
        if isinstance(n, ast.BinOp) or (isinstance(n, ast.Call) and au.call_tail(n) in TRANSFORMING):
            raise _Undecidable(au.src(b))
    return p, b


def _power_form0(e):
    from fractions import Fraction as Fr
    _power_form = _power_form0
    if isinstance(e, ast.Call):
        t = au.call_tail(e)
        if t == "sqrt" and len(e.args) == 1:
            p, b = _power_form(e.args[0])
            return p * Fr(1, 2), b
        if t == "reciprocal" and len(e.args) == 1:
            p, b = _power_form(e.args[0])
            return -p, b
        if t in ("power", "float_power") and len(e.args) == 2:
            c = _num(e.args[1])
            if c is not None:
                p, b = _power_form(e.args[0])
                return p * Fr(c).limit_denominator(64), b
        if t in ("divide", "true_divide") and len(e.args) == 2 and au.const(e.args[0]) in (1, 1.0):
            p, b = _power_form(e.args[1])
            return -p, b
        if t in ("atleast_1d", "asarray", "array", "squeeze", "copy") and len(e.args) >= 1:
            return _power_form(e.args[0])
        if t == "copy" and isinstance(e.func, ast.Attribute) and not e.args:
            return _power_form(e.func.value)
    if isinstance(e, ast.BinOp):
        if isinstance(e.op, ast.Div) and au.const(e.left) in (1, 1.0):
            p, b = _power_form(e.right)
            return -p, b
        if isinstance(e.op, ast.Pow) and _num(e.right) is not None:
            p, b = _power_form(e.left)
            return p * Fr(_num(e.right)).limit_denominator(64), b
    return Fr(1), e


def _inplace_on_views(V):
    """[(node, name)]: in-place numpy operations on an array that may be a view of the storage of a mesh attribute (attr.as_array())"""
    hits = []

    def is_view(e, state):
        if isinstance(e, ast.Name):
            return e.id in state
        if isinstance(e, ast.IfExp):
            return is_view(e.body, state) or is_view(e.orelse, state)
        if isinstance(e, ast.Subscript) and isinstance(e.slice, ast.Slice):
            return is_view(e.value, state)
        if isinstance(e, ast.Call):
            t = au.call_tail(e)
            if t == "as_array":
                return True
            if t in VIEW_PRESERVING:
                if isinstance(e.func, ast.Attribute) and not (isinstance(e.func.value, ast.Name) and e.func.value.id in ("np", "numpy")):
                    return is_view(e.func.value, state)
                return bool(e.args) and is_view(e.args[0], state)
        return False

    def walk(body, state):
        for st in body:
            if isinstance(st, ast.Assign):
                for nm, v in sym.split_assign(st):
                    if is_view(v, state):
                        state.add(nm)
                    else:
                        state.discard(nm)
                for t in st.targets:
                    if isinstance(t, ast.Subscript) and isinstance(t.value, ast.Name) and t.value.id in state:
                        hits.append((st, t.value.id))
            elif isinstance(st, ast.AugAssign):
                t = st.target
                if isinstance(t, ast.Name) and t.id in state:
                    hits.append((st, t.id))
                if isinstance(t, ast.Subscript) and isinstance(t.value, ast.Name) and t.value.id in state:
                    hits.append((st, t.value.id))
            elif isinstance(st, ast.Expr) and isinstance(st.value, ast.Call):
                for k in st.value.keywords:
                    if k.arg == "out" and isinstance(k.value, ast.Name) and k.value.id in state:
                        hits.append((st, k.value.id))
            elif isinstance(st, ast.If):
                s1, s2 = set(state), set(state)
                walk(st.body, s1)
                walk(st.orelse, s2)
                state.clear()
                state.update(s1 | s2)
            elif isinstance(st, (ast.For, ast.While, ast.With, ast.Try)):
                walk(st.body, state)
    walk(V.body, set())
    return hits


def _all_plain_arrays(e):
    """every value the expression can take is the array of diagonal coefficients itself (a name, possibly inverted / square-rooted)"""
    leaves = []

    def rec(x):
        if isinstance(x, ast.IfExp):
            rec(x.body)
            rec(x.orelse)
        else:
            leaves.append(x)
    rec(e)
    for x in leaves:
        try:
            p, base = _power_form(x)
        except _Undecidable:
            return False
        if not isinstance(base, (ast.Name, ast.Subscript)) and not (isinstance(base, ast.Call) and au.call_tail(base) in ("zeros", "as_array", "array")):
            return False
    return bool(leaves)


def m1_mass(ctx):
    m = ctx.repo.module(MASS)
    resolver = H.make_attr_func_kind(ctx.repo, m.name)
    for name, (kind, measure) in MASS_KIND.items():
        fn = ctx.repo.func(MASS, name)
        site = ctx.site(MASS, fn)
        V = H.fview(ctx, MASS, fn)
        K = H.Kinds(ctx.repo, m.name, V, resolver)
        # (a) a view of a cached attribute is never modified in place
        for node, nm in _inplace_on_views(V):
            ctx.fail("C08-M1", ctx.site(MASS, fn, node), f"{name}: an array obtained from `attribute.as_array()` is modified in place (`{au.src(node)[:60]}`)",
                     "for a dense attribute as_array() is a view of the storage of the attribute cached on the mesh: the returned matrix is right but the "
                     "cached areas / volumes are overwritten, and every later operator built on them is wrong")
        # (b) the returned matrix is diag(measure ** p), p = (-1 if inverse) * (1/2 if sqrt)
        e = he_norm.return_expr(V)
        if not (isinstance(e, ast.Call) and au.call_tail(e) in ("diags", "spdiags", "dia_matrix") and e.args):
            if isinstance(e, ast.Call) and au.call_tail(e) in ("csc_matrix", "csr_matrix", "coo_matrix", "lil_matrix"):
                ctx.undecided("C08-M1", site, f"{name}: the returned matrix is not built with sp.diags", "a lumped mass matrix is diagonal")
            elif e is not None and _all_plain_arrays(e):
                ctx.fail("C08-M1", site, f"{name}: the function returns the array of diagonal coefficients itself, not a sparse diagonal matrix",
                         "a lumped mass matrix is diagonal with one positive entry per element")
            else:
                ctx.undecided("C08-M1", site, f"{name}: returned sp.diags(<array>) not recognised", "")
            continue
        D = e.args[0]
        opts = [p for p in ("inverse", "sqrt") if p in au.params(fn)]
        bases, problems, und = set(), [], []
        base_expr = None
        for vals in itertools.product((False, True), repeat=len(opts)):
            env = dict(zip(opts, vals))
            d = _specialise(D, env)
            if any(isinstance(x, ast.IfExp) and (au.names(x.test) & set(opts)) for x in ast.walk(d)):
                und.append("the diagonal depends on a condition the rule cannot evaluate")
                break
            try:
                p, base = _power_form(d)
            except _Undecidable:
                und.append("the transformation applied to the diagonal under the options is not evaluated by the rule")
                break
            want = Fraction(1)
            if env.get("inverse"):
                want = -want
            if env.get("sqrt"):
                want = want / 2
            bases.add(au.norm(base))
            base_expr = base
            if p != want:
                on = ", ".join(f"{k}={v}" for k, v in env.items()) or "no option"
                problems.append(f"with {on} the diagonal is the measure to the power {p} instead of {want}")
        if len(bases) > 1 and not und:
            und.append("the diagonal is built from different arrays depending on the options")
        if problems:
            ctx.fail("C08-M1", site, f"{name}: " + "; ".join(problems),
                     "a lumped mass matrix is diagonal with one positive entry per element; `inverse` / `sqrt` return its inverse / square root (A^-1/2 together)")
            continue
        if und:
            ctx.undecided("C08-M1", site, f"{name}: " + "; ".join(und), "")
            continue
        # (c) the diagonal itself
        problems, und = [], []
        if kind == measure:
            be = base_expr
            srcs = be if isinstance(be, ast.Call) and au.call_tail(be) == "as_array" else None
            if srcs is None and isinstance(be, ast.Name):
                d = sym.Bindings(V).resolve(be, at=V.body[-1])
                srcs = d if isinstance(d, ast.Call) and au.call_tail(d) == "as_array" else None
            if srcs is None:
                und.append(f"the diagonal is not read as the {measure[:-1]} measure attribute itself (`attr.as_array(len(mesh.{measure}))`)")
            else:
                recv = srcs.func.value if isinstance(srcs.func, ast.Attribute) else None
                rk = _attr_kind(K, V, recv)
                if rk is not None and rk != measure:
                    problems.append(f"the diagonal is an attribute of the {rk}, expected the measure of the {measure}")
                if len(srcs.args) == 1:
                    lk = K.kind(srcs.args[0])
                    if isinstance(lk, tuple) and lk[0] == "len" and lk[1] != measure:
                        problems.append(f"`{au.src(srcs)}` sizes the array by len(mesh.{lk[1]}), not len(mesh.{measure}) (a sparse attribute is expanded to that length)")
        else:
            diag = base_expr.id if isinstance(base_expr, ast.Name) else None
            if diag is None:
                und.append("the accumulated diagonal array not recognised")
            else:
                k = K.name_kind(diag)
                if isinstance(k, tuple) and k[0] == "idx" and k[1] != kind and k[1] in H.CONTAINERS:
                    problems.append(f"the diagonal `{diag}` has one entry per element of {k[1]}, expected one per element of {kind}")
                accs = [s for s in au.stmts(V.body) if au.increment(s) is not None and isinstance((s.target if isinstance(s, ast.AugAssign) else s.targets[0]), ast.Subscript)
                        and au.src((s.target if isinstance(s, ast.AugAssign) else s.targets[0]).value) == diag]
                plain = [s for s in au.stmts(V.body) if isinstance(s, ast.Assign) and len(s.targets) == 1 and isinstance(s.targets[0], ast.Subscript)
                         and au.src(s.targets[0].value) == diag and au.increment(s) is None and any(isinstance(a, (ast.For, ast.While)) for a in au.ancestors(s))
                         and any(isinstance(x, ast.Subscript) and K.kind(x.value) == ("idx", measure) for x in ast.walk(s.value))]
                if not accs and plain:
                    problems.append(f"the {measure[:-1]} measure is stored into `{diag}[..]` instead of accumulated: only the last incident element counts")
                elif not accs or au.increment(accs[0])[1] != 1 or len({au.src(au.increment(a)[2]) + "|" + au.increment(a)[0] for a in accs}) != 1 \
                        or (len(accs) > 1 and kind == "vertices"):
                    und.append(f"{len(accs)} accumulation(s) `{diag}[i] += measure[j]` found (expected one)")
                else:
                    a = accs[0]
                    coef, num, den = H.factors(sym.Bindings(V).resolve(au.increment(a)[2], at=a))
                    meas = [x for x in num if isinstance(x, ast.Subscript) and K.kind(x.value) == ("idx", measure)]
                    other_attr = [x for x in num if isinstance(x, ast.Subscript) and isinstance(K.kind(x.value), tuple) and K.kind(x.value)[0] == "idx"
                                  and K.kind(x.value)[1] not in (measure, H.ANY)]
                    if other_attr:
                        problems.append(f"the accumulated term reads an attribute of the {K.kind(other_attr[0].value)[1]}, not the {measure[:-1]} measure")
                    elif len(meas) != 1 or len(num) != 1 or den:
                        und.append(f"the accumulated term is not read as the {measure[:-1]} measure of the incident element")
                    loops = [x for x in au.ancestors(a) if isinstance(x, ast.For)]
                    if kind == "vertices" and not und and not problems:
                        Fm = he_seq.Forms(V, ctx.repo, m.name)
                        el = element_loop(Fm, loops[1], measure) if len(loops) == 2 else None
                        outer_ok = el is not None and bool(el[1])
                        sq = Fm.seq(loops[0].iter, loops[0]) if outer_ok else None
                        shape_ok = outer_ok and sq is not None and (sq.base in el[1] or au.src(loops[0].iter) in el[1])
                        if shape_ok and el[0] is not None and meas and au.src(sym.Bindings(V).resolve(meas[0].slice, at=a, keep=(el[0],))) != el[0]:
                            problems.append(f"the measure added to the vertices of an element is read at `{au.src(meas[0].slice)}`, not at the index of that element")
                        if shape_ok and he_seq.full(sq) is None:
                            und.append("the number of vertices visited per element is not known")
                        elif shape_ok and not he_seq.full(sq):
                            problems.append(f"only a part of the vertices of each {measure[:-1]} receives its measure (the inner loop runs over `{au.src(loops[0].iter)}`)")
                        elif not shape_ok:
                            und.append("the loop nest over (element, vertex of the element) not recognised")
                        else:
                            if au.guards(a, stop=loops[1]) or any(isinstance(x, (ast.Continue, ast.Break)) for lp in loops for x in au.stmts(lp.body)):
                                problems.append("the accumulation is conditional: some (element, vertex) incidences do not contribute")
                            if coef != 1:
                                problems.append(f"each incident element contributes {coef} times its measure instead of its measure")
                    elif not und and not problems:
                        Fm = he_seq.Forms(V, ctx.repo, m.name)
                        if not loops or _edge_loop(Fm, loops[-1]) is None or len(loops) > 2:
                            und.append(f"the accumulation over the elements incident to each {kind[:-1]} not recognised")
                        elif coef <= 0:
                            problems.append(f"incident elements contribute with the non-positive coefficient {coef}")
        if problems:
            ctx.fail("C08-M1", site, f"{name}: " + "; ".join(problems),
                     "a lumped mass matrix is diagonal with one positive entry per element, the sum over incident measures")
        elif und:
            ctx.undecided("C08-M1", site, f"{name}: " + "; ".join(und), "")
        else:
            ctx.ok("C08-M1", site, f"{name}: sp.diags over {kind}, measure on {measure}")


def _attr_kind(K, V, e):
    """container of the attribute expression e (through conditional expressions), None when unknown"""
    if e is None:
        return None
    if isinstance(e, ast.IfExp):
        a, c = _attr_kind(K, V, e.body), _attr_kind(K, V, e.orelse)
        return a if a == c else (a or c)
    k = K.kind(e)
    if isinstance(k, tuple) and k[0] == "idx" and k[1] in H.CONTAINERS:
        return k[1]
    return None


# ----------------------------------------------------------------------- C08-K1 (matrix axes)
def k1_matrix_axes(ctx):
    """kinds of the rows / columns emitted against the declared shape"""
    n = 0
    for modname, name in ((LAP, "graph_laplacian"), (ADJ, "adjacency_matrix"), (GRAD, "gradient")):
        fn = ctx.repo.func(modname, name)
        m = ctx.repo.module(modname)
        V = H.fview(ctx, modname, fn)
        K = H.Kinds(ctx.repo, m.name, V, H.make_attr_func_kind(ctx.repo, m.name))
        arrays, ctor = H.coo_arrays(V)
        shape = [k.value for k in (ctor.keywords if ctor else []) if k.arg == "shape"]
        if not arrays or not shape:
            ctx.undecided("C08-K1", ctx.site(modname, fn), f"{name}: sparse constructor with an explicit shape not recognised", "")
            continue
        b = sym.Bindings(V)
        sh = b.resolve(shape[0], at=ctor)
        if not isinstance(sh, ast.Tuple) or len(sh.elts) != 2:
            ctx.undecided("C08-K1", ctx.site(modname, fn), f"{name}: shape of the sparse matrix is not a pair", "")
            continue
        want = []
        for x in sh.elts:
            ks = set()
            for alt in (_specialisations(x) or [x]):
                k = K.kind(alt)
                ks.add(k[1] if isinstance(k, tuple) and k[0] == "len" else None)
                if isinstance(alt, ast.BinOp) and isinstance(alt.op, ast.Mult):
                    for side in (alt.left, alt.right):
                        k2 = K.kind(side)
                        if isinstance(k2, tuple) and k2[0] == "len":
                            ks.discard(None)
                            ks.add(k2[1])
            ks.discard(None)
            want.append(ks.pop() if len(ks) == 1 else None)
        d, r, c = arrays
        for s in au.walk(V):
            pairs = []
            if isinstance(s, ast.Assign) and len(s.targets) == 1:
                t, v = s.targets[0], s.value
                if isinstance(t, ast.Tuple) and isinstance(v, ast.Tuple) and len(t.elts) == len(v.elts):
                    pairs = list(zip(t.elts, v.elts))
                else:
                    pairs = [(t, v)]
            for t, v in pairs:
                if isinstance(t, ast.Subscript) and isinstance(t.value, ast.Name) and t.value.id in (r, c):
                    axis = 0 if t.value.id == r else 1
                    got = K.kind(v, K._scope_of(s))
                    if isinstance(v, ast.BinOp):        # 2*iT (+1): rows of the real gradient are addressed per face
                        for x in ast.walk(v):
                            if isinstance(x, ast.Name) and isinstance(K.kind(x, K._scope_of(s)), str):
                                got = K.kind(x, K._scope_of(s))
                    if want[axis] and isinstance(got, str) and got in H.CONTAINERS:
                        n += 1
                        ctx.check(got == want[axis], "C08-K1", ctx.site(modname, fn, s),
                                  f"{name}: a {'row' if axis == 0 else 'column'} index is an id of {got} but that axis has one line per element of {want[axis]}",
                                  "entries land on lines of the wrong element kind (or beyond the shape)",
                                  note=f"{name}: {'rows' if axis == 0 else 'cols'} are {want[axis]} ids")
    if n == 0:
        ctx.undecided("C08-K1", ctx.site(LAP, "<module>"), "no typed row / column store recognised in graph_laplacian, adjacency_matrix, gradient", "")


# ----------------------------------------------------------------------- C08-O1
def _binding_stmt(name, at):
    """nearest statement before `at` (same or enclosing blocks) that binds `name`"""
    cur = au.enclosing_stmt(at)
    while cur is not None and not isinstance(cur, (ast.FunctionDef, ast.AsyncFunctionDef)):
        blk, owner = au.enclosing_block(cur)
        if blk is None:
            return None
        idx = [id(x) for x in blk].index(id(cur))
        for s in reversed(blk[:idx]):
            if sym.Bindings._assigns(s, name):
                return s
        if isinstance(owner, (ast.For, ast.AsyncFor)) and name in au.assigned_names(owner.target):
            return owner
        cur = owner
    return None


def opposite_index_sites(fn):
    """subscripts / sums of the form 3 - iu - iv : yields (node, [iu, iv])"""
    for n in au.walk(fn):
        if isinstance(n, ast.BinOp) and isinstance(n.op, ast.Sub) and not (isinstance(au.parent(n), ast.BinOp) and isinstance(au.parent(n).op, (ast.Sub, ast.Add))):
            p = sym.to_poly(n, opaque=True)
            neg = [k[0] for k, v in p.t.items() if len(k) == 1 and v == -1]
            if p.const_value() == 3 and len(neg) == 2 and not any(x.startswith("⟨") for x in neg):
                others = [k for k, v in p.t.items() if k and not (len(k) == 1 and v == -1)]
                yield n, neg, others


def _trace_zip_weight(V, F, loop, name, verts):
    """a weight bound by `for (p, q, r), (w1, w2, w3) in zip(mesh.faces, L)`: (vertex of this loop's face whose corner cotangent it is, coefficient)
    read from the `L.append((..))` of the earlier pass over the faces; "uniform" for a constant list; None when not traceable"""
    it = loop.iter
    if not (isinstance(it, ast.Call) and isinstance(it.func, ast.Name) and it.func.id == "zip" and isinstance(loop.target, ast.Tuple)
            and len(loop.target.elts) == len(it.args)):
        return None
    for k, t in enumerate(loop.target.elts):
        elts = t.elts if isinstance(t, (ast.Tuple, ast.List)) else [t]
        for j, x in enumerate(elts):
            if isinstance(x, ast.Name) and x.id == name.id and isinstance(it.args[k], ast.Name):
                L = it.args[k].id
                b = F.b
                kinds = set()
                out = None
                for s in au.stmts(V.body):
                    if any(nm == L for nm, _ in sym.split_assign(s)):
                        v = next(v for nm, v in sym.split_assign(s) if nm == L)
                        if isinstance(v, ast.BinOp) and isinstance(v.op, ast.Mult) and isinstance(v.left, ast.List) and len(v.left.elts) == 1:
                            kinds.add("uniform")
                        elif isinstance(v, ast.List) and not v.elts:
                            pass
                        else:
                            return None
                    if isinstance(s, ast.Expr) and isinstance(s.value, ast.Call) and isinstance(s.value.func, ast.Attribute) and s.value.func.attr == "append" \
                            and isinstance(s.value.func.value, ast.Name) and s.value.func.value.id == L and len(s.value.args) == 1:
                        lp1 = next((a for a in au.ancestors(s) if isinstance(a, ast.For)), None)
                        if lp1 is None or not any(s is y for y in lp1.body):
                            return None
                        L1 = he_seq.LoopCtx(F, lp1.target, lp1.iter, lp1)
                        rows1 = next((r for r in L1.rows.values() if None not in r), None)
                        if L1.seq is None or not (L1.seq.base or "").endswith(".faces") or not rows1 or len(rows1) != len(verts):
                            return None
                        item = s.value.args[0]
                        e1 = item.elts[j] if isinstance(item, (ast.Tuple, ast.List)) and isinstance(t, (ast.Tuple, ast.List)) and len(item.elts) == len(elts) else (item if not isinstance(t, (ast.Tuple, ast.List)) else None)
                        if e1 is None:
                            return None
                        e1 = b.resolve(e1, at=s, keep=tuple(rows1))
                        c1, n1, d1 = H.factors(e1)
                        look = [c for f in n1 for c in ast.walk(f) if isinstance(c, ast.Call) and au.call_tail(c) == "vertex_to_corner_in_face" and c.args]
                        if len(look) != 1 or d1 or au.src(look[0].args[0]) not in rows1:
                            return None
                        kinds.add("cot")
                        out = (verts[rows1.index(au.src(look[0].args[0]))], c1)
                if out is not None:
                    return out
                if kinds == {"uniform"}:
                    return "uniform"
                return None
    return None


def o1_opposite(ctx):
    # (a) laplacian: the weight of edge (x,y) is half the cotangent at the third vertex of the face
    fn = ctx.repo.func(LAP, "laplacian")
    site = ctx.site(LAP, fn)
    V = H.fview(ctx, LAP, fn)
    m = ctx.repo.module(LAP)
    F = he_seq.Forms(V, ctx.repo, m.name)
    b = F.b
    st = ST.Stencil(V)
    n_a = 0
    problems = []
    # a scalar applied to the assembled matrix as a whole (`return 0.5 * mat`) belongs to every weight
    scale = None
    re_ = he_norm.return_expr(V)
    if re_ is not None:
        sc, snum, sden = H.factors(re_)
        if len(snum) == 1 and not sden and isinstance(snum[0], ast.Call) and au.call_tail(snum[0]) in ("csc_matrix", "csr_matrix", "coo_matrix", "tocsc", "tocsr", "tocoo"):
            scale = sc

    def face_verts(loop):
        LF = he_seq.LoopCtx(F, loop.target, loop.iter, loop)
        if LF.seq is None or not (LF.seq.base or "").endswith(".faces"):
            return None
        verts = next((r for r in LF.rows.values() if None not in r), None)
        if verts and len(verts) == 3:
            return list(verts)
        row = next((nm for nm, d in LF.names.items() if d[0] == "at" and d[2] == 0 and not d[3]), None)
        return [f"{row}[{k}]" for k in range(3)] if row else None

    def fold(e):
        return he_norm.fold_literals(ast.Expr(value=sym.clone(e))).value
    for loop, paths in ST.units(st, V.body):
        verts = face_verts(loop)
        if not verts:
            continue
        for path in paths:
            for e in path.entries:
                x, y = au.src(fold(e.row)), au.src(fold(e.col))
                if x == y or x not in verts or y not in verts:
                    continue
                val = fold(b.resolve(fold(e.val), at=e.node, keep=tuple(au.names(ast.parse(verts[0], mode="eval"))) + tuple(v for v in verts if v.isidentifier())))
                coef, num, den = H.factors(val)
                look = [c for f in num for c in ast.walk(f) if isinstance(c, ast.Call) and au.call_tail(c) == "vertex_to_corner_in_face" and c.args]
                at_v = au.src(fold(look[0].args[0])) if look else None
                if not look:
                    # weights prepared per face in an earlier pass and zipped with the faces: follow the list back to where it is filled
                    tr = [_trace_zip_weight(V, F, loop, f, verts) for f in num if isinstance(f, ast.Name)]
                    tr = [t for t in tr if t is not None]
                    if len(tr) != 1:
                        continue
                    if tr[0] == "uniform":
                        continue
                    at_v, c2 = tr[0]
                    coef = coef * c2
                n_a += 1
                third = [v for v in verts if v not in (x, y)]
                if at_v in verts and [at_v] != third:
                    problems.append(f"edge ({x}, {y}) is weighted by the cotangent at {at_v}, the opposite vertex is {third[0]}")
                if scale is not None and (abs(coef * scale) != Fraction(1, 2) or den):
                    problems.append(f"the weight of edge ({x}, {y}) is {abs(coef * scale)} times the cotangent instead of one half")
    # every edge of the face is assembled once in each direction
    all_units = ST.units(st, V.body)
    if len(all_units) > 1:
        all_units = _merge_units(all_units) or []
    for loop, paths in all_units:
        verts = face_verts(loop)
        if not verts:
            continue
        for path in paths:
            offd = [(au.src(fold(e.row)), au.src(fold(e.col))) for e in path.entries if au.src(fold(e.row)) != au.src(fold(e.col))]
            if not offd or path.unclear or not all(x in verts and y in verts for x, y in offd):
                continue
            want = sorted((x, y) for x in verts for y in verts if x != y)
            if sorted(offd) != want:
                missing = [pq for pq in want if pq not in offd]
                twice = sorted({pq for pq in offd if offd.count(pq) > 1})
                problems.append(f"the off-diagonal entries of a face are {sorted(set(offd))}: " + (f"{missing} missing" if missing else "") + (f" {twice} emitted twice" if twice else ""))
                n_a = max(n_a, 1)
    if n_a == 0:
        ctx.undecided("C08-O1", site, "laplacian: off-diagonal entries weighted by a corner cotangent `cot[vertex_to_corner_in_face(v, f)]` not recognised",
                      "cotangent Laplacian: w_xy = (cot at the vertex opposite to edge xy) / 2 per triangle")
    else:
        ctx.check(not problems, "C08-O1", site, "laplacian: " + "; ".join(dict.fromkeys(problems)),
                  "cotangent Laplacian: w_xy = (cot at the vertex opposite to edge xy) / 2 per triangle",
                  note="each edge weighted by half the opposite cotangent")
    # (b) opposite local index 3 - iu - iv uses the indices returned for that very face
    n = 0
    for modname, name in ((LAP, "cotan_edge_diagonal"), ("attributes.attr_edges", "cotan_weights")):
        fn = ctx.repo.func(modname, name)
        V = H.fview(ctx, modname, fn)
        for node, neg, others in opposite_index_sites(V):
            stn = au.enclosing_stmt(node)
            defs = [_binding_stmt(x, node) for x in neg]
            shape = defs[0] is not None and defs[0] is defs[1] and isinstance(defs[0], ast.Assign) and isinstance(defs[0].value, ast.Call) \
                and au.call_tail(defs[0].value) == "direct_face" and isinstance(defs[0].targets[0], ast.Tuple) and len(defs[0].targets[0].elts) == 3
            if not shape:
                both_df = all(d is not None and isinstance(d, ast.Assign) and isinstance(d.value, ast.Call) and au.call_tail(d.value) == "direct_face" for d in defs)
                if both_df and defs[0] is not defs[1]:
                    n += 1
                    ctx.fail("C08-O1", ctx.site(modname, fn, node), f"{name}: an opposite local index `3 - iu - iv` combines local indices returned by two different direct_face calls",
                             "in a triangle the third vertex has local index 3 - iu - iv only when iu, iv are the positions of the edge in that same face")
                continue        # another use of the arithmetic: not the construct of this rule
            n += 1
            tnames = [au.src(t) for t in defs[0].targets[0].elts]
            face = tnames[0]
            ok = set(neg) == set(tnames[1:])
            used = None
            par = au.parent(node)
            if isinstance(par, ast.Subscript) and par.slice is node and isinstance(par.value, ast.Subscript):
                used = au.src(par.value.slice)
            else:
                for c in au.calls(stn):
                    if au.call_tail(c) == "face_to_first_corner" and c.args:
                        used = au.src(c.args[0])
            face_ok = True
            if used is not None:
                face_ok = used == face and _binding_stmt(face, node) is defs[0]
            ctx.check(ok and face_ok, "C08-O1", ctx.site(modname, fn, node),
                      f"{name}: an opposite local index `3 - iu - iv` does not combine the two local indices returned by one direct_face(.., True) call "
                      f"for the face it addresses",
                      "in a triangle the third vertex has local index 3 - iu - iv only when iu, iv are the positions of the edge in that same face",
                      note=f"{name}: 3 - iu - iv from one direct_face call")
    if n == 0:
        ctx.ok("C08-O1", ctx.site(LAP, "<module>"), "no opposite-local-index arithmetic `3 - iu - iv` (corners addressed through the connectivity)")


# ----------------------------------------------------------------------- C08-N1
def _len_poly(b, e, at, env=None):
    def f(x):
        if isinstance(x, ast.Call) and au.call_tail(x) == "len" and len(x.args) == 1:
            return "len(" + au.src(b.resolve(x.args[0], at=at)) + ")"
        return None
    r = b.resolve(e, at=at)
    if env:
        r = _specialise(r, env)
    return sym.to_poly(r, atom_of=f, opaque=True)


def _trip_poly(F, b, lp):
    """number of iterations of a loop as a polynomial over len(...) atoms, None when unknown"""
    it = lp.iter
    if isinstance(it, (ast.List, ast.Tuple)):
        return Poly.const(len(it.elts))
    L = he_seq.LoopCtx(F, lp.target, lp.iter, lp)
    if L.seq is None or L.seq.length is None:
        if isinstance(it, ast.Call) and isinstance(it.func, ast.Name) and it.func.id == "zip" and it.args:
            for a in it.args:
                s = F.seq(a, lp)
                if s is not None and s.base and (s.base.split(".")[-1] in H.CONTAINERS or s.base.split(".")[-1] in H.ID_PROPS):
                    return _seq_len(s)
        return None
    return _seq_len(L.seq)


def _seq_len(s):
    out = Poly()
    for mono, c in s.length.t.items():
        names = []
        for a in mono:
            if not a.startswith("N:"):
                return None
            base = a[2:]
            tail = base.split(".")[-1]
            if tail in H.ID_PROPS and tail.startswith("id_"):
                base = base[: -len(tail)] + H.ID_PROPS[tail]
            names.append(f"len({base})")
        out = out + Poly({tuple(sorted(names)): c})
    return out


def n1_allocation(ctx):
    n = 0
    for modname, name in ((LAP, "laplacian"), (LAP, "laplacian_edges"), (LAP, "graph_laplacian"), (ADJ, "adjacency_matrix"), (GRAD, "gradient")):
        fn = ctx.repo.func(modname, name)
        site = ctx.site(modname, fn)
        m = ctx.repo.module(modname)
        V = H.fview(ctx, modname, fn)
        F = he_seq.Forms(V, ctx.repo, m.name)
        b = F.b
        st = ST.Stencil(V)
        if not st.arrays:
            ctx.undecided("C08-N1", site, f"{name}: COO arrays of the sparse constructor not recognised", "")
            continue
        allocs = [(arr, v, s) for arr in st.arrays for s in au.stmts(V.body) for nm, v in sym.split_assign(s) if nm == arr and isinstance(v, ast.Call) and v.args
                  and au.call_tail(v) in ("zeros", "ones", "empty", "full")]
        if name == "adjacency_matrix":
            for arr, v, s in allocs:
                size = _len_poly(b, v.args[0], s)
                if any(a.startswith("⟨") for a in size.atoms()):
                    continue
                n += 1
                ctx.check(size == Poly.atom("len(mesh.edges)").scale(2), "C08-N1", ctx.site(modname, fn, s),
                          f"{name}: `{arr}` is allocated with {size} entries, two per edge are stored", "slots 2*e and 2*e+1 for every edge need 2|E| entries",
                          note=f"{arr}: 2|E| entries")
            continue
        if not allocs:
            if any(isinstance(v, (ast.List,)) for arr in st.arrays for s in au.stmts(V.body) for nm, v in sym.split_assign(s) if nm == arr):
                ctx.ok("C08-N1", site, f"{name}: entries are appended to lists (no fixed allocation)")
            else:
                ctx.undecided("C08-N1", site, f"{name}: allocation of the COO arrays not recognised", "")
            continue
        try:
            us = ST.units(st, V.body)
        except OverflowError:
            us = []
        if not us:
            ctx.undecided("C08-N1", site, f"{name}: assembly loop not recognised", "")
            continue
        # options the allocation may depend on (gradient: as_complex): one comparison per assignment appearing in the path conditions
        flags = sorted({t.id for lp, paths in us for p in paths for t, pol in (au.strip_not(*c) for c in p.conds) if isinstance(t, ast.Name) and t.id in au.params(fn)}
                       | {t.id for lp, paths in us for t, pol in H.facts(lp, toplevel=False) if isinstance(t, ast.Name) and t.id in au.params(fn)})
        for vals in itertools.product((True, False), repeat=len(flags)):
            env = dict(zip(flags, vals))
            total, unknown = Poly(), False
            for loop, paths in us:
                if any(isinstance(t, ast.Name) and t.id in env and env[t.id] != pol for t, pol in H.facts(loop, toplevel=False)):
                    continue
                counts = set()
                extra = Poly()
                for path in paths:
                    ok_path = True
                    for t, pol in path.conds:
                        t, pol = au.strip_not(t, pol)
                        if isinstance(t, ast.Name) and t.id in env and env[t.id] != pol:
                            ok_path = False
                    if not ok_path:
                        continue
                    c = len([e for e in path.entries if e.mode == "coo"])
                    for _, lp2, sub in nested_with_entries(path):
                        it = b.resolve(_neighbour_loop(V, lp2)[1], at=lp2)
                        per = {len(q.entries) for q in sub if not q.stop} or {0}
                        if isinstance(it, ast.Call) and au.call_tail(it) == "vertex_to_vertices" and len(per) == 1:
                            extra = Poly.atom("len(mesh.edges)").scale(2 * per.pop())   # handshake: sum of degrees = 2|E|
                        else:
                            unknown = True
                    counts.add(c)
                trip = Poly.const(1)
                for lp in [loop] + [a for a in au.ancestors(loop) if isinstance(a, ast.For)]:
                    t = _trip_poly(F, b, lp)
                    if t is None:
                        unknown = True
                    else:
                        trip = trip * t
                if len(counts) != 1:
                    unknown = True
                else:
                    total = total + trip.scale(counts.pop()) + extra
            mine = [a for a in allocs if a[0] == st.arrays[0] and not any(isinstance(t, ast.Name) and t.id in env and env[t.id] != pol
                                                                         for t, pol in H.facts(a[2], toplevel=False))]
            for arr, v, s in mine[:1]:
                size = _len_poly(b, v.args[0], s, env)
                lab = name + (" [" + ", ".join(f"{k}={v}" for k, v in env.items()) + "]" if env else "")
                if unknown or any(a.startswith("⟨") for a in size.atoms()) or any(isinstance(x, ast.IfExp) for x in ast.walk(_specialise(b.resolve(v.args[0], at=s), env))):
                    ctx.undecided("C08-N1", ctx.site(modname, fn, s), f"{lab}: the number of entries emitted / allocated is not read as a multiple of the element counts", "")
                    continue
                n += 1
                ctx.check(total == size, "C08-N1", ctx.site(modname, fn, s),
                          f"{lab}: {size} coefficients are allocated but the assembly emits {total}",
                          "fewer slots than entries raises IndexError on the last elements; more slots leave spurious zero entries; the count documents the stencil",
                          note=f"{lab}: allocated = emitted = {size}")
    floor(ctx, "C08-N1", n, 1, LAP, "allocation site(s)")


# ----------------------------------------------------------------------- C08-T1
def t1_transport(ctx):
    n = 0
    for cls in ("SurfaceConnectionFaces", "SurfaceConnectionEdges"):
        fn, V = _method_view(ctx, CONN, cls, "_initialize")
        site = ctx.site(CONN, cls + "._initialize")
        if V is None:
            ctx.undecided("C08-T1", site, f"{cls}._initialize not found", "")
            continue
        b = sym.Bindings(V)
        stores = [s for s in au.stmts(V.body) if isinstance(s, ast.Assign) and len(s.targets) == 1 and isinstance(s.targets[0], ast.Subscript)
                  and au.is_self_attr(s.targets[0].value, "_transport") and isinstance(s.targets[0].slice, ast.Tuple) and len(s.targets[0].slice.elts) == 2]
        for x in au.stmts(V.body):
            # self._transport.update({(a, b): v, (b, a): w})  ==  two stores
            if isinstance(x, ast.Expr) and isinstance(x.value, ast.Call) and isinstance(x.value.func, ast.Attribute) and x.value.func.attr == "update" \
                    and au.is_self_attr(x.value.func.value, "_transport") and len(x.value.args) == 1 and isinstance(x.value.args[0], ast.Dict):
                blk, _ = au.enclosing_block(x)
                for k, v in zip(x.value.args[0].keys, x.value.args[0].values):
                    if isinstance(k, ast.Tuple) and len(k.elts) == 2:
                        ps = ast.Assign(targets=[ast.Subscript(value=x.value.func.value, slice=k, ctx=ast.Store())], value=v)
                        ast.copy_location(ps, x)
                        ast.fix_missing_locations(ps)
                        ps._parent = au.parent(x)
                        ps._pseudo_of = x
                        stores.append(ps)
        if not stores:
            ctx.undecided("C08-T1", site, f"{cls}: stores into self._transport[(a, b)] not recognised", "")
            continue
        done = set()
        for s in stores:
            if id(s) in done:
                continue
            a, c = (au.src(x) for x in s.targets[0].slice.elts)
            blk, _ = au.enclosing_block(getattr(s, "_pseudo_of", s))
            blk = blk or []
            partner = [t for t in stores if t is not s and any(getattr(t, "_pseudo_of", t) is x for x in blk)
                       and [au.src(x) for x in t.targets[0].slice.elts] == [c, a]]
            n += 1
            if not partner or a == c:
                other_writes = [x for x in au.walk(V) if (isinstance(x, ast.Call) and isinstance(x.func, ast.Attribute) and au.is_self_attr(x.func.value, "_transport")
                                                          and x.func.attr in ("update", "setdefault", "__setitem__"))
                                or (isinstance(x, ast.Subscript) and isinstance(x.ctx, ast.Store) and au.is_self_attr(x.value, "_transport") and x is not s.targets[0]
                                    and not (isinstance(x.slice, ast.Tuple) and len(x.slice.elts) == 2))]
                elsewhere = [t for t in stores if t is not s and [au.src(x) for x in t.targets[0].slice.elts] == [c, a]]
                if other_writes or elsewhere:
                    ctx.undecided("C08-T1", ctx.site(CONN, fn, s), f"{cls}: the reverse of a stored transport (a, b) is not written next to it", "")
                else:
                    ctx.fail("C08-T1", ctx.site(CONN, fn, s), f"{cls}: a transport (a, b) is stored without its reverse (b, a)",
                             "laplacian_edges / laplacian_triangles are Hermitian only if the transport is antisymmetric")
                continue
            t = partner[0]
            done.update((id(s), id(t)))
            first, second = (s, t) if s.lineno <= t.lineno else (t, s)
            if hasattr(first, "_pseudo_of"):
                first_at = second_at = first._pseudo_of
            else:
                first_at, second_at = first, second
            p1 = sym.to_poly(b.resolve(first.value, at=first_at))
            key1 = au.norm(b.resolve(first.targets[0], at=first_at)).replace("Store()", "Load()")

            def atom(e, p1=p1, key1=key1):
                if isinstance(e, ast.Subscript) and au.norm(e) == key1:
                    return p1
                return None
            p2 = sym.to_poly(b.resolve(second.value, at=second_at), atom_of=atom)
            ctx.check((p1 + p2).is_zero(), "C08-T1", ctx.site(CONN, fn, s),
                      f"{cls}: transport (a, b) + transport (b, a) = {p1 + p2}, not zero",
                      "parallel transport between two elements must be antisymmetric: the Hermitian pairing of the connection Laplacians relies on it",
                      note=f"{cls}: T[(a,b)] = -T[(b,a)]")
    floor(ctx, "C08-T1", n, 1, CONN, "transport pair(s)")


# ----------------------------------------------------------------------- C08-D1
def d1_inverse_branch(ctx):
    fn = ctx.repo.func(LAP, "cotan_edge_diagonal")
    site = ctx.site(LAP, fn)
    V = H.fview(ctx, LAP, fn)
    b = sym.Bindings(V)
    e = he_norm.return_expr(V)
    arr = None
    if isinstance(e, ast.Call) and e.args and isinstance(e.args[0], ast.Name):
        arr = e.args[0].id
    stores = [s for s in au.stmts(V.body) if isinstance(s, ast.Assign) and len(s.targets) == 1 and isinstance(s.targets[0], ast.Subscript)
              and isinstance(s.targets[0].value, ast.Name) and s.targets[0].value.id == arr] if arr else []
    if "inverse" not in au.params(fn) or not stores:
        ctx.undecided("C08-D1", site, "cotan_edge_diagonal: stores of the diagonal coefficients under the `inverse` option not recognised", "")
    else:
        inv = [s for s in stores if H.flag_polarity(s, "inverse") is True and not isinstance(s.value, ast.Constant)]
        direct = [s for s in stores if H.flag_polarity(s, "inverse") is not True]
        if not inv or not direct:
            ctx.undecided("C08-D1", site, "cotan_edge_diagonal: direct and inverse stores of the diagonal not both recognised", "")
        else:
            problems, und = [], []
            for s in inv:
                v = b.resolve(s.value, at=s, keep=(arr,))
                if isinstance(v, ast.IfExp):           # 1/x guarded against tiny x by a constant on the other branch
                    br = [x for x in (v.body, v.orelse) if not isinstance(au.const(x), (int, float))]
                    if len(br) == 1:
                        v = br[0]
                if not (isinstance(v, ast.BinOp) and isinstance(v.op, ast.Div) and au.const(v.left) in (1, 1.0)):
                    und.append("the inverse store is not of the form 1 / x")
                    continue
                self_elem = au.norm(v.right) == H.load_key(s.targets[0])
                same_val = any(sym.to_poly(v.right) == sym.to_poly(b.resolve(d.value, at=d, keep=(arr,))) for d in direct)
                uncond_direct = any(H.flag_polarity(d, "inverse") is None for d in direct)
                if self_elem and uncond_direct:
                    continue            # second pass inverting the stored coefficient in place
                if same_val and not self_elem:
                    continue
                problems.append(f"with inverse=True the stored coefficient is `{au.src(v)}`, not the inverse of the direct coefficient")
            if problems:
                ctx.fail("C08-D1", ctx.site(LAP, fn, inv[0]), "cotan_edge_diagonal: " + "; ".join(dict.fromkeys(problems)), "M and M^-1 must be inverse diagonals")
            elif und:
                ctx.undecided("C08-D1", ctx.site(LAP, fn, inv[0]), "cotan_edge_diagonal: " + "; ".join(dict.fromkeys(und)), "")
            else:
                ctx.ok("C08-D1", ctx.site(LAP, fn, inv[0]), "inverse branch = 1/x of the direct branch")
    # the two half weights come from the two sides of the edge
    sides = [c for c in au.calls(V) if au.call_tail(c) == "direct_face" and len(c.args) >= 2]
    args = [[au.src(a) for a in c.args[:2]] for c in sides]
    if len(args) != 2:
        ctx.undecided("C08-D1", site, "cotan_edge_diagonal: the two direct_face queries of an edge not recognised", "")
    else:
        ctx.check(args[0] == args[1][::-1] and args[0][0] != args[0][1], "C08-D1", site,
                  f"cotan_edge_diagonal: the two incident faces are queried with the same orientation of the edge",
                  "the two triangles of an edge (u,v) are direct_face(u,v) and direct_face(v,u)", note="both sides of the edge")


# ----------------------------------------------------------------------- C08-B1
def b1_local_bases(ctx):
    """orientation of the local bases the operators are expressed in: (X, Y, normal) right handed, project = (X.V, Y.V),
    transport angles measured as atan2(E.Y, E.X) in one and the same basis"""
    n = 0
    # project
    for cls in ("SurfaceConnection", "FlatConnectionVertices", "FlatConnectionFaces"):
        fn, V = _method_view(ctx, CONN, cls, "project")
        site = ctx.site(CONN, cls + ".project")
        e = he_norm.return_expr(V) if V is not None else None
        ok = None
        if isinstance(e, ast.Call) and len(e.args) == 2:
            bases = []
            for a in e.args:
                names = {x.attr for x in ast.walk(a) if isinstance(x, ast.Attribute) and x.attr in ("_baseX", "_baseY")}
                bases.append(names)
            dots = all(isinstance(a, ast.Call) and au.call_tail(a) == "dot" for a in e.args)
            if all(bases) and dots:
                ok = bases == [{"_baseX"}, {"_baseY"}]
        n += 1
        if ok is None:
            ctx.undecided("C08-B1", site, f"{cls}.project: returned pair (baseX . V, baseY . V) not recognised", "")
        else:
            ctx.check(ok, "C08-B1", site, f"{cls}.project does not return (baseX . V, baseY . V)",
                      "gradient() reads (x, y) = project(...): swapped or mixed components rotate every gradient", note=f"{cls}.project = (X.V, Y.V)")
    # faces: X, Y from face_basis in order
    fn, V = _method_view(ctx, CONN, "SurfaceConnectionFaces", "_initialize")
    site = ctx.site(CONN, "SurfaceConnectionFaces._initialize")
    b = sym.Bindings(V)
    fb = [s for s in au.stmts(V.body) if isinstance(s, ast.Assign) and isinstance(s.value, ast.Call) and au.call_tail(s.value) == "face_basis"
          and isinstance(s.targets[0], ast.Tuple) and len(s.targets[0].elts) == 3]
    ok = None
    if len(fb) == 1:
        x, y, _ = (au.src(t) for t in fb[0].targets[0].elts)
        blk, _o = au.enclosing_block(fb[0])
        stt = {s.targets[0].value.attr: au.src(b.resolve(s.value, at=s, keep=(x, y))) for s in blk if isinstance(s, ast.Assign) and isinstance(s.targets[0], ast.Subscript)
               and au.is_self_attr(s.targets[0].value)}
        if "_baseX" in stt and "_baseY" in stt and {stt["_baseX"], stt["_baseY"]} <= {x, y, au.src(fb[0].targets[0].elts[2])}:
            ok = stt.get("_baseX") == x and stt.get("_baseY") == y
    n += 1
    if ok is None:
        ctx.undecided("C08-B1", site, "SurfaceConnectionFaces: stores of (baseX, baseY) from geom.face_basis of the face not recognised", "")
    else:
        ctx.check(ok, "C08-B1", site, "SurfaceConnectionFaces: (baseX, baseY) are not the first and second vector of geom.face_basis of the face",
                  "face_basis returns a right-handed (X, Y, normal)", note="face bases = (X, Y) of face_basis")
    # transport angles atan2(E.Y_k, E.X_k)
    at = [c for c in au.calls(V) if au.call_tail(c) in ("atan2", "arctan2") and len(c.args) == 2]
    for c in at:
        ry, rx = (b.resolve(a, at=c) for a in c.args)

        def base_of(e):
            hits = [(x.value.attr, au.src(x.slice)) for x in ast.walk(e) if isinstance(x, ast.Subscript) and au.is_self_attr(x.value) and x.value.attr in ("_baseX", "_baseY")]
            return hits[0] if len(hits) == 1 else None
        by, bx = base_of(ry), base_of(rx)
        if by is None or bx is None:
            continue
        n += 1
        ok = by[0] == "_baseY" and bx[0] == "_baseX" and by[1] == bx[1]
        ctx.check(ok, "C08-B1", ctx.site(CONN, fn, c), "SurfaceConnectionFaces: an edge angle is not atan2(E . baseY[T], E . baseX[T]) in one face basis",
                  "the angle of the shared edge must be measured counter-clockwise from X in each face's own basis", note="edge angle = atan2(E.Y, E.X)")
    # vertices / edges: Y = normal x X
    for cls in ("SurfaceConnectionVertices", "SurfaceConnectionEdges"):
        fn, V = _method_view(ctx, CONN, cls, "_initialize")
        site = ctx.site(CONN, cls + "._initialize")
        b = sym.Bindings(V)
        sy = [s for s in au.stmts(V.body) if isinstance(s, ast.Assign) and isinstance(s.targets[0], ast.Subscript) and au.is_self_attr(s.targets[0].value, "_baseY")]
        sx = [s for s in au.stmts(V.body) if isinstance(s, ast.Assign) and isinstance(s.targets[0], ast.Subscript) and au.is_self_attr(s.targets[0].value, "_baseX")]
        ok = None
        if len(sy) == 1 and len(sx) == 1 and au.same(sx[0].targets[0].slice, sy[0].targets[0].slice):
            yval = b.resolve(sy[0].value, at=sy[0])
            cr = [c for c in ast.walk(yval) if isinstance(c, ast.Call) and au.call_tail(c) == "cross" and len(c.args) == 2]
            cr = [c for c in cr if not any(c is not d and any(c is x for x in ast.walk(d)) for d in cr)]   # outermost
            if len(cr) == 1:
                second = b.resolve(cr[0].args[1], at=sy[0])
                first = b.resolve(cr[0].args[0], at=sy[0])
                xval = b.resolve(sx[0].value, at=sx[0])
                key = au.norm(sx[0].targets[0]).replace("Store()", "Load()")
                is_x = lambda e, raw: au.same(e, xval) or au.norm(raw) == key
                if is_x(second, cr[0].args[1]) and not is_x(first, cr[0].args[0]):
                    ok = True
                elif is_x(first, cr[0].args[0]) and not is_x(second, cr[0].args[1]):
                    ok = False
        n += 1
        if ok is None:
            ctx.undecided("C08-B1", site, f"{cls}: stores baseX / baseY = cross(normal, baseX) of the same element not recognised", "")
        else:
            ctx.check(ok, "C08-B1", site, f"{cls}: baseY is cross(baseX, normal), not cross(normal, baseX)",
                      "the tangent basis must be right handed with respect to the normal: cross(X, Y) = N", note=f"{cls}: Y = N x X")
    if len(at) < 2:
        ctx.undecided("C08-B1", ctx.site(CONN, "SurfaceConnectionFaces._initialize"), "SurfaceConnectionFaces: the two edge angles atan2(E . Y, E . X) of an interior edge not recognised", "")


# ----------------------------------------------------------------------- C08-W1
def _cotan_true(node, notnone=()):
    """is the option `cotan` known to be true at node (or one of the holders of cotangent data known to be not None)?"""
    if H.flag_polarity(node, "cotan") is True:
        return True
    for t, pol in H.facts(node, toplevel=True):
        conj = t.values if isinstance(t, ast.BoolOp) and isinstance(t.op, ast.And) and pol else [t]
        for x in conj:
            x, p = au.strip_not(x, pol)
            if isinstance(x, ast.Compare) and len(x.ops) == 1 and isinstance(x.left, ast.Name) and x.left.id in notnone \
                    and isinstance(x.comparators[0], ast.Constant) and x.comparators[0].value is None:
                if (isinstance(x.ops[0], ast.IsNot) and p) or (isinstance(x.ops[0], ast.Is) and not p):
                    return True
    return False


def w1_option_dominance(ctx):
    """the uniform-weight branch must not read cotangent data: every evaluation of a source of cotangents
    (cached "cotan" attribute, cotangent(mesh), cotan_edge_diagonal(mesh)) is controlled by the `cotan` option"""
    for name in ("laplacian", "laplacian_edges", "laplacian_triangles"):
        fn = ctx.repo.func(LAP, name)
        site = ctx.site(LAP, fn)
        if "cotan" not in au.params(fn):
            ctx.undecided("C08-W1", site, f"{name}: the `cotan` option not found", "")
            continue
        V = H.fview(ctx, LAP, fn)
        sources = []
        for c in au.calls(V):
            t = au.call_tail(c)
            if t == "get_attribute" and c.args and au.const(c.args[0]) == "cotan":
                sources.append(c)
            elif t in ("cotangent", "cotan_edge_diagonal", "cotan_weights"):
                sources.append(c)
        if not sources:
            ctx.undecided("C08-W1", site, f"{name}: source of the cotangent weights (cached \"cotan\" attribute / cotangent() / cotan_edge_diagonal()) not recognised",
                          "the cotan=True branch must take its weights from the corner cotangents")
            continue
        holders = set()
        for c in sources:
            st = au.enclosing_stmt(c)
            if isinstance(st, ast.Assign) and any(c is x for x in ast.walk(st.value)):
                holders |= {t.id for t in st.targets if isinstance(t, ast.Name)}
        # a holder that is None exactly when cotan is false may stand for the option itself (`if cot is not None`)
        guarded_holders = set()
        for h in holders:
            binds = [s for s in au.stmts(V.body) if sym.Bindings._assigns(s, h, deep=False)]
            if binds and all(_cotan_true(next(c for c in sources if any(c is x for x in ast.walk(s))), ()) if any(c is x for c in sources for x in ast.walk(s))
                             else (isinstance(s, ast.Assign) and isinstance(s.value, ast.Constant) and s.value.value is None) for s in binds):
                guarded_holders.add(h)
        for c in sources:
            ctx.check(_cotan_true(c), "C08-W1", ctx.site(LAP, fn, c),
                      f"{name}: `{au.src(c)}` is evaluated whatever the value of the `cotan` option",
                      "with cotan=False the operator must have uniform weights; if cotangent data is fetched regardless (e.g. because a cached "
                      "\"cotan\" attribute exists) the result depends on what was computed on the mesh before",
                      note=f"{name}: `{au.src(c)[:40]}` only under cotan=True")
        for n in au.walk(V):
            if isinstance(n, ast.Subscript) and isinstance(n.value, ast.Name) and n.value.id in holders and isinstance(n.ctx, ast.Load):
                ctx.check(_cotan_true(n, guarded_holders), "C08-W1", ctx.site(LAP, fn, n),
                          f"{name}: a cotangent value `{n.value.id}[..]` is read outside the control of the `cotan` option",
                          "the uniform-weight branch must not use cotangents", note=f"{name}: `{au.src(n)[:30]}` read under cotan")


# ----------------------------------------------------------------------- C08-E1
def e1_edge_sides(ctx):
    from .c07 import edge_sides_rule
    edge_sides_rule(ctx, "C08-E1", [(LAP, "cotan_edge_diagonal"), (MASS, "area_weight_matrix_edges"), (CONN, "SurfaceConnectionEdges._initialize")])



# ----------------------------------------------------------------------- generic families (msa/rules/generic.py)
_run_specific = run


def run(ctx):
    _run_specific(ctx)
    from ..rules import generic
    generic.apply(ctx, "C08", stale_modules=())
    generic.export_keeps_element_axis(ctx, "C08-X0", "area_weight_matrix_faces / volume_weight_matrix_cells take len() of the exported measure "
                                      "and raise on a surface with a single face (a single cell)")


def _generic_rule_texts():
    from ..rules import generic
    return generic.rule_texts("C08", stale=False)


RULES.update(_generic_rule_texts())
RULES["C08-X0"] = ("R-AXIS: the per-element measure exported with as_array() and handed to the mass matrices keeps one entry per element for every "
                   "element count (as_array squeezes at most the component axis)")
