"""C20 - union-find and priority queue conform to their abstract models (structural clauses).

The obligations on add / union / find / the views / the bounds checks / the queue methods are decided on *symbolic paths*
(msa/rules/hg_symex.py: helpers of the class executed in line, names and attribute stores resolved per path), see msa/rules/hg_uf.py and
msa/rules/hg_pq.py.  A rule reports a violation only for a recognised construct that contradicts it; a shape it cannot read is `undecided`."""
from __future__ import annotations
import ast, traceback
from .. import au, sym, order
from ..core import AnalysisError, PKG
from ..rules import c1120_util as U
from ..rules import hg_uf, hg_pq

UF = "utils.unionfind"
PQM = "utils.priority_queue"
UFC = "UnionFind"
PQC = "PriorityQueue"

EXPLANATION = (
    "Static conformance of UnionFind and PriorityQueue to their abstract models, decided on symbolic paths of their methods (helpers executed in line): "
    "every registration of an element appends one slot to each table at the index the element really gets, under a non-membership test that is still "
    "valid when the element is registered, and advances the three counters by one; union makes both arguments members, links two distinct find() roots, "
    "updates the size of the new root and decrements n_comps exactly on the linking paths; find writes only entries read from _par into non-roots, "
    "climbs, and returns a fixed point of _par; query methods write no table and a cache they keep is reset by every change of the partition; element "
    "collections never flow into numpy constructors (taint, with a built-in positive fixture); the views enumerate every element and classify it by "
    "find; bounds predicates under every ordering (R-ORDER); the queue binds a fresh private list, touches it only through heapq inside the class "
    "(who-may-write, swept over every PriorityQueue / UnionFind instance created in the package), push queues its item on every normally returning path, "
    "items are ordered by priority only, emptiness is len == 0. Structural necessary conditions only; conformance for all histories is not decided.")

RULES = {
    "C20-U1": "every registration of an element (in add, union, __init__) appends to _elts/_par/_siz and stores _indx once each, with the index the element "
              "really gets, under a still-valid non-membership test, and advances _next/n_elts/n_comps by one; __init__ starts from empty tables and registers "
              "its elements one by one; union makes both elements members, links two distinct roots returned by find, updates the size of the new root, "
              "and decrements n_comps exactly on the paths that write a root link",
    "C20-U2": "query methods write no table and call no mutator (a cache they keep must be reset by add and union); find writes into _par only entries read from "
              "_par, at a node known to differ from its parent, climbs to a parent at every turn and returns a fixed point of _par; no code outside the "
              "class touches the private tables",
    "C20-U3": "element collections (self._elts / self._indx and values derived from them) never flow into numpy (np.array, np.vectorize, ...): "
              "tuples become rows, mixed types are coerced",
    "C20-V1": "component / roots / components / component_mapping enumerate every element of self._elts, classify it by self.find(element), "
              "collect the element itself unconditionally; component keeps exactly the elements whose root equals find(x)",
    "C20-O1": "__getitem__/__setitem__ raise exactly when index < 0 or index >= _next, and access _elts only in range",
    "C20-Q1": "PriorityQueue.data is a fresh private list written only by heapq.heappush/heappop inside the class and never escapes; push queues "
              "PriorityItem(payload, priority) on every normally returning path; get / pop return one heappop; front reads data[0]; PriorityItem.__lt__ "
              "compares priority only; empty() is len == 0",
}

ASSUMPTIONS = ["heapq keeps the heap invariant of a list only it modifies and compares items with `<` only",
               "numpy coerces sequences of tuples to 2-D arrays and mixed sequences to a common dtype",
               "loops are analysed on their first iteration (zero-or-one unrolling of the symbolic paths)"]

MUTATING = {"append", "extend", "insert", "pop", "remove", "clear", "sort", "reverse", "update", "add", "discard",
            "setdefault", "popitem", "appendleft", "popleft", "fill", "resize", "put", "__setitem__", "__delitem__"}
PRIVATE_UF = {"_par", "_siz", "_indx", "_elts", "_next"}


def pos(node):
    return (getattr(node, "lineno", 0), getattr(node, "col_offset", 0))


def guarded(ctx, rule, modname, qual, f, *a, **kw):
    """an internal failure of the analysis is an undecided obligation, never a violation and never a pass"""
    try:
        return f(ctx, *a, **kw)
    except AnalysisError:
        raise
    except Exception as e:          # pragma: no cover
        ctx.undecided(rule, ctx.site(modname, qual), f"the analysis of {qual} failed internally ({type(e).__name__})", traceback.format_exc(limit=3)[-300:])
        return None


def run(ctx):
    repo = ctx.repo
    for q in ("add", "union", "find", "__init__"):
        repo.func(UF, f"{UFC}.{q}")         # public anchors
    for q in ("push", "__init__"):
        repo.func(PQM, f"{PQC}.{q}")
    guarded(ctx, "C20-U1", UF, UFC + ".add", hg_uf.u1_add)
    guarded(ctx, "C20-U1", UF, UFC + ".__init__", hg_uf.u1_init)
    guarded(ctx, "C20-U1", UF, UFC + ".union", hg_uf.u1_union)
    guarded(ctx, "C20-U2", UF, UFC + ".find", hg_uf.u2_find)
    guarded(ctx, "C20-U2", UF, UFC, hg_uf.u2_queries)
    routed = u3_numpy(ctx)
    guarded(ctx, "C20-V1", UF, UFC, hg_uf.v1_views, routed)
    guarded(ctx, "C20-O1", UF, UFC, hg_uf.o1_bounds)
    q1_queue(ctx)
    sweeps(ctx)


# ----------------------------------------------------------------- C20-U3
ELEMENT_SOURCES = ("_elts", "_indx")

U3_FIXTURE_BAD = '''
import numpy as np
class UnionFind:
    def component(self, x):
        elts = np.array(self._elts)
        vfind = np.vectorize(self.find)
        roots = vfind(elts)
        return set(elts[roots == self.find(x)])
    def keys(self):
        ks = list(self._indx)
        return np.asarray(ks)
'''
U3_FIXTURE_GOOD = '''
import numpy as np
class UnionFind:
    def component(self, x):
        root = self.find(x)
        return set(e for e in self._elts if self.find(e) == root)
    def sizes(self):
        return np.array(self._siz)
'''


def numpy_routing(fn, np_aliases, methods):
    """calls into numpy that receive element collections: [(call, description)]"""
    def mentions_source(e):
        return any(isinstance(n, ast.Attribute) and au.is_self_attr(n) and n.attr in ELEMENT_SOURCES for n in au.walk(e))
    tainted = set()
    changed = True
    binds = {}
    for name in {n.id for n in au.walk(fn) if isinstance(n, ast.Name)}:
        binds[name] = [v for s, v, i in U.bindings_of(fn, name) if not isinstance(v, ast.AugAssign)]
    for n in au.walk(fn):
        if isinstance(n, ast.comprehension):
            for nm in au.assigned_names(n.target):
                binds.setdefault(nm, []).append(n.iter)
    while changed:
        changed = False
        for name, vs in binds.items():
            if name in tainted:
                continue
            if any(mentions_source(v) or (au.names(v) & tainted) for v in vs):
                tainted.add(name)
                changed = True
    hits = []
    for c in au.calls(fn):
        ch = au.chain(c.func)
        if not ch or ch[0] not in np_aliases:
            continue
        args = list(c.args) + [kw.value for kw in c.keywords]
        if any(mentions_source(a) or (au.names(a) & tainted) for a in args):
            hits.append((c, f"{'.'.join(ch)}({', '.join(au.src(a) for a in args)})"))
        elif ch[-1] in ("vectorize", "frompyfunc") and args and au.is_self_attr(args[0]) and args[0].attr in methods:
            hits.append((c, f"{'.'.join(ch)}({au.src(args[0])})"))
    return hits, tainted


def u3_numpy(ctx):
    repo = ctx.repo
    # built-in fixtures: the matcher must fire on the defect shape and stay silent on the repaired shape
    for srcf, want in ((U3_FIXTURE_BAD, {"component": 2, "keys": 1}), (U3_FIXTURE_GOOD, {"component": 0, "sizes": 0})):
        tree = ast.parse(srcf)
        c = [x for x in tree.body if isinstance(x, ast.ClassDef)][0]
        for f in c.body:
            hits, _ = numpy_routing(f, {"np"}, {"find", "component", "keys", "sizes"})
            if len(hits) != want[f.name]:
                raise AnalysisError(f"C20-U3 self-check: numpy-routing matcher found {len(hits)} hit(s) in fixture {f.name}, expected {want[f.name]}")
    mod = repo.module(UF)
    cls = repo.cls(UF, UFC)
    np_al = U.numpy_aliases(mod) | {"np", "numpy"}
    methods = {st.name for st in cls.body if isinstance(st, ast.FunctionDef)}
    n = 0
    routed = set()
    for st in cls.body:
        if not isinstance(st, ast.FunctionDef):
            continue
        reads = any(isinstance(x, ast.Attribute) and au.is_self_attr(x) and x.attr in ELEMENT_SOURCES for x in au.walk(st))
        hits, _ = numpy_routing(st, np_al, methods)
        if not reads and not hits:
            continue
        n += 1
        if hits:
            routed.add(st.name)
        ctx.check(not hits, "C20-U3", ctx.site(UF, st, hits[0][0] if hits else st),
                  f"{st.name} routes the elements through numpy",
                  "np.array turns a list of tuples into a 2-D array (each element becomes a row, `find` then raises "
                  "`ValueError: 0 is not an element`) and coerces mixed ints/strings to strings, so the views disagree with the partition; "
                  "offending calls: " + "; ".join(d for _, d in hits),
                  note=f"{st.name}: elements stay python objects")
    ctx.require_count("C20-U3 methods reading the element tables", n, 1)
    return routed



# ----------------------------------------------------------------- C20-Q1
HEAP_WRITERS = {"heappush", "heappop", "heappushpop", "heapreplace", "heapify"}
READ_FUNCS = {"len", "bool", "sorted", "list", "tuple", "iter", "min", "max", "any", "all", "enumerate"}

Q1_FIXTURE = '''
def f():
    q = PriorityQueue()
    q.data.append(3)
    q.data[0] = 1
    q.data = []
    g(q.data)
    n = len(q.data)
    m = q.data[0]
    for it in q.data: pass
'''


def classify_data_use(node, heap_mods, heap_names, inside_class, in_init=False):
    """None if this occurrence of `<queue>.data` cannot modify the list or leak it; otherwise a description."""
    p = au.parent(node)
    if isinstance(p, ast.Call) and any(node is a for a in p.args):
        ch = au.chain(p.func) or []
        is_heap = (len(ch) == 2 and ch[0] in heap_mods and ch[1] in HEAP_WRITERS) or \
                  (len(ch) == 1 and heap_names.get(ch[0]) in HEAP_WRITERS)
        if is_heap:
            if inside_class and p.args and p.args[0] is node:
                return None
            return f"heapq call `{au.src(p)}` outside the class"
        if len(ch) == 1 and ch[0] in READ_FUNCS:
            return None
        return f"passed to `{au.src(p.func)}(...)`"
    if isinstance(p, ast.Subscript) and p.value is node:
        if isinstance(p.ctx, ast.Load):
            return None
        return f"item store / delete `{au.src(p)}`"
    if isinstance(p, ast.Attribute) and p.value is node:
        pp = au.parent(p)
        if isinstance(pp, ast.Call) and pp.func is p:
            if p.attr in MUTATING or p.attr not in ("index", "count", "copy", "__len__"):
                return f"list method `.{p.attr}(...)`"
            return None
        return f"attribute `.{p.attr}`"
    if isinstance(node.ctx, (ast.Store, ast.Del)):
        st = au.enclosing_stmt(node)
        if inside_class and in_init and isinstance(st, ast.Assign) and len(st.targets) == 1 and st.targets[0] is node and \
                ((isinstance(st.value, ast.List) and not st.value.elts) or au.src(st.value) == "list()"):
            return None
        return f"rebinding `{au.src(st)}`"
    if isinstance(p, (ast.For, ast.comprehension)) and p.iter is node:
        return None
    if isinstance(p, ast.UnaryOp) and isinstance(p.op, ast.Not):
        return None
    if isinstance(p, (ast.If, ast.While, ast.IfExp)) and p.test is node:
        return None
    if isinstance(p, ast.Compare):
        return None
    if isinstance(p, ast.AugAssign):
        return f"augmented assignment `{au.src(p)}`"
    return f"escapes through `{au.src(p) if p is not None else au.src(node)}`"


def set_parents(tree):
    for n in ast.walk(tree):
        for c in ast.iter_child_nodes(n):
            c._parent = n


def q1_queue(ctx, rule="C20-Q1", with_empty=True):
    """obligations of the heap-backed queue; also run by C11 (rule C11-Q1) for the candidate heap of KDTree.query."""
    repo = ctx.repo
    mod = repo.module(PQM)
    cls = repo.cls(PQM, PQC)
    heap_mods, heap_names = U.module_aliases(mod.tree, "heapq")
    # fixture: the who-may-write classifier must fire on writes and stay silent on reads
    ft = ast.parse(Q1_FIXTURE)
    set_parents(ft)
    verdicts = [classify_data_use(n, {"hq"}, {}, False) for n in ast.walk(ft)
                if isinstance(n, ast.Attribute) and n.attr == "data"]
    if sum(v is not None for v in verdicts) != 4 or sum(v is None for v in verdicts) != 3:
        raise AnalysisError(f"{rule} self-check: who-may-write classifier gave {verdicts} on the fixture")
    # who may write / who may see the list, in every method of the class (the methods analysed path by path below are also covered here,
    # so that a method added later cannot modify or leak the list unnoticed)
    n_uses = 0
    analysed = {"__init__", "push", "get", "pop", "front", "empty"}
    for st in cls.body:
        if not isinstance(st, ast.FunctionDef):
            continue
        for n in au.walk(st):
            if isinstance(n, ast.Attribute) and n.attr == "data" and au.is_self_attr(n):
                n_uses += 1
                if st.name in analysed:
                    continue
                v = classify_data_use(n, heap_mods, heap_names, True, in_init=False)
                ctx.check(v is None, rule, ctx.site(PQM, st, n), f"{st.name}: self.data {v}",
                          "the list is a heap only as long as nothing but heapq.heappush / heappop modifies it; any other writer (or an "
                          "escaped reference) breaks `front`/`pop` = minimum priority", note=f"{st.name}: heap-safe use of self.data")
    if n_uses == 0:
        ctx.undecided(rule, ctx.site(PQM, PQC), "PriorityQueue no longer keeps its items in self.data",
                      "the heap list and its single-writer discipline cannot be established")
        return
    guarded(ctx, rule, PQM, PQC, hg_pq.q1_methods, rule, with_empty)


# ----------------------------------------------------------------- sweeps (who-may-write over the package)
SWEEP_FIXTURE = '''
def f(m):
    uf = UnionFind(m)
    uf._par[0] = 1
    uf.n_comps -= 1
    k = uf.n_comps
    uf.union(1, 2)
'''


def instances(repo, mod, fn, class_mod, class_name):
    """source texts of the targets bound to `class_name(...)` in fn."""
    out = []
    for n in au.walk(fn):
        val = tgt = None
        if isinstance(n, ast.Assign) and len(n.targets) == 1:
            val, tgt = n.value, n.targets[0]
        elif isinstance(n, ast.AnnAssign) and n.value is not None:
            val, tgt = n.value, n.target
        if not isinstance(val, ast.Call):
            continue
        ch = au.chain(val.func)
        if not ch or ch[-1] != class_name:
            continue
        ok = False
        if repo is None:
            ok = True
        elif len(ch) == 1:
            r = repo.resolve(mod.name, ch[0])
            ok = bool(r) and r[0] == "class" and r[1] == PKG + "." + class_mod and r[2] == class_name
        else:
            r = repo.resolve(mod.name, ch[0])
            if r and r[0] == "module" and r[1] in repo.modules:
                r2 = repo.resolve(r[1], ch[1]) if len(ch) == 2 else None
                ok = bool(r2) and r2[0] == "class" and r2[1] == PKG + "." + class_mod and r2[2] == class_name
        if ok and isinstance(tgt, (ast.Name, ast.Attribute)):
            out.append((au.src(tgt), n))
    return out


def uf_private_uses(fn, recv):
    """accesses to the private tables / stores to the counters of a UnionFind held in `recv` (source text)."""
    hits = []
    for n in au.walk(fn):
        if isinstance(n, ast.Attribute) and au.src(n.value) == recv:
            if n.attr in PRIVATE_UF:
                hits.append((n, f"{recv}.{n.attr}"))
            elif n.attr in ("n_comps", "n_elts") and (isinstance(n.ctx, (ast.Store, ast.Del)) or
                                                      (isinstance(au.parent(n), ast.AugAssign) and au.parent(n).target is n)):
                hits.append((n, f"store to {recv}.{n.attr}"))
    return hits


def sweeps(ctx):
    repo = ctx.repo
    ft = ast.parse(SWEEP_FIXTURE)
    set_parents(ft)
    f0 = ft.body[0]
    inst = instances(None, None, f0, UF, UFC)
    if [i[0] for i in inst] != ["uf"] or len(uf_private_uses(f0, "uf")) != 2:
        raise AnalysisError("C20-U2 self-check: the outside-writer matcher does not fire on its fixture")
    heap_cache = {}
    n_pq = n_uf = 0
    for mname, mod in sorted(repo.modules.items()):
        for q, fn in sorted(mod.funcs.items()):
            short = mname[len(PKG) + 1:]
            for recv, node in instances(repo, mod, fn, PQM, PQC):
                n_pq += 1
                if mname not in heap_cache:
                    heap_cache[mname] = U.module_aliases(mod.tree, "heapq")
                hm, hn = heap_cache[mname]
                bad = []
                for n in au.walk(fn):
                    if isinstance(n, ast.Attribute) and n.attr == "data" and au.src(n.value) == recv:
                        v = classify_data_use(n, hm, hn, False)
                        if v is not None:
                            bad.append(v)
                ctx.check(not bad, "C20-Q1", ctx.site(short, fn, node),
                          f"{q}: the list of the PriorityQueue `{recv}` is modified outside the class ({'; '.join(sorted(set(bad)))})",
                          "only heapq.heappush/heappop inside PriorityQueue may write `data`: any other writer breaks the heap order",
                          note=f"{recv}.data is not written by its user")
            for recv, node in instances(repo, mod, fn, UF, UFC):
                n_uf += 1
                hits = uf_private_uses(fn, recv)
                ctx.check(not hits, "C20-U2", ctx.site(short, fn, node),
                          f"{q}: code outside UnionFind touches {sorted({d for _, d in hits})}",
                          "the forest and its counters stay consistent only if the class is their single writer",
                          note=f"{recv}: tables untouched by its user")
    ctx.require_count("C20-Q1 PriorityQueue instances in the package", n_pq, 1)
    ctx.require_count("C20-U2 UnionFind instances in the package", n_uf, 1)



# ----------------------------------------------------------------------- generic families (msa/rules/generic.py)
_run_specific = run


def run(ctx):
    _run_specific(ctx)
    from ..rules import generic
    generic.apply(ctx, "C20", stale_modules=())


def _generic_rule_texts():
    from ..rules import generic
    return generic.rule_texts("C20", stale=False)


RULES.update(_generic_rule_texts())
