"""C20 - union-find and priority queue conform to their abstract models (structural clauses)."""
from __future__ import annotations
import ast
from .. import au, sym, order
from ..core import AnalysisError, PKG
from ..rules import c1120_util as U

UF = "utils.unionfind"
PQM = "utils.priority_queue"
UFC = "UnionFind"
PQC = "PriorityQueue"

EXPLANATION = (
    "Static conformance of UnionFind and PriorityQueue to their abstract models: lock-step book-keeping of add / union "
    "(R-PAIR, path enumeration for the component counter), query methods write nothing except find's path compression "
    "which never rewrites a root, element collections never flow into numpy constructors (taint, with a built-in positive "
    "fixture), bounds predicates under every ordering (R-ORDER), the queue's list is touched only through heapq inside the "
    "class (who-may-write, swept over every PriorityQueue / UnionFind instance created in the package), items are ordered by "
    "priority only, emptiness is len == 0. Structural necessary conditions only; conformance for all histories is not decided.")

RULES = {
    "C20-U1": "add appends to _elts/_par/_siz, stores _indx and increments n_elts/n_comps/_next in one block guarded by non-membership, with the "
              "pre-increment index; union makes both elements members, links two distinct roots returned by find, updates the size of the new root "
              "in the same block, and decrements n_comps exactly on the paths that write a root link",
    "C20-U2": "query methods write no field and call no mutator; find writes _par only inside the loop guarded by `p != parent(p)`, at index p, with a value "
              "read from _par, and climbs to the parent; no code outside the class touches the private tables",
    "C20-U3": "element collections (self._elts / self._indx and values derived from them) never flow into numpy (np.array, np.vectorize, ...): "
              "tuples become rows, mixed types are coerced",
    "C20-V1": "component / roots / components / component_mapping enumerate every element of self._elts, classify it by self.find(element), "
              "collect the element itself unconditionally; component keeps exactly the elements whose root equals find(x)",
    "C20-O1": "__getitem__/__setitem__ raise exactly when index < 0 or index >= _next",
    "C20-Q1": "PriorityQueue.data is written only by heapq.heappush/heappop inside the class and never escapes; push builds PriorityItem(payload, priority) "
              "in field order; front reads data[0]; PriorityItem.__lt__ compares priority only; empty() is len == 0",
}

ASSUMPTIONS = ["heapq keeps the heap invariant of a list only it modifies and compares items with `<` only",
               "numpy coerces sequences of tuples to 2-D arrays and mixed sequences to a common dtype"]

FIELDS_LISTS = ("_elts", "_par", "_siz")
COUNTERS = ("_next", "n_elts", "n_comps")
MUTATING = {"append", "extend", "insert", "pop", "remove", "clear", "sort", "reverse", "update", "add", "discard",
            "setdefault", "popitem", "appendleft", "popleft", "fill", "resize", "put", "__setitem__", "__delitem__"}
UF_MUTATORS = {"__init__", "add", "union", "__setitem__"}
PRIVATE_UF = {"_par", "_siz", "_indx", "_elts", "_next"}


def pos(node):
    return (getattr(node, "lineno", 0), getattr(node, "col_offset", 0))


def run(ctx):
    u1_add(ctx)
    u1_union(ctx)
    u2_queries(ctx)
    routed = u3_numpy(ctx)
    v1_views(ctx, routed)
    o1_bounds(ctx)
    q1_queue(ctx)
    sweeps(ctx)


# ----------------------------------------------------------------- field writes
def field_writes(fn, recv="self"):
    """[(field, kind, node, stmt)] kind in assign / aug / store / augstore / del / call:<method>"""
    out = []
    for st in au.stmts(fn.body):
        targets = []
        if isinstance(st, ast.Assign):
            for t in st.targets:
                targets += [(x, "") for x in (t.elts if isinstance(t, (ast.Tuple, ast.List)) else [t])]
        elif isinstance(st, ast.AnnAssign) and st.value is not None:
            targets.append((st.target, ""))
        elif isinstance(st, ast.AugAssign):
            targets.append((st.target, "aug"))
        elif isinstance(st, ast.Delete):
            targets += [(t, "del") for t in st.targets]
        elif isinstance(st, (ast.For, ast.AsyncFor)):
            targets += [(x, "") for x in ([st.target] if not isinstance(st.target, (ast.Tuple, ast.List)) else st.target.elts)]
        for t, k in targets:
            if au.is_self_attr(t, recv=recv):
                out.append((t.attr, k or "assign", t, st))
            elif isinstance(t, ast.Subscript):
                base = t.value
                while isinstance(base, ast.Subscript):
                    base = base.value
                if au.is_self_attr(base, recv=recv):
                    out.append((base.attr, (k + "store") if k != "del" else "del", t, st))
    for c in au.calls(fn):
        if isinstance(c.func, ast.Attribute) and c.func.attr in MUTATING:
            base = c.func.value
            while isinstance(base, ast.Subscript):
                base = base.value
            if au.is_self_attr(base, recv=recv):
                out.append((base.attr, "call:" + c.func.attr, c, au.enclosing_stmt(c)))
    return out


def is_plus_one(st, field):
    """self.field += 1  |  self.field = self.field + 1"""
    if isinstance(st, ast.AugAssign) and au.is_self_attr(st.target, field):
        return isinstance(st.op, ast.Add) and au.const(st.value) == 1
    if isinstance(st, ast.Assign) and len(st.targets) == 1 and au.is_self_attr(st.targets[0], field):
        try:
            p = sym.to_poly(st.value, atom_of=lambda e: "C" if au.is_self_attr(e, field) else None, opaque=False)
            return p == sym.Poly.atom("C") + 1
        except sym.NotPoly:
            return False
    return False


def is_minus_one(st, field):
    if isinstance(st, ast.AugAssign) and au.is_self_attr(st.target, field):
        return (isinstance(st.op, ast.Sub) and au.const(st.value) == 1) or (isinstance(st.op, ast.Add) and au.const(st.value) == -1)
    if isinstance(st, ast.Assign) and len(st.targets) == 1 and au.is_self_attr(st.targets[0], field):
        try:
            p = sym.to_poly(st.value, atom_of=lambda e: "C" if au.is_self_attr(e, field) else None, opaque=False)
            return p == sym.Poly.atom("C") - 1
        except sym.NotPoly:
            return False
    return False


def membership(test, pol, elem):
    """+1 if (test, pol) states `elem in self`, -1 if it states `elem not in self`, 0 otherwise."""
    test, pol = U.strip_not(test, pol)
    if isinstance(test, ast.Compare) and len(test.ops) == 1 and isinstance(test.ops[0], (ast.In, ast.NotIn)) \
            and isinstance(test.left, ast.Name) and test.left.id == elem:
        c = test.comparators[0]
        if (isinstance(c, ast.Name) and c.id == "self") or au.is_self_attr(c, "_indx") or au.is_self_attr(c, "_elts"):
            is_in = isinstance(test.ops[0], ast.In)
            return 1 if is_in == pol else -1
    return 0


def registration(repo):
    """(add, function whose body does the book-keeping, its element parameter, helper name or None): `add` may delegate the seven
    updates to one private helper `self._h(x)` - the helper is then analysed in its place and every call site of the helper must
    itself be guarded by non-membership."""
    fn = repo.func(UF, UFC + ".add")
    ps = au.params(fn, skip_self=True)
    if len(ps) != 1:
        return fn, fn, None, None
    if not field_writes(fn):
        cls = repo.cls(UF, UFC)
        methods = {st.name: st for st in cls.body if isinstance(st, ast.FunctionDef)}
        calls = [c for c in au.calls(fn) if isinstance(c.func, ast.Attribute) and au.is_self_attr(c.func) and c.func.attr in methods
                 and len(c.args) == 1 and not c.keywords and au.src(c.args[0]) == ps[0] and field_writes(methods[c.func.attr])]
        if len(calls) == 1:
            h = methods[calls[0].func.attr]
            hps = au.params(h, skip_self=True)
            if len(hps) == 1:
                return fn, h, hps[0], h.name
    return fn, fn, ps[0], None


def uf_mutators(repo):
    h = registration(repo)[3]
    return UF_MUTATORS | ({h} if h else set())


# ----------------------------------------------------------------- C20-U1 add
def u1_add(ctx):
    repo = ctx.repo
    add_fn, fn, x, helper = registration(repo)
    site = ctx.site(UF, fn)
    if x is None:
        ctx.fail("C20-U1", ctx.site(UF, add_fn), "add(x) signature not found", "")
        return
    ws = field_writes(fn)
    by_field = {}
    for f, k, n, st in ws:
        by_field.setdefault(f, []).append((k, n, st))
    need = set(FIELDS_LISTS) | {"_indx"} | set(COUNTERS)
    shape = {"_elts": "call:append", "_par": "call:append", "_siz": "call:append", "_indx": "store"}
    missing = sorted(f for f in need if len(by_field.get(f, [])) != 1 or
                     (f in shape and by_field[f][0][0] != shape[f]))
    extra = sorted(set(by_field) - need)
    if missing or extra:
        ctx.fail("C20-U1", site,
                 "add does not write each of _elts, _indx, _par, _siz, _next, n_elts, n_comps exactly once"
                 + (f" (missing or repeated: {', '.join(missing)})" if missing else "") + (f" (also writes {', '.join(extra)})" if extra else ""),
                 "the element list, its index map, the forest and the three counters must advance together: a table left behind makes "
                 "find / len / n_comps describe different partitions")
        return
    stm = {f: by_field[f][0][2] for f in need}
    blocks = {id(au.enclosing_block(s)[0]) for s in stm.values()}
    conds = [sorted(au.src(t) + str(p) for t, p in U.dominating_conditions(s)) for s in stm.values()]
    ctx.check(len(blocks) == 1 and all(c == conds[0] for c in conds), "C20-U1", site,
              "the seven book-keeping updates of add are not in one block under the same conditions",
              "a conditional update desynchronises the tables", note="seven updates in one block")
    if helper is None:
        facts = [membership(t, p, x) for t, p in U.dominating_conditions(stm["_elts"])]
        ctx.check(-1 in facts and 1 not in facts, "C20-U1", site,
                  f"the book-keeping of add is not guarded by `{x} not in self`",
                  "adding an element twice must be a no-op: otherwise it gets a second index, n_elts / n_comps over-count and the old node is orphaned",
                  note="add is idempotent (non-membership guard)")
    else:
        # the unchecked helper registers unconditionally: each of its call sites must establish non-membership itself, at the call
        for st_ in repo.cls(UF, UFC).body:
            if not isinstance(st_, ast.FunctionDef):
                continue
            for c in au.calls(st_):
                if isinstance(c.func, ast.Attribute) and au.is_self_attr(c.func, helper):
                    a = c.args[0] if len(c.args) == 1 else None
                    facts = [membership(t, p, a.id) for t, p in U.dominating_conditions(c)] if isinstance(a, ast.Name) else []
                    ctx.check(-1 in facts and 1 not in facts, "C20-U1", ctx.site(UF, st_, c),
                              f"{st_.name} calls the unchecked registration helper self.{helper}(...) without testing `element not in self` at the call",
                              "registering an element that is already present (e.g. the second operand of union(x, x) after the first was registered) gives it a "
                              "second slot: n_elts / n_comps over-count and the listings show it twice",
                              note=f"{st_.name}: self.{helper} guarded by non-membership")
    # values
    inc_pos = {c: pos(stm[c]) for c in COUNTERS}
    app_pos = {f: pos(stm[f]) for f in FIELDS_LISTS}

    def index_ok(e, at):
        def atom(n):
            for c in ("_next", "n_elts"):
                if au.is_self_attr(n, c):
                    return sym.Poly.atom("N") + (1 if at > inc_pos[c] else 0)
            if isinstance(n, ast.Call) and au.call_tail(n) == "len" and len(n.args) == 1:
                a = n.args[0]
                for f in FIELDS_LISTS:
                    if au.is_self_attr(a, f):
                        return sym.Poly.atom("N") + (1 if at > app_pos[f] else 0)
                if isinstance(a, ast.Name) and a.id == "self":
                    return sym.Poly.atom("N") + (1 if at > inc_pos["n_elts"] else 0)
            return None
        try:
            return sym.to_poly(e, atom_of=atom, opaque=False) == sym.Poly.atom("N")
        except sym.NotPoly:
            return False
    e_app = by_field["_elts"][0][1]
    p_app = by_field["_par"][0][1]
    s_app = by_field["_siz"][0][1]
    i_st = by_field["_indx"][0][1]
    i_val = stm["_indx"].value if isinstance(stm["_indx"], ast.Assign) else None
    vals_ok = len(e_app.args) == 1 and au.src(e_app.args[0]) == x \
        and au.src(i_st.slice) == x and i_val is not None and index_ok(i_val, pos(stm["_indx"])) \
        and len(p_app.args) == 1 and index_ok(p_app.args[0], pos(stm["_par"])) \
        and len(s_app.args) == 1 and au.const(s_app.args[0]) == 1
    ctx.check(vals_ok, "C20-U1", site,
              f"add does not record (_elts: {x}, _indx[{x}]: new index, _par: new index (own root), _siz: 1) with the index the element really gets "
              f"(found `{au.src(stm['_elts'])}`, `{au.src(stm['_indx'])}`, `{au.src(stm['_par'])}`, `{au.src(stm['_siz'])}`)",
              "a new element must be its own root of size 1 and _indx must point at its slot in _elts/_par/_siz",
              note="new element is its own root of size 1 at the fresh index")
    ctx.check(all(is_plus_one(stm[c], c) for c in COUNTERS), "C20-U1", site,
              "add does not advance each of _next, n_elts, n_comps by exactly one",
              "one new element is one new singleton component", note="three counters += 1")
    # __contains__ is the index map
    cfn = repo.func(UF, UFC + ".__contains__")
    cps = au.params(cfn, skip_self=True)
    rets = [s for s in au.stmts(cfn.body) if isinstance(s, ast.Return)]
    ok = len(rets) == 1 and len(cps) == 1 and rets[0].value is not None and membership(rets[0].value, True, cps[0]) == 1 \
        and not au.is_self_attr(rets[0].value.comparators[0] if isinstance(rets[0].value, ast.Compare) else None, "_elts") \
        and not (isinstance(rets[0].value, ast.Compare) and isinstance(rets[0].value.comparators[0], ast.Name))
    ctx.check(ok, "C20-U1", ctx.site(UF, cfn), "__contains__ is not `x in self._indx`",
              "membership drives the idempotence of add and the auto-insertion of union")
    # __init__ starts from the empty state and adds every initial element
    ifn = repo.func(UF, UFC + ".__init__")
    init = {}
    for st in ifn.body:
        if isinstance(st, ast.Assign) and len(st.targets) == 1 and au.is_self_attr(st.targets[0]):
            init[st.targets[0].attr] = st.value
    ok = all(au.const(init.get(c), None) == 0 for c in COUNTERS) and \
        all(isinstance(init.get(f), ast.List) and not init[f].elts or au.src(init.get(f)) == "list()" for f in FIELDS_LISTS) and \
        ((isinstance(init.get("_indx"), ast.Dict) and not init["_indx"].keys) or au.src(init.get("_indx")) == "dict()")
    ctx.check(ok, "C20-U1", ctx.site(UF, ifn), "__init__ does not start from empty tables and zero counters",
              "the lock-step invariant must hold initially")
    ips = au.params(ifn, skip_self=True)
    adds = [c for c in au.calls(ifn) if isinstance(c.func, ast.Attribute) and au.is_self_attr(c.func, "add")]
    ok = False
    if len(adds) == 1 and ips:
        loops = [a for a in au.ancestors(adds[0]) if isinstance(a, ast.For)]
        ok = bool(loops) and isinstance(loops[0].target, ast.Name) and au.src(adds[0].args[0]) == loops[0].target.id \
            and au.src(loops[0].iter) == ips[0] and not au.guards(adds[0], stop=loops[0]) and any(loops[0] is s for s in ifn.body)
    ctx.check(ok, "C20-U1", ctx.site(UF, ifn), "__init__ does not add every initial element through self.add", "")


# ----------------------------------------------------------------- C20-U1 union
def u1_union(ctx):
    repo = ctx.repo
    fn = repo.func(UF, UFC + ".union")
    site = ctx.site(UF, fn)
    ps = au.params(fn, skip_self=True)
    if len(ps) != 2:
        ctx.fail("C20-U1", site, "union(x, y) signature not found", "")
        return
    roots = {}          # local name -> parameter whose root it is
    find_stmts = []
    for st in au.stmts(fn.body):
        if isinstance(st, ast.Assign) and len(st.targets) == 1 and isinstance(st.targets[0], ast.Name) \
                and isinstance(st.value, ast.Call) and isinstance(st.value.func, ast.Attribute) and au.is_self_attr(st.value.func, "find") \
                and len(st.value.args) == 1 and isinstance(st.value.args[0], ast.Name) and st.value.args[0].id in ps:
            if len(U.bindings_of(fn, st.targets[0].id)) == 1:
                roots[st.targets[0].id] = st.value.args[0].id
                find_stmts.append(st)
    links = [(t, st) for f, k, t, st in field_writes(fn) if f == "_par"]
    good_links = []
    for t, st in links:
        ok = isinstance(st, ast.Assign) and isinstance(t, ast.Subscript) and au.is_self_attr(t.value, "_par") \
            and isinstance(t.slice, ast.Name) and isinstance(st.value, ast.Name) \
            and t.slice.id in roots and st.value.id in roots and roots[t.slice.id] != roots[st.value.id]
        ctx.check(ok, "C20-U1", ctx.site(UF, fn, st),
                  f"union writes `{au.src(st)}`, which is not a link from the root of one argument to the root of the other (roots come from self.find)",
                  "linking anything but two roots detaches part of a component or creates a cycle",
                  note="link between the two find() roots")
        if ok:
            good_links.append((t.slice.id, st.value.id, st))
    if not links:
        ctx.fail("C20-U1", site, "union never writes a root link into _par", "two components are never merged")
        return
    # distinct roots
    for a, bn, st in good_links:
        facts = U.dominating_conditions(st)
        ok = False
        for t, p in facts:
            t, p = U.strip_not(t, p)
            if isinstance(t, ast.Compare) and len(t.ops) == 1 and isinstance(t.ops[0], (ast.Eq, ast.NotEq)) \
                    and {au.src(t.left), au.src(t.comparators[0])} == {a, bn}:
                if isinstance(t.ops[0], ast.NotEq) == p:
                    ok = True
        ctx.check(ok, "C20-U1", ctx.site(UF, fn, st),
                  f"the link `{au.src(st)}` is not dominated by `{a} != {bn}`",
                  "a self-union (or a union inside one component) must change nothing: otherwise the root becomes its own child's size twice and n_comps is decremented",
                  note="link only between distinct roots")
    # size of the new root, same block
    siz_used = any("_siz" in {n.attr for n in au.walk(s.test) if isinstance(n, ast.Attribute)} for s in au.stmts(fn.body)
                   if isinstance(s, (ast.If, ast.While)))
    if siz_used:
        for a, bn, st in good_links:
            blk, _ = au.enclosing_block(st)
            ok = False
            for s in blk or []:
                tgt = val = None
                if isinstance(s, ast.AugAssign) and isinstance(s.op, ast.Add):
                    tgt, val = s.target, s.value
                    okv = au.src(val) == f"self._siz[{a}]"
                elif isinstance(s, ast.Assign) and len(s.targets) == 1:
                    tgt = s.targets[0]
                    try:
                        pol = sym.to_poly(s.value, atom_of=lambda e: au.src(e) if isinstance(e, ast.Subscript) else None, opaque=False)
                        okv = pol == sym.Poly.atom(f"self._siz[{a}]") + sym.Poly.atom(f"self._siz[{bn}]")
                    except sym.NotPoly:
                        okv = False
                else:
                    continue
                if au.src(tgt) == f"self._siz[{bn}]" and okv:
                    ok = True
            ctx.check(ok, "C20-U1", ctx.site(UF, fn, st),
                      f"`{au.src(st)}` is not accompanied in its block by `self._siz[{bn}] += self._siz[{a}]`",
                      "sizes are compared to choose the new root; a size that is not updated with the link is wrong for the next union",
                      note="size of the new root updated with the link")
    # n_comps on exactly the linking paths
    try:
        ps_all = U.paths(fn.body)
    except order.Unsupported as ex:
        raise AnalysisError(f"C20-U1: union too branchy ({ex})")
    bad = []
    link_stmts = {id(st) for _, st in links}
    for p in ps_all:
        nl = sum(1 for s in p.stmts if id(s) in link_stmts)
        nd = sum(1 for s in p.stmts if is_minus_one(s, "n_comps"))
        other = sum(1 for s in p.stmts if not isinstance(s, U.LOOPS) and not is_minus_one(s, "n_comps") and
                    any(au.is_self_attr(t, "n_comps") for t in au.assign_targets(s)))
        if nl != nd or nl > 1 or other:
            bad.append((nl, nd))
    ctx.check(not bad, "C20-U1", site,
              "n_comps is not decremented by one on exactly the paths of union that write a root link",
              f"(links, decrements) on the offending paths: {sorted(set(bad))}; the component count must drop iff two components are merged",
              note=f"{len(ps_all)} paths: decrement iff link")
    # both arguments become members before find
    added = set()
    adders = {"add"} | ({registration(repo)[3]} - {None})
    first_find = min((pos(s) for s in find_stmts), default=None)
    for c in au.calls(fn):
        if isinstance(c.func, ast.Attribute) and au.is_self_attr(c.func) and c.func.attr in adders and len(c.args) == 1 and isinstance(c.args[0], ast.Name):
            a = c.args[0].id
            gs = au.guards(c)
            loops = [l for l in au.ancestors(c) if isinstance(l, ast.For)]
            elems = {a}
            if loops and isinstance(loops[0].target, ast.Name) and loops[0].target.id == a and isinstance(loops[0].iter, (ast.List, ast.Tuple)):
                elems = {au.src(e) for e in loops[0].iter.elts}
            if all(membership(t, p, a) == -1 for t, p in gs) and (first_find is None or pos(c) < first_find):
                added |= elems
    ctx.check(set(ps) <= added and len(find_stmts) >= 2, "C20-U1", site,
              f"union does not make both arguments members (self.add) before looking up their roots (added: {sorted(added)})",
              "union of an absent element must insert it (documented), otherwise find raises ValueError",
              note="both arguments added before find")


# ----------------------------------------------------------------- C20-U2
def u2_queries(ctx):
    repo = ctx.repo
    cls = repo.cls(UF, UFC)
    mutators = uf_mutators(repo)
    n = 0
    for st in cls.body:
        if not isinstance(st, ast.FunctionDef) or st.name in mutators:
            continue
        site = ctx.site(UF, st)
        ws = field_writes(st)
        mut_calls = [c for c in au.calls(st) if isinstance(c.func, ast.Attribute) and au.is_self_attr(c.func)
                     and c.func.attr in (mutators - {"__init__"})]
        self_store = [t for s in au.stmts(st.body) for t in au.assign_targets(s)
                      if isinstance(t, ast.Subscript) and isinstance(t.value, ast.Name) and t.value.id == "self"]
        n += 1
        if st.name == "find":
            u2_find(ctx, st, ws, mut_calls, self_store)
            continue
        what = sorted({f"self.{f} ({k})" for f, k, _, _ in ws} | {f"self.{c.func.attr}(...)" for c in mut_calls}
                      | {"self[...] = ..." for _ in self_store})
        ctx.check(not what, "C20-U2", site, f"query method {st.name} writes {', '.join(what)}",
                  "queries never change the partition (nor the element tables)", note=f"{st.name} writes no field")
    ctx.require_count("C20-U2 query methods of UnionFind", n, 9)


def u2_find(ctx, fn, ws, mut_calls, self_store):
    site = ctx.site(UF, fn)
    b = sym.Bindings(fn)
    other = sorted({f"self.{f} ({k})" for f, k, _, _ in ws if not (f == "_par" and k == "store")}
                   | {f"self.{c.func.attr}(...)" for c in mut_calls} | {"self[...] = ..." for _ in self_store})
    ctx.check(not other, "C20-U2", site, f"find writes {', '.join(other)}",
              "find may only compress paths inside _par", note="find writes _par only")

    def parent_read(e, depth=0):
        """expression denotes an entry of _par (an ancestor): self._par[...] or a name only ever bound to such reads"""
        if isinstance(e, ast.Subscript) and au.is_self_attr(e.value, "_par") and isinstance(e.ctx, ast.Load):
            return True
        if isinstance(e, ast.Name) and depth < 4:
            bs = [v for s, v, i in U.bindings_of(fn, e.id)]
            return bool(bs) and all(not isinstance(v, ast.AugAssign) and (parent_read(v, depth + 1) or
                                                                       (isinstance(v, ast.Subscript) and au.is_self_attr(v.value, "_indx")))
                                    for v in bs) and any(parent_read(v, depth + 1) for v in bs)
        return False

    stores = [(t, st) for f, k, t, st in ws if f == "_par" and k == "store"]
    loops_seen = []
    for t, st in stores:
        wl = [a for a in au.ancestors(st) if isinstance(a, ast.While)]
        ok = False
        detail = "store is not inside a while loop"
        if wl and isinstance(t.slice, ast.Name) and isinstance(st, ast.Assign):
            w = wl[0]
            p = t.slice.id
            test, pol = U.strip_not(w.test, True)
            guard_ok = False
            if isinstance(test, ast.Compare) and len(test.ops) == 1 and isinstance(test.ops[0], (ast.NotEq, ast.Eq)) \
                    and (isinstance(test.ops[0], ast.NotEq) == pol):
                sides = [test.left, test.comparators[0]]
                for i in (0, 1):
                    me, oth = sides[i], sides[1 - i]
                    if isinstance(me, ast.Name) and me.id == p:
                        if au.src(oth) == f"self._par[{p}]":
                            guard_ok = True
                        elif isinstance(oth, ast.Name) and oth.id != p and parent_read(oth) \
                                and U.bindings_of(fn, p, within=w) and not U.bindings_of(fn, oth.id, within=w):
                            guard_ok = True         # `while p != root` with p climbing and root fixed
            # p must not be re-bound between the loop test and the store
            rebind = [s for s, v, i in U.bindings_of(fn, p, within=w) if pos(s) < pos(st)]
            val_ok = parent_read(st.value)
            ok = guard_ok and val_ok and not rebind and not [g for g in au.guards(st, stop=w)]
            detail = f"guard `{au.src(w.test)}` {'ok' if guard_ok else 'is not `p != parent(p)`'}, value `{au.src(st.value)}` " \
                     f"{'is an ancestor read from _par' if val_ok else 'is not read from _par'}"
            loops_seen.append((w, p))
        ctx.check(ok, "C20-U2", ctx.site(UF, fn, st),
                  f"path compression `{au.src(st)}` is not `_par[p] = <entry of _par>` inside the loop guarded by `p != _par[p]`",
                  "a root must never be re-parented by a query and a node may only be re-attached to one of its ancestors; " + detail,
                  note="compression re-attaches a non-root to an ancestor")
    # the climb: inside the find loop p becomes its parent, and the loop variable is returned
    whiles = [s for s in au.stmts(fn.body) if isinstance(s, ast.While)]
    rets = [s for s in au.stmts(fn.body) if isinstance(s, ast.Return)]
    ok = False
    if whiles and len(rets) == 1 and isinstance(rets[0].value, ast.Name):
        r = rets[0].value.id
        for w in whiles:
            test, pol = U.strip_not(w.test, True)
            if not (pol and au.src(test) in (f"{r} != self._par[{r}]", f"self._par[{r}] != {r}")):
                continue
            climbs = [v for s, v, i in U.bindings_of(fn, r, within=w)]
            outside = [v for s, v, i in U.bindings_of(fn, r) if not any(s is x for x in au.stmts(w.body))]
            if bool(climbs) and all(parent_read(v) for v in climbs) and pos(rets[0]) > pos(w) \
                    and any(rets[0] is s for s in fn.body) and any(w is s for s in fn.body) \
                    and all(isinstance(v, ast.Subscript) and au.is_self_attr(v.value, "_indx") for v in outside):
                ok = True
    recursive = [c for c in au.calls(fn) if isinstance(c.func, ast.Attribute) and au.is_self_attr(c.func, "find")]
    if not whiles and recursive:
        ctx.declare_unsupported("C20-U2: recursive UnionFind.find - the climb to the fixed point of _par is not decided")
        return
    ctx.check(ok, "C20-U2", site,
              "find is not `p = _indx[x]; while p != _par[p]: ... p = <parent of p>; return p`",
              "find must return the root: the loop may only stop at a fixed point of _par and must climb to a parent at every turn",
              note="find climbs to the fixed point of _par")


# ----------------------------------------------------------------- C20-U3
ELEMENT_SOURCES = ("_elts", "_indx")

U3_FIXTURE_BAD = '''
import numpy as np
class UnionFind:
    def component(self, x):
        elts = np.array(self._elts)
        vfind = np.vectorize(self.find)
        roots = vfind(elts)
        return set(elts[roots == self.find(x)])
    def keys(self):
        ks = list(self._indx)
        return np.asarray(ks)
'''
U3_FIXTURE_GOOD = '''
import numpy as np
class UnionFind:
    def component(self, x):
        root = self.find(x)
        return set(e for e in self._elts if self.find(e) == root)
    def sizes(self):
        return np.array(self._siz)
'''


def numpy_routing(fn, np_aliases, methods):
    """calls into numpy that receive element collections: [(call, description)]"""
    def mentions_source(e):
        return any(isinstance(n, ast.Attribute) and au.is_self_attr(n) and n.attr in ELEMENT_SOURCES for n in au.walk(e))
    tainted = set()
    changed = True
    binds = {}
    for name in {n.id for n in au.walk(fn) if isinstance(n, ast.Name)}:
        binds[name] = [v for s, v, i in U.bindings_of(fn, name) if not isinstance(v, ast.AugAssign)]
    for n in au.walk(fn):
        if isinstance(n, ast.comprehension):
            for nm in au.assigned_names(n.target):
                binds.setdefault(nm, []).append(n.iter)
    while changed:
        changed = False
        for name, vs in binds.items():
            if name in tainted:
                continue
            if any(mentions_source(v) or (au.names(v) & tainted) for v in vs):
                tainted.add(name)
                changed = True
    hits = []
    for c in au.calls(fn):
        ch = au.chain(c.func)
        if not ch or ch[0] not in np_aliases:
            continue
        args = list(c.args) + [kw.value for kw in c.keywords]
        if any(mentions_source(a) or (au.names(a) & tainted) for a in args):
            hits.append((c, f"{'.'.join(ch)}({', '.join(au.src(a) for a in args)})"))
        elif ch[-1] in ("vectorize", "frompyfunc") and args and au.is_self_attr(args[0]) and args[0].attr in methods:
            hits.append((c, f"{'.'.join(ch)}({au.src(args[0])})"))
    return hits, tainted


def u3_numpy(ctx):
    repo = ctx.repo
    # built-in fixtures: the matcher must fire on the defect shape and stay silent on the repaired shape
    for srcf, want in ((U3_FIXTURE_BAD, {"component": 2, "keys": 1}), (U3_FIXTURE_GOOD, {"component": 0, "sizes": 0})):
        tree = ast.parse(srcf)
        c = [x for x in tree.body if isinstance(x, ast.ClassDef)][0]
        for f in c.body:
            hits, _ = numpy_routing(f, {"np"}, {"find", "component", "keys", "sizes"})
            if len(hits) != want[f.name]:
                raise AnalysisError(f"C20-U3 self-check: numpy-routing matcher found {len(hits)} hit(s) in fixture {f.name}, expected {want[f.name]}")
    mod = repo.module(UF)
    cls = repo.cls(UF, UFC)
    np_al = U.numpy_aliases(mod) | {"np", "numpy"}
    methods = {st.name for st in cls.body if isinstance(st, ast.FunctionDef)}
    n = 0
    routed = set()
    for st in cls.body:
        if not isinstance(st, ast.FunctionDef):
            continue
        reads = any(isinstance(x, ast.Attribute) and au.is_self_attr(x) and x.attr in ELEMENT_SOURCES for x in au.walk(st))
        hits, _ = numpy_routing(st, np_al, methods)
        if not reads and not hits:
            continue
        n += 1
        if hits:
            routed.add(st.name)
        ctx.check(not hits, "C20-U3", ctx.site(UF, st, hits[0][0] if hits else st),
                  f"{st.name} routes the elements through numpy",
                  "np.array turns a list of tuples into a 2-D array (each element becomes a row, `find` then raises "
                  "`ValueError: 0 is not an element`) and coerces mixed ints/strings to strings, so the views disagree with the partition; "
                  "offending calls: " + "; ".join(d for _, d in hits),
                  note=f"{st.name}: elements stay python objects")
    ctx.require_count("C20-U3 methods reading the element tables", n, 1)
    return routed


# ----------------------------------------------------------------- C20-V1
def v1_views(ctx, routed):
    """the four partition views (skipped for a method that C20-U3 already reports: its numpy form is not a per-element loop)."""
    repo = ctx.repo
    n = 0

    def is_elts(e):
        return au.is_self_attr(e, "_elts") or au.is_self_attr(e, "_indx") or \
            (isinstance(e, ast.Call) and not e.args and isinstance(e.func, ast.Attribute) and e.func.attr == "keys"
             and au.is_self_attr(e.func.value, "_indx"))

    def find_of(e, var):
        return isinstance(e, ast.Call) and isinstance(e.func, ast.Attribute) and au.is_self_attr(e.func, "find") \
            and len(e.args) == 1 and isinstance(e.args[0], ast.Name) and e.args[0].id == var

    for name in ("component", "roots", "components", "component_mapping"):
        fn = repo.func(UF, f"{UFC}.{name}")
        if name in routed:
            continue
        site = ctx.site(UF, fn)
        b = sym.Bindings(fn)
        n += 1
        scopes = []     # (variable, [nodes in which it is live], owner, generator or None)
        for x in au.walk(fn):
            if isinstance(x, ast.For) and is_elts(x.iter) and isinstance(x.target, ast.Name):
                scopes.append((x.target.id, list(x.body), x, None))
            elif isinstance(x, (ast.ListComp, ast.SetComp, ast.GeneratorExp, ast.DictComp)):
                for g in x.generators:
                    if is_elts(g.iter) and isinstance(g.target, ast.Name):
                        live = ([x.key, x.value] if isinstance(x, ast.DictComp) else [x.elt]) + list(g.ifs)
                        scopes.append((g.target.id, live, x, g))
        classified = [(v, live, o, g) for v, live, o, g in scopes if any(find_of(c, v) for l in live for c in au.calls(l))]
        ok = bool(classified)
        ctx.check(ok, "C20-V1", site, f"{name} does not visit every element of self._elts and classify it with self.find(element)",
                  "the view must describe the same partition as find: every element belongs to exactly one reported component",
                  note=f"{name}: loop over self._elts classified by find")
        if not ok:
            continue
        var, live, owner, gen = classified[0]
        if name == "component":
            ps = au.params(fn, skip_self=True)
            cmps = [c for l in live for c in au.walk(l) if isinstance(c, ast.Compare) and len(c.ops) == 1
                    and (find_of(c.left, var) or find_of(c.comparators[0], var))]
            okc = False
            if len(cmps) == 1 and ps:
                c = cmps[0]
                other = c.comparators[0] if find_of(c.left, var) else c.left
                o = b.resolve(other, at=owner, keep=(ps[0],))
                positive = (gen is not None and any(c is t for t in gen.ifs) and au.src(owner.elt) == var) or \
                           (gen is None and any(isinstance(s_, ast.If) and s_.test is c and not s_.orelse and
                                                any(au.call_tail(k) in ("add", "append") and au.src(k.args[0]) == var for k in au.calls(s_) if k.args)
                                                for s_ in owner.body))
                okc = isinstance(c.ops[0], ast.Eq) and au.src(o) == f"self.find({ps[0]})" and positive
            ctx.check(okc, "C20-V1", site, f"component({ps[0] if ps else 'x'}) does not keep exactly the elements e with self.find(e) == self.find({ps[0] if ps else 'x'})",
                      "the component of x is the set of elements sharing x's root", note="component filters on find(e) == find(x)")
        if name in ("components", "component_mapping") and isinstance(owner, ast.For):
            adds = [k for k in au.calls(owner) if au.call_tail(k) in ("add", "append") and len(k.args) == 1]
            okc = len(adds) == 1 and au.src(adds[0].args[0]) == var and not au.guards(adds[0], stop=owner)
            if okc:
                recv = adds[0].func.value
                recv = b.resolve(recv, at=adds[0], keep=(var,)) if not isinstance(recv, ast.Call) else recv
                keyed = [c for c in au.walk(recv) if find_of(c, var)]
                idx_names = au.names(recv)
                okc = bool(keyed) or any(find_of(c, var) for nme in idx_names for s_, v_, i_ in U.bindings_of(fn, nme, within=owner)
                                         for c in au.walk(v_))
            ctx.check(okc, "C20-V1", ctx.site(UF, fn, owner),
                      f"{name} does not put every element, unconditionally, into the group selected by self.find(element)",
                      "an element that is skipped or filed under another root makes the listing disagree with connected()",
                      note=f"{name}: element filed under find(element)")
        if name == "components":
            # root -> position table built from enumerate(roots): key must be the root, value the position
            for x in au.walk(fn):
                elt = None
                if isinstance(x, ast.Call) and au.call_tail(x) == "dict" and len(x.args) == 1 and isinstance(x.args[0], (ast.GeneratorExp, ast.ListComp)) \
                        and isinstance(x.args[0].elt, ast.Tuple) and len(x.args[0].elt.elts) == 2:
                    g, (kx, vx) = x.args[0].generators[0], x.args[0].elt.elts
                elif isinstance(x, ast.DictComp):
                    g, kx, vx = x.generators[0], x.key, x.value
                else:
                    continue
                if isinstance(g.iter, ast.Call) and au.call_tail(g.iter) == "enumerate" and isinstance(g.target, ast.Tuple) and len(g.target.elts) == 2:
                    i_, r_ = (au.src(t) for t in g.target.elts)
                    ctx.check(au.src(kx) == r_ and au.src(vx) == i_, "C20-V1", ctx.site(UF, fn, x),
                              "the root -> slot table of components maps positions to roots instead of roots to positions",
                              "elements are filed under table[find(e)]", note="root -> slot table orientation")
        if name == "component_mapping":
            for x in au.walk(fn):
                if isinstance(x, ast.DictComp) and len(x.generators) == 1 and isinstance(x.generators[0].target, ast.Name) \
                        and isinstance(x.generators[0].iter, ast.Name):
                    g = x.generators[0]
                    ctx.check(au.src(x.key) == g.target.id and au.src(x.value) == g.iter.id and not g.ifs, "C20-V1", ctx.site(UF, fn, x),
                              f"component_mapping builds `{au.src(x)}`: not every member of a component mapped to that component",
                              "elt -> component containing elt", note="every member mapped to its own component")


# ----------------------------------------------------------------- C20-O1
def o1_bounds(ctx):
    repo = ctx.repo
    n = 0
    for name in ("__getitem__", "__setitem__"):
        fn = repo.func(UF, f"{UFC}.{name}")
        site = ctx.site(UF, fn)
        ps = au.params(fn, skip_self=True)
        idx = ps[0] if ps else None
        guards_ = [st for st in fn.body if isinstance(st, ast.If) and U._always_leaves(st.body) and
                   any(isinstance(x, ast.Raise) for x in au.stmts(st.body)) and not st.orelse]
        if len(guards_) != 1 or idx is None:
            n += 1
            ctx.fail("C20-O1", site, f"bounds check (`if <out of range>: raise IndexError`) not found in {name}",
                     "an invalid index must raise IndexError (negative indices would silently address the list from its end)")
            continue
        g = guards_[0]
        forms = {idx: "index", "self._next": "_next", "self.n_elts": "_next", "len(self._elts)": "_next", "len(self)": "_next",
                 "len(self._par)": "_next"}

        def s(node, forms=forms):
            t = au.src(node)
            if t in forms:
                return forms[t]
            if isinstance(node, ast.BinOp):
                raise order.Unsupported(f"arithmetic `{t}` in the bounds test")
            return t
        n += 1
        try:
            wit, ne = order.compare(g.test, "index < 0 or index >= _next", s)
            syms = order.Pred(s).collect(g.test).symbols
            ctx.check(wit is None and syms <= {"index", "_next"}, "C20-O1", ctx.site(UF, fn, g),
                      f"{name} raises under `{au.src(g.test)}`, not under `index < 0 or index >= _next`",
                      f"differs for {wit}" + (f"; operands {sorted(syms)}" if not syms <= {'index', '_next'} else ""),
                      note=f"{name} bounds, {ne} orderings")
        except order.Unsupported as ex:
            ctx.fail("C20-O1", ctx.site(UF, fn, g), f"bounds test of {name} `{au.src(g.test)}` is not a comparison of the index with 0 and _next", str(ex))
        # the access follows the check and addresses _elts[index]
        acc = [x for x in au.walk(fn) if isinstance(x, ast.Subscript) and au.is_self_attr(x.value, "_elts")]
        ok = len(acc) == 1 and au.src(acc[0].slice) == idx and pos(au.enclosing_stmt(acc[0])) > pos(g) \
            and isinstance(acc[0].ctx, ast.Store if name == "__setitem__" else ast.Load)
        ctx.check(ok, "C20-O1", site, f"{name} does not access self._elts[{idx}] after the bounds check", "")
    ctx.require_count("C20-O1 bounds checks", n, 2)


# ----------------------------------------------------------------- C20-Q1
HEAP_WRITERS = {"heappush", "heappop", "heappushpop", "heapreplace", "heapify"}
READ_FUNCS = {"len", "bool", "sorted", "list", "tuple", "iter", "min", "max", "any", "all", "enumerate"}

Q1_FIXTURE = '''
def f():
    q = PriorityQueue()
    q.data.append(3)
    q.data[0] = 1
    q.data = []
    g(q.data)
    n = len(q.data)
    m = q.data[0]
    for it in q.data: pass
'''


def classify_data_use(node, heap_mods, heap_names, inside_class, in_init=False):
    """None if this occurrence of `<queue>.data` cannot modify the list or leak it; otherwise a description."""
    p = au.parent(node)
    if isinstance(p, ast.Call) and any(node is a for a in p.args):
        ch = au.chain(p.func) or []
        is_heap = (len(ch) == 2 and ch[0] in heap_mods and ch[1] in HEAP_WRITERS) or \
                  (len(ch) == 1 and heap_names.get(ch[0]) in HEAP_WRITERS)
        if is_heap:
            if inside_class and p.args and p.args[0] is node:
                return None
            return f"heapq call `{au.src(p)}` outside the class"
        if len(ch) == 1 and ch[0] in READ_FUNCS:
            return None
        return f"passed to `{au.src(p.func)}(...)`"
    if isinstance(p, ast.Subscript) and p.value is node:
        if isinstance(p.ctx, ast.Load):
            return None
        return f"item store / delete `{au.src(p)}`"
    if isinstance(p, ast.Attribute) and p.value is node:
        pp = au.parent(p)
        if isinstance(pp, ast.Call) and pp.func is p:
            if p.attr in MUTATING or p.attr not in ("index", "count", "copy", "__len__"):
                return f"list method `.{p.attr}(...)`"
            return None
        return f"attribute `.{p.attr}`"
    if isinstance(node.ctx, (ast.Store, ast.Del)):
        st = au.enclosing_stmt(node)
        if inside_class and in_init and isinstance(st, ast.Assign) and len(st.targets) == 1 and st.targets[0] is node and \
                ((isinstance(st.value, ast.List) and not st.value.elts) or au.src(st.value) == "list()"):
            return None
        return f"rebinding `{au.src(st)}`"
    if isinstance(p, (ast.For, ast.comprehension)) and p.iter is node:
        return None
    if isinstance(p, ast.UnaryOp) and isinstance(p.op, ast.Not):
        return None
    if isinstance(p, (ast.If, ast.While, ast.IfExp)) and p.test is node:
        return None
    if isinstance(p, ast.Compare):
        return None
    if isinstance(p, ast.AugAssign):
        return f"augmented assignment `{au.src(p)}`"
    return f"escapes through `{au.src(p) if p is not None else au.src(node)}`"


def set_parents(tree):
    for n in ast.walk(tree):
        for c in ast.iter_child_nodes(n):
            c._parent = n


def q1_queue(ctx, rule="C20-Q1", with_empty=True):
    """obligations of the heap-backed queue; also run by C11 (rule C11-Q1) for the candidate heap of KDTree.query."""
    repo = ctx.repo
    mod = repo.module(PQM)
    cls = repo.cls(PQM, PQC)
    item = repo.cls(PQM, "PriorityItem")
    heap_mods, heap_names = U.module_aliases(mod.tree, "heapq")
    # fixture: the who-may-write classifier must fire on writes and stay silent on reads
    ft = ast.parse(Q1_FIXTURE)
    set_parents(ft)
    verdicts = [classify_data_use(n, {"hq"}, {}, False) for n in ast.walk(ft)
                if isinstance(n, ast.Attribute) and n.attr == "data"]
    if sum(v is not None for v in verdicts) != 4 or sum(v is None for v in verdicts) != 3:
        raise AnalysisError(f"{rule} self-check: who-may-write classifier gave {verdicts} on the fixture")

    n_uses = 0
    for st in cls.body:
        if not isinstance(st, ast.FunctionDef):
            continue
        for n in au.walk(st):
            if isinstance(n, ast.Attribute) and n.attr == "data" and au.is_self_attr(n):
                n_uses += 1
                v = classify_data_use(n, heap_mods, heap_names, True, in_init=st.name == "__init__")
                ctx.check(v is None, rule, ctx.site(PQM, st, n), f"{st.name}: self.data {v}",
                          "the list is a heap only as long as nothing but heapq.heappush / heappop modifies it; any other writer (or an "
                          "escaped reference) breaks `front`/`pop` = minimum priority", note=f"{st.name}: heap-safe use of self.data")
    if n_uses == 0:
        ctx.fail(rule, ctx.site(PQM, PQC), "PriorityQueue no longer keeps its items in self.data",
                 "the heap list and its single-writer discipline cannot be established")
        return
    init = repo.func(PQM, PQC + ".__init__")
    ctx.check(any(isinstance(s, ast.Assign) and au.is_self_attr(s.targets[0], "data") for s in init.body), rule,
              ctx.site(PQM, init), "__init__ does not create self.data", "a fresh queue must be empty")

    fields = [s.target.id for s in item.body if isinstance(s, ast.AnnAssign) and isinstance(s.target, ast.Name)]
    payload = [f for f in fields if f != "priority"]
    # push
    fn = repo.func(PQM, PQC + ".push")
    site = ctx.site(PQM, fn)
    b = sym.Bindings(fn)
    ps = au.params(fn, skip_self=True)
    hp = [c for c in au.calls(fn) if (au.chain(c.func) or [None])[-1] == "heappush"]
    ok = False
    detail = ""
    if len(hp) == 1 and len(hp[0].args) == 2 and len(ps) == 2 and "priority" in fields and len(payload) == 1:
        it = b.resolve(hp[0].args[1], at=hp[0], keep=tuple(ps))
        if isinstance(it, ast.Call) and au.call_tail(it) == "PriorityItem":
            args = {}
            for i, a in enumerate(it.args):
                if i < len(fields):
                    args[fields[i]] = a
            for kw in it.keywords:
                args[kw.arg] = kw.value
            ok = au.src(args.get(payload[0])) == ps[0] and au.src(args.get("priority")) == ps[1] \
                and not au.guards(hp[0]) and len(U.paths(fn.body)) == 1
            detail = f"item built as {au.src(it)} with fields {fields}"
    ctx.check(ok, rule, site, f"push({', '.join(ps)}) does not heappush PriorityItem({payload[0] if payload else 'x'}={ps[0] if ps else '?'}, "
              f"priority={ps[1] if len(ps) > 1 else '?'}) unconditionally",
              "every pushed element must be queued exactly once under its own priority; " + detail, note="push builds (payload, priority) in field order")
    # get / pop
    methods = {s.name: s for s in cls.body if isinstance(s, ast.FunctionDef)}

    def pops_min(name, depth=0):
        f = methods.get(name)
        if f is None or depth > 3:
            return False
        rets = [s for s in au.stmts(f.body) if isinstance(s, ast.Return)]
        if len(rets) != 1 or len(U.paths(f.body)) != 1 or not isinstance(rets[0].value, ast.Call):
            return False
        c = rets[0].value
        ch = au.chain(c.func) or []
        if ((len(ch) == 2 and ch[0] in heap_mods) or (len(ch) == 1 and ch[0] in heap_names)) and ch[-1] == "heappop" \
                and len(c.args) == 1 and au.is_self_attr(c.args[0], "data"):
            return len([x for x in au.calls(f)]) == 1
        if isinstance(c.func, ast.Attribute) and au.is_self_attr(c.func) and not c.args and c.func.attr != name:
            return len([x for x in au.calls(f)]) == 1 and pops_min(c.func.attr, depth + 1)
        return False
    for name in ("get", "pop"):
        f = repo.func(PQM, f"{PQC}.{name}")
        ctx.check(pops_min(name), rule, ctx.site(PQM, f), f"{name}() does not return heapq.heappop(self.data) (exactly one pop)",
                  "each call must hand out one pending item of minimum priority, each pushed item exactly once", note=f"{name} pops the heap once")
    # front
    f = repo.func(PQM, PQC + ".front")
    rets = [s for s in au.stmts(f.body) if isinstance(s, ast.Return)]
    ok = len(rets) == 1 and isinstance(rets[0].value, ast.Subscript) and au.is_self_attr(rets[0].value.value, "data") \
        and au.const(rets[0].value.slice) == 0 and not field_writes(f) and len(au.calls(f)) == 0
    ctx.check(ok, rule, ctx.site(PQM, f), "front does not return self.data[0] without side effect",
              "the minimum of a heap list is its first entry", note="front is data[0]")
    if with_empty:
        # empty
        f = repo.func(PQM, PQC + ".empty")
        rets = [s for s in au.stmts(f.body) if isinstance(s, ast.Return)]
        ok, wit = False, None
        if len(rets) == 1 and rets[0].value is not None and not field_writes(f):
            e = rets[0].value
            if isinstance(e, ast.UnaryOp) and isinstance(e.op, ast.Not) and au.is_self_attr(e.operand, "data"):
                ok = True
            else:
                def s(node):
                    if au.src(node) in ("len(self.data)", "self.data.__len__()"):
                        return "n"
                    raise order.Unsupported(au.src(node))
                try:
                    r = U.relate(e, "n == 0", s, env_ok=lambda env: env.get("n", 0) >= 0 and float(env.get("n", 0)).is_integer())
                    ok = r["code_not_spec"] is None and r["spec_not_code"] is None
                    wit = r["code_not_spec"] or r["spec_not_code"]
                except order.Unsupported:
                    ok = False
        ctx.check(ok, rule, ctx.site(PQM, f), "empty() is not `len(self.data) == 0`",
                  f"emptiness must be reported exactly when no item is pending (differs for {wit})", note="empty is len == 0")
    # ordering of items
    lt = [s for s in item.body if isinstance(s, ast.FunctionDef) and s.name == "__lt__"]
    isite = ctx.site(PQM, lt[0] if lt else "PriorityItem")
    if lt:
        lps = au.params(lt[0])
        rets = [s for s in au.stmts(lt[0].body) if isinstance(s, ast.Return)]
        ok, wit = False, None
        if len(rets) == 1 and len(lps) == 2 and rets[0].value is not None:
            forms = {f"{lps[0]}.priority": "a", f"{lps[1]}.priority": "b"}

            def s2(node):
                t = au.src(node)
                if t in forms:
                    return forms[t]
                raise order.Unsupported(f"`{t}` takes part in the ordering of items")
            try:
                r = U.relate(rets[0].value, "a < b", s2, env_ok=lambda env: env.get("a") != env.get("b"), extra_symbols=("a", "b"))
                ok = r["code_not_spec"] is None and r["spec_not_code"] is None
                wit = r["code_not_spec"] or r["spec_not_code"]
            except order.Unsupported as ex:
                wit = str(ex)
        ctx.check(ok, rule, isite, "PriorityItem.__lt__ is not `self.priority < other.priority`",
                  f"heapq orders items with `<` only: it must be the order of the priorities and nothing else ({wit}); payloads need not be comparable",
                  note="items ordered by priority only")
        others = [s.name for s in item.body if isinstance(s, ast.FunctionDef) and s.name in ("__gt__", "__le__", "__ge__", "__eq__")]
        ctx.check(not others, rule, isite, f"PriorityItem also defines {others}", "other rich comparisons must agree with __lt__; none is expected")
    else:
        # dataclass(order=True) path: every non-priority field must be excluded from comparison and priority comes first
        order_kw = any(isinstance(d, ast.Call) and any(kw.arg == "order" and au.const(kw.value) is True for kw in d.keywords)
                       for d in item.decorator_list)
        excluded = all(any(isinstance(s, ast.AnnAssign) and s.target.id == f and isinstance(s.value, ast.Call) and
                           any(kw.arg == "compare" and au.const(kw.value) is False for kw in s.value.keywords) for s in item.body)
                       for f in payload)
        ctx.check(order_kw and excluded, rule, isite, "PriorityItem has no __lt__ on priority and is not an order=True dataclass whose payload is compare=False",
                  "heapq needs `<` on items, decided by the priority alone")


# ----------------------------------------------------------------- sweeps (who-may-write over the package)
SWEEP_FIXTURE = '''
def f(m):
    uf = UnionFind(m)
    uf._par[0] = 1
    uf.n_comps -= 1
    k = uf.n_comps
    uf.union(1, 2)
'''


def instances(repo, mod, fn, class_mod, class_name):
    """source texts of the targets bound to `class_name(...)` in fn."""
    out = []
    for n in au.walk(fn):
        val = tgt = None
        if isinstance(n, ast.Assign) and len(n.targets) == 1:
            val, tgt = n.value, n.targets[0]
        elif isinstance(n, ast.AnnAssign) and n.value is not None:
            val, tgt = n.value, n.target
        if not isinstance(val, ast.Call):
            continue
        ch = au.chain(val.func)
        if not ch or ch[-1] != class_name:
            continue
        ok = False
        if repo is None:
            ok = True
        elif len(ch) == 1:
            r = repo.resolve(mod.name, ch[0])
            ok = bool(r) and r[0] == "class" and r[1] == PKG + "." + class_mod and r[2] == class_name
        else:
            r = repo.resolve(mod.name, ch[0])
            if r and r[0] == "module" and r[1] in repo.modules:
                r2 = repo.resolve(r[1], ch[1]) if len(ch) == 2 else None
                ok = bool(r2) and r2[0] == "class" and r2[1] == PKG + "." + class_mod and r2[2] == class_name
        if ok and isinstance(tgt, (ast.Name, ast.Attribute)):
            out.append((au.src(tgt), n))
    return out


def uf_private_uses(fn, recv):
    """accesses to the private tables / stores to the counters of a UnionFind held in `recv` (source text)."""
    hits = []
    for n in au.walk(fn):
        if isinstance(n, ast.Attribute) and au.src(n.value) == recv:
            if n.attr in PRIVATE_UF:
                hits.append((n, f"{recv}.{n.attr}"))
            elif n.attr in ("n_comps", "n_elts") and (isinstance(n.ctx, (ast.Store, ast.Del)) or
                                                      (isinstance(au.parent(n), ast.AugAssign) and au.parent(n).target is n)):
                hits.append((n, f"store to {recv}.{n.attr}"))
    return hits


def sweeps(ctx):
    repo = ctx.repo
    ft = ast.parse(SWEEP_FIXTURE)
    set_parents(ft)
    f0 = ft.body[0]
    inst = instances(None, None, f0, UF, UFC)
    if [i[0] for i in inst] != ["uf"] or len(uf_private_uses(f0, "uf")) != 2:
        raise AnalysisError("C20-U2 self-check: the outside-writer matcher does not fire on its fixture")
    heap_cache = {}
    n_pq = n_uf = 0
    for mname, mod in sorted(repo.modules.items()):
        for q, fn in sorted(mod.funcs.items()):
            short = mname[len(PKG) + 1:]
            for recv, node in instances(repo, mod, fn, PQM, PQC):
                n_pq += 1
                if mname not in heap_cache:
                    heap_cache[mname] = U.module_aliases(mod.tree, "heapq")
                hm, hn = heap_cache[mname]
                bad = []
                for n in au.walk(fn):
                    if isinstance(n, ast.Attribute) and n.attr == "data" and au.src(n.value) == recv:
                        v = classify_data_use(n, hm, hn, False)
                        if v is not None:
                            bad.append(v)
                ctx.check(not bad, "C20-Q1", ctx.site(short, fn, node),
                          f"{q}: the list of the PriorityQueue `{recv}` is modified outside the class ({'; '.join(sorted(set(bad)))})",
                          "only heapq.heappush/heappop inside PriorityQueue may write `data`: any other writer breaks the heap order",
                          note=f"{recv}.data is not written by its user")
            for recv, node in instances(repo, mod, fn, UF, UFC):
                n_uf += 1
                hits = uf_private_uses(fn, recv)
                ctx.check(not hits, "C20-U2", ctx.site(short, fn, node),
                          f"{q}: code outside UnionFind touches {sorted({d for _, d in hits})}",
                          "the forest and its counters stay consistent only if the class is their single writer",
                          note=f"{recv}: tables untouched by its user")
    ctx.require_count("C20-Q1 PriorityQueue instances in the package", n_pq, 1)
    ctx.require_count("C20-U2 UnionFind instances in the package", n_uf, 1)
