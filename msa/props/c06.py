"""C06 - meshes have value semantics: copy, merge and transforms never alias (structural clauses).

The rules read the symbolic paths of copy / merge / the transforms (msa/rules/hd_sx.py: local names substituted, private helpers
and lambdas expanded, table-driven loops unrolled, getattr/setattr with constant names read as attribute access) and state their
obligations on the effects of each path.  A shape that is not understood is `undecided`; a violation names the recognised
construct that shares storage / skips an element / departs from the requested map."""
from __future__ import annotations
import ast
from fractions import Fraction
from .. import au, sym
from ..rules import alias, hd_sx
from ..rules.hd_sx import SX, TooComplex, src, walk_events

MESH = "mesh.mesh"
TR = "geometry.transform"
BASE = "mesh.datatypes.base"
MD = "mesh.mesh_data"
DC = "mesh.data_container"

EXPLANATION = (
    "Static ownership analysis of copy / merge / transforms on the symbolic paths of each function (helpers, lambdas and table-driven "
    "loops expanded): on every path copy deep-copies exactly the containers a mesh exposes for the containers its source has and assigns "
    "nothing of the source by reference; merge adds a fresh object per vertex and shifts every index kind of every input by one running "
    "offset that starts at 0 and advances by the input's vertex count on every path of the loop; every transform rebinds each vertex "
    "exactly once in a loop over all vertex ids with a fresh right-hand side (no in-place update of a stored vector, which would move a "
    "vector stored under two ids twice) and never skips the motion for a non-trivial parameter; the stored value is the requested affine "
    "map (polynomial identity); normalisation composes to the documented similarity. Freshness follows a small grammar that depends on "
    "whether Vec(x) is a view (re-derived from Vec.__new__ on every run). Structural necessary conditions only.")

RULES = {
    "C06-A4": "copy(): on every path each container Mesh.__init__ exposes (and the source has) is assigned deepcopy(source.<same path>) - whole containers with attributes, "
              "their raw lists without; nothing of the source is assigned by reference; the connectivity is deep-copied with its back-reference re-pointed",
    "C06-A5": "merge(): the vertices added to the result are fresh objects; every index kind an input has is appended shifted by one running offset that is 0 before the "
              "loop and advanced by len(input.vertices), after its uses, on every path of the loop body",
    "C06-A6": "translate/rotate/scale/scale_xyz (and every function of transform.py that writes vertices): one unconditional store per vertex in a loop over all vertex ids, "
              "right-hand side fresh, no augmented assignment on / in-place update of a stored vector, no path that skips the motion for a non-trivial parameter",
    "C06-F1": "the value stored for a vertex is exactly the requested affine map of its old position: P + t, O + f (P - O), O + R(P - O), "
              "O + diag(fx, fy, fz)(P - O) (polynomial identity over the atoms P, O, t, f; R linear)",
    "C06-N1": "normalize(): the composition of the maps it applies is P -> 2 (P - center) / max span (centred) resp. (P - mini) / max span (anchored)",
    "C06-V1": "fact: whether Vec(x) aliases x (np.asarray(...).view) - the freshness grammar is derived from it",
}

P = sym.Poly
TRANSFORMS = ["translate", "rotate", "scale", "scale_xyz"]
ROLE_PARAMS = {"translate": 2, "rotate": 3, "scale": 3, "scale_xyz": 5, "normalize": 2}     # parameters that define the map (the following optional ones are extras)


def _nondefault_path(p, fn, n_role):
    """the path is only taken when an optional parameter added after the role parameters differs from its default: a new optional
    keyword whose default keeps the behaviour is out of the scope of the rule"""
    a = fn.args
    params = a.posonlyargs + a.args
    defaults = dict(zip([x.arg for x in params[len(params) - len(a.defaults):]], a.defaults))
    defaults.update({k.arg: d for k, d in zip(a.kwonlyargs, a.kw_defaults) if d is not None})
    extras = {x.arg for x in params[n_role:]} | {x.arg for x in a.kwonlyargs}
    for t, pol in p.conds:
        nm = None
        if isinstance(t, ast.Name) and t.id in extras and t.id in defaults and isinstance(defaults[t.id], ast.Constant):
            if bool(defaults[t.id].value) != pol:
                return True
        if isinstance(t, ast.Compare) and len(t.ops) == 1 and isinstance(t.left, ast.Name) and t.left.id in extras and t.left.id in defaults \
                and isinstance(defaults[t.left.id], ast.Constant) and isinstance(t.comparators[0], ast.Constant):
            d, c = defaults[t.left.id].value, t.comparators[0].value
            if isinstance(t.ops[0], (ast.Is, ast.Eq)):
                holds = (d is c) if c is None or isinstance(c, bool) else (d == c)
            elif isinstance(t.ops[0], (ast.IsNot, ast.NotEq)):
                holds = not ((d is c) if c is None or isinstance(c, bool) else (d == c))
            else:
                continue
            if holds != pol:
                return True
    return False


def run(ctx):
    repo = ctx.repo
    fr = alias.Freshness(repo)
    ctx.ok("C06-V1", ctx.site("geometry.vector", repo.func("geometry.vector", "Vec.__new__")),
           f"Vec(x) is a {'view of x' if fr.vec_is_view else 'copy of x'}")
    try:
        v1_copy_protocol(ctx, fr)
    except Exception as e:  # noqa
        ctx.undecided("C06-V1", ctx.site("geometry.vector", "Vec"), "Vec: the copy protocol could not be read", f"{type(e).__name__}: {e}")
    from ..core import AnalysisError
    layout = Layout()
    for rule, f in (("C06-A4", lambda: _mesh_layout(ctx, layout)), ("C06-A4", lambda: a4_copy(ctx, fr, layout)), ("C06-A5", lambda: a5_merge(ctx, fr, layout)),
                    ("C06-A6", lambda: a6_transforms(ctx, fr)), ("C06-F1", lambda: f1_transform_formulas(ctx)), ("C06-N1", lambda: n1_normalize(ctx))):
        try:
            f()
        except AnalysisError:
            raise
        except Exception as e:  # noqa - a shape the reader trips on is undecided, never a verdict
            ctx.undecided(rule, ctx.site(MESH, "<module>"), f"{rule}: the rule could not read the code", f"{type(e).__name__}: {e}")


def v1_copy_protocol(ctx, fr):
    """copy() / merge() rely on deepcopy(x) and x.copy() of a vector allocating: a Vec that redefines them must not answer a view"""
    repo = ctx.repo
    mod = repo.module("geometry.vector")
    cls = mod.classes.get("Vec")
    if cls is None:
        return
    for st in cls.body:
        if isinstance(st, ast.FunctionDef) and st.name in ("__copy__", "__deepcopy__", "copy"):
            site = ctx.site("geometry.vector", st)
            ps = SX(repo, "geometry.vector", "Vec").run(st)
            me = au.params(st)[0]
            verdicts = set()
            for p in ps:
                if p.end != "return" or p.ret is None:
                    continue
                r = fresh3(p.ret, fr)
                verdicts.add("alias" if (r == "alias" and _has_name(p.ret, me)) else r)
            if "alias" in verdicts:
                ctx.fail("C06-V1", site, f"Vec.{st.name} answers a view of the vector instead of a new array",
                         "deepcopy / copy of a mesh, of a container or of a vertex then shares the coordinate buffers with the original: "
                         "an in-place edit of one shows in the other")
            elif "unknown" in verdicts or not verdicts:
                ctx.undecided("C06-V1", site, f"Vec.{st.name}: cannot tell whether the answer is a new array")
            else:
                ctx.ok("C06-V1", site, f"Vec.{st.name} allocates")


# ---------------------------------------------------------------------------- shared
def _run(ctx, rule, modname, qual, cls=None, **kw):
    fn = ctx.repo.func(modname, qual)
    site = ctx.site(modname, fn)
    try:
        ps = SX(ctx.repo, modname, cls, **kw).run(fn)
    except (TooComplex, RecursionError) as e:
        ctx.undecided(rule, site, f"{qual}: too many paths to read", str(e))
        return fn, site, None
    bad = sorted({n for p in ps for n in p.notes})
    if bad:
        ctx.undecided(rule, site, f"{qual}: contains a statement the path reader does not model", "; ".join(bad))
        return fn, site, None
    return fn, site, ps


def _nt(ctx, modname, fn):
    """renderer of code snippets for finding texts: local names are replaced by placeholders"""
    keep = hd_sx.keep_names(ctx.repo, modname, fn)
    return lambda node: hd_sx.neutral(node, keep) if isinstance(node, ast.AST) else str(node)


def _has_name(e, nm):
    return isinstance(e, ast.AST) and any(isinstance(n, ast.Name) and n.id == nm for n in ast.walk(e))


def chain_root(e):
    """(root expression, [attribute names]) of `root.a.b.c`"""
    parts = []
    while isinstance(e, ast.Attribute):
        parts.append(e.attr)
        e = e.value
    return e, parts[::-1]


FRESH_CALLS = alias.ALLOC_CALLS
VIEWS = alias.VIEW_CALLS


def fresh3(e, fr, fresh_names=()):
    """'fresh' (a newly allocated object) / 'alias' (a recognised reference to / view of an existing object) / 'unknown'"""
    if isinstance(e, ast.Constant):
        return "fresh"
    if isinstance(e, ast.BinOp) and isinstance(e.op, alias.ARITH):
        return "fresh"
    if isinstance(e, ast.UnaryOp) and isinstance(e.op, (ast.USub, ast.UAdd)):
        return "fresh"
    if isinstance(e, ast.IfExp):
        a, b = fresh3(e.body, fr, fresh_names), fresh3(e.orelse, fr, fresh_names)
        return "alias" if "alias" in (a, b) else ("fresh" if a == b == "fresh" else "unknown")
    if isinstance(e, ast.Name):
        return "fresh" if e.id in fresh_names else "alias"
    if isinstance(e, ast.Attribute):
        if e.attr in ("T", "real", "imag", "flat"):
            return fresh3(e.value, fr, fresh_names)
        return "alias" if hd_sx.is_path(e) else "unknown"
    if isinstance(e, ast.Subscript):
        b = fresh3(e.value, fr, fresh_names)
        if b == "fresh":
            return "fresh"          # a row / slice of a block nobody else references
        return b
    if isinstance(e, ast.Call):
        t = au.call_tail(e)
        if any(k.arg == "copy" and isinstance(k.value, ast.Constant) and k.value.value is False for k in e.keywords):
            # astype(.., copy=False) / np.array(x, copy=False): the argument itself when no conversion is needed
            base = e.func.value if (isinstance(e.func, ast.Attribute) and au.chain(e.func.value) not in (["np"], ["numpy"])) else (e.args[0] if e.args else None)
            return fresh3(base, fr, fresh_names) if base is not None else "unknown"
        if t == "Vec":
            if len(e.args) >= 2 or not e.args:
                return "fresh"
            return fresh3(e.args[0], fr, fresh_names) if fr.vec_is_view else "fresh"
        if t in VIEWS:
            base = e.args[0] if (e.args and isinstance(e.func, ast.Attribute) and au.chain(e.func.value) in (["np"], ["numpy"])) \
                else (e.func.value if isinstance(e.func, ast.Attribute) else None)
            if base is not None and t in ("asarray", "asanyarray") and (isinstance(base, (ast.List, ast.ListComp)) or
                                                                       (isinstance(base, ast.Attribute) and base.attr == "_data" and src(base).endswith(".vertices._data"))
                                                                       or (isinstance(base, ast.Call) and au.call_tail(base) == "list")):
                return "fresh"      # converting a python list (of vectors) allocates the 2-D block
            return fresh3(base, fr, fresh_names) if base is not None else "unknown"
        return "fresh"              # allocation calls; unknown calls return new objects in this code base (can only lose alarms)
    if isinstance(e, (ast.Tuple, ast.List)):
        rs = [fresh3(x, fr, fresh_names) for x in e.elts]
        return "alias" if "alias" in rs else ("fresh" if all(r == "fresh" for r in rs) else "unknown")
    if isinstance(e, (ast.ListComp, ast.GeneratorExp)):
        return fresh3(e.elt, fr, fresh_names)
    return "unknown"


# ---------------------------------------------------------------------------- what a mesh exposes
class Layout:
    def __init__(self):
        self.exposed = {}      # container name -> canonical guard under which Mesh.__init__ exposes it
        self.kind = {}         # container name -> class name (DataContainer / CornerDataContainer)
        self.raw = {}          # class name -> raw storage fields
        self.ok = False

    def group(self, c):
        g = self.exposed.get(c)
        return {x for x, gx in self.exposed.items() if gx == g}

    def level(self, c):
        """k when the container is exposed exactly for dim > k (-1: always), else None"""
        import re
        g = self.exposed.get(c)
        if g == "":
            return -1
        parts = (g or "").split(" & ")
        ms = [re.fullmatch(r"(\d+) < (\w+)", x) for x in parts]
        if not all(ms) or len({m.group(2) for m in ms}) != 1:
            return None
        return max(int(m.group(1)) for m in ms)

    def infer(self, has):
        """presence facts completed with the order of the dimensions: a mesh that has cells has faces and edges, one without edges has neither"""
        out = dict(has)
        lv = {c: self.level(c) for c in self.exposed}
        for c, l in lv.items():
            if l is None or c in out:
                continue
            if any(out.get(d) is True and lv.get(d) is not None and lv[d] >= l for d in has):
                out[c] = True
            elif any(out.get(d) is False and lv.get(d) is not None and lv[d] <= l for d in has):
                out[c] = False
        return out


FALLBACK_KIND = {"vertices": "DataContainer", "edges": "DataContainer", "faces": "DataContainer", "cells": "DataContainer",
                 "face_corners": "CornerDataContainer", "cell_corners": "CornerDataContainer", "cell_faces": "CornerDataContainer"}


def _mesh_layout(ctx, lay):
    repo = ctx.repo
    init = repo.func(BASE, "Mesh.__init__")
    site = ctx.site(BASE, init)
    try:
        ps = SX(repo, BASE, "Mesh").run(init)
    except (TooComplex, RecursionError) as e:
        ctx.undecided("C06-A4", site, "Mesh.__init__: too many paths to read", str(e))
        return lay
    data = au.params(init, skip_self=True)
    for p in ps:
        if p.end == "raise":
            continue
        for ev, conds, loops in walk_events(p):
            if ev.kind == "store" and au.is_self_attr(ev.a) and not loops:
                guard = " & ".join(sorted(au.canon_test(t, pol) for t, pol in conds if not any(_has_name(t, d) for d in data[1:2])))
                lay.exposed.setdefault(ev.a.attr, guard)
            elif ev.kind == "loop":
                ctx.undecided("C06-A4", site, "Mesh.__init__ fills its containers in a loop that could not be unrolled", src(ev.a))
                return lay
    # class of each container (RawMeshData.__init__) and raw fields of each class
    try:
        rinit = repo.func(MD, "RawMeshData.__init__")
        for p in SX(repo, MD, "RawMeshData").run(rinit):
            for ev, _, _ in walk_events(p):
                if ev.kind == "store" and au.is_self_attr(ev.a):
                    for n in ast.walk(ev.b):
                        if isinstance(n, ast.Name) and n.id in ("DataContainer", "CornerDataContainer"):
                            lay.kind.setdefault(ev.a.attr, n.id)
    except (TooComplex, RecursionError, Exception):   # noqa - the fallback table below is used
        pass
    for c in lay.exposed:
        lay.kind.setdefault(c, FALLBACK_KIND.get(c))
    for cname in ("DataContainer", "CornerDataContainer"):
        try:
            f = repo.func(DC, cname + ".__init__")
            lay.raw[cname] = sorted({t.attr for st in au.stmts(f.body) for t in au.assign_targets(st) if au.is_self_attr(t)})
        except Exception:  # noqa
            lay.raw[cname] = []
        if not lay.raw[cname]:
            lay.raw[cname] = ["_data"] if cname == "DataContainer" else ["_elem", "_adj"]
    if not lay.exposed or any(lay.kind.get(c) is None for c in lay.exposed):
        ctx.undecided("C06-A4", site, "the containers Mesh.__init__ exposes (and their classes) could not be read",
                      f"exposed {sorted(lay.exposed)}; classes {lay.kind}")
        return lay
    lay.ok = True
    ctx.ok("C06-A4", site, f"Mesh.__init__ exposes {sorted(lay.exposed)}")
    return lay


# ---------------------------------------------------------------------------- A4
def _is_new_of(e, src_name):
    """`type(src)()` (or a class call): the freshly instantiated mesh"""
    if isinstance(e, ast.Call) and not e.args and not e.keywords and src(e.func) == f"{src_name}.__class__":
        return True
    return isinstance(e, ast.Call) and not e.args and isinstance(e.func, ast.Call) and au.call_tail(e.func) == "type" \
        and len(e.func.args) == 1 and src(e.func.args[0]) == src_name


DEEPCOPY_NAMES = {"deepcopy"}


def _learn_deepcopy_aliases(repo, modname):
    """names bound to copy.deepcopy in the module (`from copy import deepcopy as clone`), wherever the import stands"""
    for n in ast.walk(repo.module(modname).tree):
        if isinstance(n, ast.ImportFrom) and n.module == "copy" and n.level == 0:
            for a in n.names:
                if a.name == "deepcopy":
                    DEEPCOPY_NAMES.add(a.asname or a.name)


def _copy_value(v, src_name, path, fr, vertices, nt=src, mutable_rows=False):
    """verdict on `dst.<path> = v`: ('ok',) / ('fail', why) / ('und', why)"""
    want = ".".join([src_name] + list(path))
    if isinstance(v, ast.Call) and au.call_tail(v) in DEEPCOPY_NAMES and v.args:
        if src(v.args[0]) == want:
            return ("ok",)
        root, parts = chain_root(v.args[0])
        if isinstance(root, ast.Name) and root.id == src_name:
            return ("fail", f"deepcopy({src(v.args[0])}) instead of deepcopy({want})", "the copy would mix up the containers of its source")
        return ("und", f"deepcopy of `{src(v.args[0])}`")
    if hd_sx.is_path(v) and _has_name(v, src_name):
        return ("fail", f"`{nt(v)}` assigned by reference", "the copy would share storage with its source")
    if isinstance(v, ast.Call) and au.call_tail(v) in ("DataContainer", "CornerDataContainer"):
        raw = [a for a in list(v.args) + [k.value for k in v.keywords] if hd_sx.is_path(a) and src(a).startswith(want + "._") and not src(a).endswith("._attr")]
        if raw and vertices:
            return ("fail", f"a new container built over `{nt(raw[0])}`: the constructor copies the list, not the vectors in it",
                    "the copy holds the very vector objects of its source: an in-place edit of a vertex of one mesh shows in the other")
        return ("und", f"`{nt(v)[:80]}`")
    shallow = None
    if isinstance(v, ast.Call) and au.call_tail(v) in ("list", "tuple", "copy") and (v.args or isinstance(v.func, ast.Attribute)):
        inner = v.args[0] if v.args else v.func.value
        if _has_name(inner, src_name) and hd_sx.is_path(inner):
            shallow = f"`{nt(v)}` is a shallow copy"
    if isinstance(v, ast.Subscript) and isinstance(v.slice, ast.Slice) and _has_name(v.value, src_name):
        shallow = f"`{nt(v)}` is a shallow copy"
    if isinstance(v, (ast.ListComp, ast.GeneratorExp)) and len(v.generators) == 1 and _has_name(v.generators[0].iter, src_name):
        g = v.generators[0]
        r = fresh3(v.elt, fr)
        if vertices:
            if r == "fresh" and not g.ifs:
                return ("ok",)
            if r == "alias":
                return ("fail", f"`{nt(v)}` puts views of / references to the source's vectors into the copy",
                        "Vec(x) is a view of x: the copy shares every coordinate buffer with its source, an in-place edit of one mesh shows in the other")
        return ("und", f"`{src(v)}`")
    if shallow:
        if vertices:
            return ("fail", shallow + ": the vertex vectors themselves are shared", "an in-place edit of a vertex of one mesh shows in the other")
        if mutable_rows:
            return ("fail", shallow + ": the rows of the element list are shared",
                    "the rows of edges / faces / cells can be lists or arrays (from_arrays, appended lists): editing an element of the copy in place changes the source")
        return ("und", shallow)
    return ("und", f"`{src(v)}`")


def a4_copy(ctx, fr, lay):
    repo = ctx.repo
    _learn_deepcopy_aliases(repo, MESH)
    fn0 = repo.func(MESH, "copy")
    sname0 = (au.params(fn0) or [None])[0]

    def raw_field_test(atom):
        """hasattr(<source>.<container>, '<raw field>') is decided by the class of the container"""
        if lay.ok and isinstance(atom, ast.Call) and au.call_tail(atom) == "hasattr" and len(atom.args) == 2 and isinstance(atom.args[1], ast.Constant):
            root, parts = chain_root(atom.args[0])
            if isinstance(root, ast.Name) and root.id == sname0 and len(parts) == 1 and parts[0] in lay.kind:
                f = atom.args[1].value
                if f in [x for k in lay.raw for x in lay.raw[k]] + ["_attr", "id"]:
                    return f in lay.raw[lay.kind[parts[0]]] or f in ("_attr", "id")
        return None
    fn, site, ps = _run(ctx, "C06-A4", MESH, "copy", fold_hook=raw_field_test)
    if ps is None or not lay.ok:
        if ps is not None:
            ctx.undecided("C06-A4", site, "copy(): the list of containers of a mesh is not available")
        return
    params = au.params(fn)
    if len(params) < 2:
        ctx.undecided("C06-A4", site, "copy() without (mesh, copy_attributes) parameters")
        return
    sname, mode = params[0], params[1]
    nt = _nt(ctx, MESH, fn)
    fails, unds, n_ok = {}, set(), 0
    for p in ps:
        if p.end == "raise":
            continue
        whole = None
        has = {}
        for t, pol in p.conds:
            if isinstance(t, ast.Name) and t.id == mode:
                whole = pol
            if isinstance(t, ast.Call) and au.call_tail(t) == "hasattr" and len(t.args) == 2 and src(t.args[0]) == sname \
                    and isinstance(t.args[1], ast.Constant):
                has[t.args[1].value] = pol
        # a test on the raw fields of a container is decided by the class of the container: infeasible paths are dropped
        infeasible = False
        for t, pol in p.conds:
            if isinstance(t, ast.Call) and au.call_tail(t) == "hasattr" and len(t.args) == 2 and isinstance(t.args[1], ast.Constant):
                root, parts = chain_root(t.args[0])
                if isinstance(root, ast.Name) and root.id == sname and len(parts) == 1 and parts[0] in lay.kind:
                    known = t.args[1].value in lay.raw[lay.kind[parts[0]]] or t.args[1].value in ("_attr", "id")
                    other = [f for k in lay.raw for f in lay.raw[k]]
                    if t.args[1].value in other + ["_attr", "id"] and known != pol:
                        infeasible = True
        if infeasible:
            continue
        has = lay.infer(has)
        if whole is None:
            present = [c for c in lay.exposed if not any(has.get(g) is False for g in lay.group(c)) and (not lay.exposed[c] or any(has.get(g) for g in lay.group(c)))]
            if present:
                unds.add("a path of copy() does not depend on copy_attributes")
            continue
        copied = {}
        opaque = False
        for ev, conds, loops in walk_events(p):
            if loops:
                if ev.kind in ("store", "aug", "call"):
                    opaque = True
                continue
            if ev.kind == "call" and any(_is_new_of(a, sname) for a in list(ev.a.args) + [k.value for k in ev.a.keywords]):
                opaque = True
            if ev.kind == "aug":
                root, parts = chain_root(ev.a)
                if _is_new_of(root, sname):
                    opaque = True
            if ev.kind != "store":
                continue
            root, parts = chain_root(ev.a)
            if not (_is_new_of(root, sname) and parts):
                if _has_name(ev.a, sname) and isinstance(root, ast.Name) and root.id == sname:
                    unds.add(f"copy() writes into its source: `{src(ev.a)} = ...`")
                continue
            path = tuple(parts)
            v = ev.b
            s = ctx.site(MESH, fn, ev.node)
            if path == ("connectivity",):
                if isinstance(v, ast.Call) and au.call_tail(v) in DEEPCOPY_NAMES and v.args and src(v.args[0]) == f"{sname}.connectivity":
                    memo = v.args[1] if len(v.args) > 1 else next((k.value for k in v.keywords if k.arg == "memo"), None)
                    good = isinstance(memo, ast.Dict) and any(src(k) == f"id({sname})" and _is_new_of(val, sname) for k, val in zip(memo.keys, memo.values))
                    if good:
                        ctx.ok("C06-A4", s, "connectivity deep-copied with its back-reference re-pointed")
                    elif memo is None:
                        fails["copy(): the connectivity is deep-copied without re-pointing its back-reference to the new mesh"] = \
                            "the connectivity object refers to its mesh: a plain deepcopy drags a hidden copy of the source along and the " \
                            "copy's connectivity keeps answering for that hidden mesh, not for the copy"
                    else:
                        unds.add(f"connectivity copied with memo `{src(memo)}`")
                elif hd_sx.is_path(v) and _has_name(v, sname):
                    fails[f"copy(): `copy.connectivity = {nt(v)}` shares an object of the source mesh with the copy"] = \
                        "the shared object (and its back-reference to the source) is mutable state common to both meshes: a query or edit through one changes the other"
                else:
                    unds.add(f"connectivity set to `{src(v)}`")
                continue
            if path[0] not in lay.exposed:
                if _has_name(v, sname) and fresh3(v, fr) == "alias":
                    unds.add(f"`copy.{'.'.join(path)} = {src(v)}`: an object of the source is handed to the copy (mutable or not is not known)")
                continue
            verdict = _copy_value(v, sname, path, fr, vertices=(path[0] == "vertices"), nt=nt,
                                  mutable_rows=(lay.kind.get(path[0]) == "DataContainer" and path[-1] in lay.raw["DataContainer"]))
            copied[path] = verdict
            if verdict[0] == "fail":
                fails[f"copy(): `copy.{'.'.join(path)}` is assigned {verdict[1]}"] = verdict[2]
            elif verdict[0] == "und":
                unds.add(f"copy.{'.'.join(path)} = {verdict[1]}")
            # the source must have the container: hasattr on the container or on one of its group
            c = path[0]
            if lay.exposed.get(c) and not any(has.get(g) for g in lay.group(c)):
                unds.add(f"{c} is copied without testing that the source has it")
        # completeness on this path
        for c in lay.exposed:
            grp = lay.group(c)
            if any(has.get(g) is False for g in grp):
                continue
            if lay.exposed[c] and not any(has.get(g) for g in grp):
                continue                          # presence unknown on this path
            want = [(c,)] if whole else [(c, f) for f in lay.raw[lay.kind[c]]]
            for w in want:
                alt = (c,)                        # a whole-container deepcopy also covers the raw fields
                if w in copied or (alt in copied and copied[alt][0] == "ok"):
                    continue
                if opaque or not copied:
                    unds.add(f"no assignment of copy.{'.'.join(w)} was recognised")
                else:
                    fails[f"copy({'with' if whole else 'without'} attributes) does not copy {'.'.join(w)}"] = \
                        "a copy must equal its source on every container"
        n_ok += 1
    for c, w in fails.items():
        ctx.fail("C06-A4", site, c, w)
    if not fails and (unds or n_ok == 0):
        ctx.undecided("C06-A4", site, "copy(): some assignments are not recognised as deep copies of the same container of the source",
                      "; ".join(sorted(unds)))
    elif not fails:
        ctx.ok("C06-A4", site, f"{n_ok} paths: every exposed container the source has is deep-copied from the same path")


# ---------------------------------------------------------------------------- A5
def _len_of_vertices(e, m):
    if isinstance(e, ast.Call) and au.call_tail(e) == "len" and len(e.args) == 1 and isinstance(e.args[0], ast.Call) \
            and au.call_tail(e.args[0]) in ("list", "tuple") and len(e.args[0].args) == 1:
        e = ast.Call(func=e.func, args=[e.args[0].args[0]], keywords=[])
    s = src(e).replace(" ", "")
    return s in (f"len({m}.vertices)", f"{m}.vertices.size", f"len({m}.vertices._data)", f"len({m}.id_vertices)")


def _append_events(b, root_ok):
    """(kind, value, event) for `X.kind += value` / `X.kind.extend(value)` with X accepted by root_ok"""
    for ev, conds, loops in walk_events(b):
        if loops:
            continue
        if ev.kind == "aug" and isinstance(ev.c, ast.Add) and isinstance(ev.a, ast.Attribute) and root_ok(ev.a.value):
            yield ev.a.attr, ev.b, ev
        elif ev.kind == "call" and isinstance(ev.a.func, ast.Attribute) and ev.a.func.attr == "extend" and len(ev.a.args) == 1 \
                and isinstance(ev.a.func.value, ast.Attribute) and root_ok(ev.a.func.value.value):
            yield ev.a.func.value.attr, ev.a.args[0], ev
        elif ev.kind == "store" and isinstance(ev.a, ast.Attribute) and root_ok(ev.a.value) and isinstance(ev.b, ast.BinOp) \
                and isinstance(ev.b.op, ast.Add) and src(ev.b.left) == src(ev.a):
            yield ev.a.attr, ev.b.right, ev
        elif ev.kind == "loop" and isinstance(ev.c.node, ast.For) and len(ev.c.body) == 1 and not ev.c.body[0].conds and ev.c.body[0].end == "fall" \
                and len(ev.c.body[0].events) == 1:
            # `for x in it: X.kind.append(f(x))`  ==  `X.kind += [f(x) for x in it]`
            one = ev.c.body[0].events[0]
            if one.kind == "call" and isinstance(one.a.func, ast.Attribute) and one.a.func.attr == "append" and len(one.a.args) == 1 \
                    and isinstance(one.a.func.value, ast.Attribute) and root_ok(one.a.func.value.value):
                comp = ast.ListComp(elt=one.a.args[0], generators=[ast.comprehension(target=ev.b, iter=ev.a, ifs=[], is_async=0)])
                ev.x = [one]
                yield one.a.func.value.attr, comp, ev


def a5_merge(ctx, fr, lay):
    repo = ctx.repo
    fn, site, ps = _run(ctx, "C06-A5", MESH, "merge")
    if ps is None:
        return
    params = au.params(fn)
    if not params:
        ctx.undecided("C06-A5", site, "merge() without a list parameter")
        return
    lst = params[0]
    nt = _nt(ctx, MESH, fn)
    kinds = [c for c in lay.exposed if lay.kind.get(c) == "DataContainer" and c != "vertices"] if lay.ok else ["edges", "faces", "cells"]
    loops = []
    for p in ps:
        if p.end == "raise":
            continue
        for ev in p.events:
            if ev.kind == "loop" and isinstance(ev.c.node, ast.For):
                it = ev.a
                tgt = ev.b
                if isinstance(it, ast.Call) and au.call_tail(it) == "enumerate" and it.args and isinstance(tgt, ast.Tuple) and len(tgt.elts) == 2:
                    it, tgt = it.args[0], tgt.elts[1]
                while isinstance(it, ast.Call) and au.call_tail(it) in ("list", "tuple", "iter") and len(it.args) == 1:
                    it = it.args[0]
                if src(it) == lst and isinstance(tgt, ast.Name):
                    loops.append((p, ev, tgt.id))
    adopted = [ev for p in ps for ev, _, _ in walk_events(p) if ev.kind in ("aug", "call", "store") for e in hd_sx.exprs_of(ev) for c in ast.walk(e)
               if isinstance(c, ast.Call) and au.call_tail(c) == "RawMeshData" and c.args and _has_name(c.args[0], lst)]
    adopted += [p.ret for p in ps if isinstance(p.ret, ast.AST) for c in ast.walk(p.ret)
                if isinstance(c, ast.Call) and au.call_tail(c) == "RawMeshData" and c.args and _has_name(c.args[0], lst)]
    if adopted:
        ctx.fail("C06-A5", site, "merge(): the result is built on RawMeshData(<an input mesh>), which adopts the containers of that input",
                 "RawMeshData(mesh) takes the containers of the mesh by reference: appending the other inputs grows the first input, and editing the result edits it")
        return
    if not loops:
        ctx.undecided("C06-A5", site, "merge(): no loop over the list of input meshes was recognised")
        return
    fails, unds, oks = {}, set(), set()
    seen_loops = set()
    for p, lev, m in loops:
        if id(lev.c.node) in seen_loops:
            continue
        seen_loops.add(id(lev.c.node))
        lp = lev.c
        root_ok = lambda r: isinstance(r, ast.Call) and not hd_sx.is_path(r) or (isinstance(r, ast.Name) and r.id != m and r.id != lst)
        offs = set()
        totals = False
        appended_somewhere = set()
        live = []
        for b in lp.body:
            if b.end in ("raise",):
                continue
            if b.end in ("return", "break"):
                unds.add("the loop over the inputs can be left early")
                continue
            has = {}
            for t, pol in b.conds:
                if isinstance(t, ast.Call) and au.call_tail(t) == "hasattr" and len(t.args) == 2 and src(t.args[0]) == m and isinstance(t.args[1], ast.Constant):
                    has[t.args[1].value] = pol
            has = lay.infer(has) if lay.ok else has
            apps = {}
            known_ev = set()
            for kind, v, ev in _append_events(b, root_ok):
                apps.setdefault(kind, []).append((v, ev))
                known_ev.add(id(ev))
                known_ev.update(id(x) for x in (ev.x or ()))
            # effects of the body that are neither an append to a container of the result nor an update of a plain counter
            opaque = [ev for ev, _, lps in walk_events(b) if id(ev) not in known_ev and (
                ev.kind in ("store", "loop", "other", "del") or (ev.kind == "aug" and not isinstance(ev.a, ast.Name)) or
                (ev.kind == "call" and (_has_name(ev.a, m) and not (isinstance(ev.a.func, ast.Attribute) and ev.a.func.attr in ("warn", "debug", "info", "warning")))))]
            live.append((b, has, apps, bool(opaque)))
            appended_somewhere.update(apps)
        for b, has, apps, opaque in live:
            # --- vertices
            if "vertices" not in apps and not _empty_mesh(b.conds, m):
                unds.add("no `merged.vertices += ...` recognised on a path of the loop")
            for v, ev in apps.get("vertices", []):
                s = ctx.site(MESH, fn, ev.node)
                verdict = "unknown"
                if isinstance(v, (ast.ListComp, ast.GeneratorExp)) and len(v.generators) == 1 \
                        and src(v.generators[0].iter) in (f"{m}.vertices", f"{m}.vertices._data") and not v.generators[0].ifs:
                    verdict = fresh3(v.elt, fr)
                elif isinstance(v, ast.Call) and au.call_tail(v) == "deepcopy" and v.args and _has_name(v.args[0], m):
                    verdict = "fresh"
                elif isinstance(v, ast.Subscript) and isinstance(v.slice, ast.Call) and au.call_tail(v.slice) == "id" and v.slice.args and src(v.slice.args[0]) == m:
                    verdict = "memo"
                elif hd_sx.is_path(v) and _has_name(v, m) or (isinstance(v, ast.Call) and au.call_tail(v) in ("list", "tuple") and len(v.args) == 1
                                                              and hd_sx.is_path(v.args[0]) and _has_name(v.args[0], m)):
                    verdict = "alias"
                if verdict == "memo":
                    fails["merge(): the vertices added for an input are looked up in a table keyed by the identity of the input"] = (
                        "the same mesh merged twice puts the same vector objects twice in the result: editing one vertex of the result changes another", s)
                elif verdict == "alias":
                    fails[f"merge(): `{nt(ev.node)}` puts the inputs' own vertex objects into the result"] = (
                        "the merged mesh and its inputs share coordinate arrays (Vec(x) in prepare() is a view): editing the result "
                        "changes an input, and merging the same mesh twice then translating moves every vertex twice", s)
                elif verdict == "fresh":
                    oks.add("vertex payload copied per element")
                else:
                    unds.add(f"vertices appended as `{src(v)}`")
            # --- index kinds
            for kind in kinds:
                if has.get(kind) is False:
                    continue
                if kind not in apps:
                    if kind not in has:
                        continue                     # whether this input has the container is not known on this path
                    empt = any((src(t).replace(" ", "") in (f"{m}.{kind}.empty()", f"len({m}.{kind})==0") and pol) or
                               (src(t).replace(" ", "") in (f"len({m}.{kind})", f"{m}.{kind}", f"len({m}.{kind})>0") and not pol) for t, pol in b.conds)
                    if empt:
                        continue
                    others = [au.canon_test(ast.parse(nt(t), mode="eval").body, pol) for t, pol in b.conds if not (isinstance(t, ast.Call) and au.call_tail(t) == "hasattr"
                                                                                   and src(t.args[1]).strip("'\"") == kind)]
                    if opaque:
                        unds.add(f"no append of the {kind} recognised")
                    else:
                        fails[f"merge(): the {kind} of an input that has {kind} are not appended when {' and '.join(others) or 'the loop body runs'}"] = (
                            "a merge is the disjoint union of its inputs: every element of every input appears in the result, shifted by the running vertex count", site)
                    continue
                for v, ev in apps[kind]:
                    s = ctx.site(MESH, fn, ev.node)
                    poly = None
                    if isinstance(v, (ast.ListComp, ast.GeneratorExp)) and len(v.generators) == 1 and src(v.generators[0].iter) in (f"{m}.{kind}", f"{m}.{kind}._data") \
                            and isinstance(v.generators[0].target, ast.Name) and not v.generators[0].ifs:
                        row = v.generators[0].target.id
                        inner = v.elt
                        while isinstance(inner, ast.Call) and au.call_tail(inner) in ("tuple", "list") and len(inner.args) == 1:
                            inner = inner.args[0]
                        if isinstance(inner, (ast.GeneratorExp, ast.ListComp)) and len(inner.generators) == 1 and src(inner.generators[0].iter) == row \
                                and isinstance(inner.generators[0].target, ast.Name) and not inner.generators[0].ifs:
                            u = inner.generators[0].target.id

                            def atom_of(e, _m=m):
                                if _len_of_vertices(e, _m):
                                    return "LEN"
                                if isinstance(e, ast.Call) and au.call_tail(e) == "len" and len(e.args) == 1 and isinstance(e.args[0], ast.Attribute) \
                                        and e.args[0].attr == "vertices" and root_ok(e.args[0].value):
                                    return "TOTAL"          # size of the result before the vertices of this input are appended (the container is pristine in the text)
                                return None
                            poly = sym.to_poly(inner.elt, atom_of=atom_of)
                    if poly is None:
                        unds.add(f"{kind} appended as `{src(v)[:70]}`")
                        continue
                    rest = poly - P.atom(u)
                    if poly.coeff(u) != P.const(1):
                        unds.add(f"{kind} re-indexed as `{poly}`")
                    elif rest.is_zero():
                        fails[f"merge(): {kind} are appended without shifting their vertex indices"] = (
                            "a merge is the disjoint union of its inputs with indices shifted by the running vertex count", s)
                    elif rest == P.atom("TOTAL"):
                        oks.add(f"{kind} shifted by the number of vertices already merged")
                        totals = True
                    elif len(rest.t) == 1 and len(list(rest.t)[0]) == 1 and list(rest.t.values())[0] == 1 and list(rest.t)[0][0] in lp.carried:
                        offs.add(list(rest.t)[0][0])
                        oks.add(f"{kind} shifted by the running offset")
                    elif "LEN" in rest.atoms() and any(a in lp.carried for a in rest.atoms()):
                        fails[f"merge(): {kind} are shifted by the offset plus the number of vertices of the current input: the offset was advanced before its use"] = (
                            "the indices of an input must be shifted by the number of vertices merged before it", s)
                    else:
                        unds.add(f"{kind} shifted by `{rest}`")
        for kind in kinds:
            if kind not in appended_somewhere and not any(kind in c for c in fails):
                unds.add(f"no append of the {kind} recognised on any path")
        # --- offset advance on every path of the body
        for b, has, apps, opaque in live:
            for off in set(offs):
                fin = b.env.get(off)
                cond_txt = " and ".join(au.canon_test(ast.parse(nt(t), mode="eval").body, pol) for t, pol in b.conds) or "always"
                if _empty_mesh(b.conds, m):
                    continue                         # an input without vertices does not move the offset
                if fin is None:
                    fails[f"merge(): the running offset is not advanced on the path of the loop where {cond_txt}"] = (
                        "indices of the next input must be shifted by the number of vertices merged so far, whatever the kind of the current input", site)
                    continue
                pf = sym.to_poly(fin, atom_of=lambda e, _m=m: "LEN" if _len_of_vertices(e, _m) else None)
                if pf == P.atom(off) + P.atom("LEN"):
                    oks.add("offset advanced by len(input.vertices)")
                elif pf == P.atom("LEN"):
                    fails["merge(): the running offset is set to the number of vertices of the current input instead of being advanced by it"] = (
                        "indices of the next input must be shifted by the number of vertices merged so far", site)
                elif pf.coeff(off) == P.const(1) and not (pf - P.atom(off)).is_zero() and all(a.startswith("⟨len(") and ".vertices" in a and not a.startswith(f"⟨len({m}.")
                                                                                          for a in (pf - P.atom(off)).atoms()):
                    fails["merge(): the running offset advances by the size of the result instead of the number of vertices of the current input"] = (
                        "indices of the next input must be shifted by the number of vertices merged so far", site)
                else:
                    unds.add(f"offset becomes `{src(fin)}`")
        if not offs and not fails and not totals:
            unds.add("the running offset added to the indices was not identified")
        for off in offs:
            i0 = lp.init.get(off)
            if isinstance(i0, ast.Constant) and i0.value == 0:
                oks.add("offset starts at 0")
            elif isinstance(i0, ast.Constant):
                fails[f"merge(): the running offset starts at {i0.value!r} instead of 0"] = ("the first input keeps its indices", site)
            else:
                unds.add("initial value of the running offset not found")
    for c, (w, s) in fails.items():
        ctx.fail("C06-A5", s, c, w)
    if not fails and unds:
        ctx.undecided("C06-A5", site, "merge(): the loop over the inputs is not recognised as `fresh vertices + indices shifted by a running offset`",
                      "; ".join(sorted(unds)))
    elif not fails:
        ctx.ok("C06-A5", site, "; ".join(sorted(oks)))


# ---------------------------------------------------------------------------- A6
def _vertex_index_loop(lp, mesh):
    """name of the variable that runs over all vertex ids in this loop, else None"""
    it, tgt = lp.iter, lp.target
    s = src(it).replace(" ", "")
    if s in (f"{mesh}.id_vertices", f"range(len({mesh}.vertices))", f"range({mesh}.vertices.size)", f"range(len({mesh}.vertices._data))") and isinstance(tgt, ast.Name):
        return tgt.id
    if isinstance(it, ast.Call) and au.call_tail(it) == "enumerate" and len(it.args) == 1 and isinstance(tgt, ast.Tuple) and len(tgt.elts) == 2 \
            and isinstance(tgt.elts[0], ast.Name) and (src(it.args[0]) in (f"{mesh}.vertices", f"{mesh}.vertices._data") or _all_vertices_comp(it.args[0], mesh)
                                                        or _block_of_all_vertices(it.args[0], mesh)):
        return tgt.elts[0].id
    if isinstance(it, ast.Call) and au.call_tail(it) == "zip" and len(it.args) == 2 and isinstance(tgt, ast.Tuple) and len(tgt.elts) == 2 \
            and isinstance(tgt.elts[0], ast.Name) and src(it.args[0]).replace(" ", "") in (f"{mesh}.id_vertices", f"range(len({mesh}.vertices))") \
            and (_all_vertices_comp(it.args[1], mesh) or src(it.args[1]) in (f"{mesh}.vertices", f"{mesh}.vertices._data") or _block_of_all_vertices(it.args[1], mesh)):
        return tgt.elts[0].id
    return None


def _all_vertices_comp(e, mesh):
    """a comprehension with exactly one element per vertex: `[f(P) for P in mesh.vertices]`: returns it"""
    while isinstance(e, ast.Call) and au.call_tail(e) in ("list", "tuple") and len(e.args) == 1:
        e = e.args[0]
    if isinstance(e, (ast.ListComp, ast.GeneratorExp)) and len(e.generators) == 1 and not e.generators[0].ifs \
            and src(e.generators[0].iter) in (f"{mesh}.vertices", f"{mesh}.vertices._data") and isinstance(e.generators[0].target, ast.Name):
        return e
    return None


def _loop_element(nm, loops, mesh):
    """the expression a loop binds to name `nm` for each vertex, when the loop runs over a comprehension of all the vertices
    or over the rows of a block computed from the stack of all the vertices: (element expression, name of the old position in it / None)"""
    for lp in loops:
        it, tgt = lp.iter, lp.target
        if isinstance(it, ast.Call) and au.call_tail(it) in ("enumerate", "zip") and isinstance(tgt, ast.Tuple) and len(tgt.elts) == 2 \
                and isinstance(tgt.elts[1], ast.Name) and tgt.elts[1].id == nm and it.args:
            comp = _all_vertices_comp(it.args[-1], mesh)
            if comp is not None:
                return comp.elt, comp.generators[0].target.id
            if _block_of_all_vertices(it.args[-1], mesh):
                return it.args[-1], None               # row-wise: the block itself, the stack standing for the old position
    return None


def _block_of_all_vertices(e, mesh):
    """an array with one row per vertex: built from the stack of all the positions by element-wise arithmetic / calls, never sliced"""
    if not any(_stack_of_vertices(x, mesh) for x in ast.walk(e)):
        return False
    for x in ast.walk(e):
        if isinstance(x, ast.Subscript) and any(_stack_of_vertices(y, mesh) for y in ast.walk(x.value)):
            return False
    return True


def _partial_range(lp, mesh):
    """text of the iterable when it is recognisably a strict part of the vertex ids (range starting after 0 / stopping early / a slice)"""
    it = lp.iter
    n = (f"len({mesh}.vertices)", f"{mesh}.vertices.size", f"len({mesh}.vertices._data)")
    if isinstance(it, ast.Call) and au.call_tail(it) == "range" and isinstance(it.func, ast.Name) and not it.keywords:
        a = it.args
        if len(a) in (2, 3) and src(a[1]).replace(" ", "") in n and isinstance(au.const(a[0]), int) and (au.const(a[0]) > 0 or (len(a) == 3 and au.const(a[2]) not in (1, None))):
            return src(it)
        stop = a[0] if len(a) == 1 else (a[1] if len(a) >= 2 else None)
        if stop is not None and (len(a) == 1 or au.const(a[0]) == 0):
            pl = sym.to_poly(stop, atom_of=lambda e: "N" if src(e).replace(" ", "") in n else None)
            d = pl - P.atom("N")
            if d.is_const() and d.const_value() < 0:
                return src(it)
    if isinstance(it, ast.Subscript) and isinstance(it.slice, ast.Slice) and src(it.value) in (f"{mesh}.id_vertices",) \
            and any(x is not None and au.const(x) not in (0, None) for x in (it.slice.lower, it.slice.upper, it.slice.step)):
        return src(it)
    return None


def _vertex_object_loop(lp, mesh):
    """names bound to the stored vectors themselves by this loop"""
    it, tgt = lp.iter, lp.target
    if src(it) in (f"{mesh}.vertices", f"{mesh}.vertices._data") and isinstance(tgt, ast.Name):
        return {tgt.id}
    if isinstance(it, ast.Call) and au.call_tail(it) == "enumerate" and len(it.args) == 1 and src(it.args[0]) in (f"{mesh}.vertices", f"{mesh}.vertices._data") \
            and isinstance(tgt, ast.Tuple) and len(tgt.elts) == 2 and isinstance(tgt.elts[1], ast.Name):
        return {tgt.elts[1].id}
    return set()


def _is_vertex_entry(e, mesh):
    return isinstance(e, ast.Subscript) and src(e.value) in (f"{mesh}.vertices", f"{mesh}.vertices._data")


def _empty_mesh(conds, mesh):
    for t, pol in conds:
        s = src(t).replace(" ", "")
        if pol and s in (f"len({mesh}.vertices)==0", f"{mesh}.vertices.empty()", f"len({mesh}.vertices)<1", f"len({mesh}.vertices._data)==0"):
            return True
        if not pol and s in (f"len({mesh}.vertices)", f"{mesh}.vertices", f"len({mesh}.vertices)>0", f"{mesh}.vertices._data", f"len({mesh}.vertices)!=0"):
            return True
    return False


def _const_params(conds, params):
    """parameter -> number it is known to equal on the path (`factor == 1`); a vector parameter known to be null maps to 0"""
    out = {}
    for t, pol in conds:
        if isinstance(t, ast.Compare) and len(t.ops) == 1 and isinstance(t.ops[0], (ast.Eq, ast.NotEq)) and pol == isinstance(t.ops[0], ast.Eq):
            a, b = t.left, t.comparators[0]
            for x, y in ((a, b), (b, a)):
                if isinstance(x, ast.Name) and x.id in params and isinstance(au.const(y), (int, float)) and not isinstance(au.const(y), bool):
                    out[x.id] = au.const(y)
        # not np.any(v) / not v.any()  :  v is exactly null
        if not pol and isinstance(t, ast.Call) and au.call_tail(t) == "any" and not t.keywords:
            v = t.args[0] if (t.args and src(t.func) in ("np.any", "numpy.any", "any")) else (t.func.value if isinstance(t.func, ast.Attribute) and not t.args else None)
            v = _strip_conv(v) if v is not None else None
            if isinstance(v, ast.Name) and v.id in params:
                out[v.id] = 0
    return out


def _identity_params(q, params, conds):
    """the path conditions pin the parameters of transform `q` to the values for which its map is P -> P"""
    k = _const_params(conds, params)
    if q == "translate" and len(params) > 1:
        return k.get(params[1]) == 0
    if q == "scale" and len(params) > 1:
        return k.get(params[1]) == 1
    if q == "scale_xyz" and len(params) > 3:
        return all(k.get(x) == 1 for x in params[1:4])
    return False


APPROX = ("allclose", "isclose")


def _approx_skip(conds):
    """a condition that holds for small but non-zero parameters"""
    for t, pol in conds:
        for n in ast.walk(t):
            if isinstance(n, ast.Call) and au.call_tail(n) in APPROX and pol:
                return au.canon_test(t, pol)
        if isinstance(t, ast.Compare) and len(t.ops) == 1 and isinstance(t.ops[0], (ast.Lt, ast.LtE, ast.Gt, ast.GtE)):
            sides = [t.left, t.comparators[0]]
            small = [x for x in sides if isinstance(au.const(x), (int, float)) and 0 < abs(au.const(x)) < 1e-3]
            meas = [x for x in sides if any(isinstance(n, ast.Call) and au.call_tail(n) in ("norm", "abs", "max", "amax") for n in ast.walk(x))]
            if small and meas:
                below = isinstance(t.ops[0], (ast.Lt, ast.LtE)) == (meas[0] is t.left)
                if below == pol:
                    return au.canon_test(t, pol)
    return None


def a6_transforms(ctx, fr):
    repo = ctx.repo
    mod = repo.module(TR)
    for q in TRANSFORMS:
        repo.func(TR, q)                     # public anchors: AnalysisError if one vanished
    n = 0
    for q, fn in sorted(mod.funcs.items()):
        if "<locals>" in q or "." in q or (q.startswith("_") and not q.startswith("__")):
            continue              # a private helper is read where the public functions call it
        ps_ = au.params(fn)
        if not ps_:
            continue
        mesh = ps_[0]
        try:
            paths = SX(repo, TR).run(fn)
        except (TooComplex, RecursionError) as e:
            if q in TRANSFORMS:
                ctx.undecided("C06-A6", ctx.site(TR, fn), f"{q}: too many paths to read", str(e))
            continue
        site = ctx.site(TR, fn)
        nt = _nt(ctx, TR, fn)
        fails, unds, oks = {}, set(), set()
        touches = False
        for p in paths:
            if p.end == "raise" or _nondefault_path(p, fn, ROLE_PARAMS.get(q, len(ps_))):
                continue
            moved = False
            for ev, conds, loops in walk_events(p):
                objs = set().union(*[_vertex_object_loop(l, mesh) for l in loops]) if loops else set()
                if ev.kind == "call":
                    # numpy calls that write their result into an existing array: out=<stored vector>, np.copyto(<stored vector>, ..)
                    outs = [k.value for c in ast.walk(ev.a) if isinstance(c, ast.Call) for k in c.keywords if k.arg == "out"]
                    outs += [c.args[0] for c in ast.walk(ev.a) if isinstance(c, ast.Call) and au.call_tail(c) in ("copyto", "put", "place") and c.args]
                    hit = [o for o in outs if (isinstance(o, ast.Name) and o.id in objs) or _is_vertex_entry(o, mesh)]
                    if hit:
                        touches = moved = True
                        fails[f"{q}: `{nt(ev.a)}` writes its result into a stored vertex vector"] = (
                            "the array object itself is mutated: a vector stored under two vertex ids (ring(open=True)), or shared with the caller's array "
                            "(from_arrays) or with another mesh, is transformed twice / behind the caller's back", ctx.site(TR, fn, ev.node))
                    continue
                if ev.kind not in ("store", "aug"):
                    continue
                tgt = ev.a
                s = ctx.site(TR, fn, ev.node)
                # in-place operation on a stored vector reached through a name bound by a loop over the vertices
                base = tgt
                while isinstance(base, (ast.Subscript, ast.Attribute)):
                    base = base.value
                if ev.kind == "aug" and isinstance(tgt, ast.Name) and tgt.id in objs or \
                        (isinstance(base, ast.Name) and base.id in objs and not isinstance(tgt, ast.Name) and not isinstance(ev.b, ast.Constant)):
                    touches = moved = True
                    fails[f"{q}: `{nt(ev.node)}` updates a stored vertex vector in place through an alias"] = (
                        "numpy in-place arithmetic mutates the array object itself: a vector stored under two vertex ids (ring(open=True)), "
                        "or shared with the caller's array (from_arrays) or with another mesh, is transformed twice / behind the caller's back", s)
                    continue
                if _is_vertex_entry(tgt, mesh):
                    touches = moved = True
                    idx = tgt.slice
                    ivars = [_vertex_index_loop(l, mesh) for l in loops]
                    if ev.kind == "aug":
                        fails[f"{q}: `{nt(ev.node)}` updates the stored vector in place"] = (
                            "numpy augmented assignment mutates the array object: a vector object stored under two vertex ids "
                            "(ring(open=True) stores vertices[1] twice; merged or from_arrays meshes share rows with the caller) is "
                            "moved twice, and arrays the caller still holds are changed", s)
                        continue
                    val = _strip_conv(ev.b) if fr.vec_is_view else ev.b
                    if isinstance(val, ast.Name):
                        le = _loop_element(val.id, loops, mesh)
                        if le is not None:
                            val = le[0]
                        elif val.id not in ps_ and val.id not in objs:
                            val = None                       # a name the reader could not resolve: nothing is known about it
                    r = fresh3(val, fr) if val is not None else "unknown"
                    if r == "alias":
                        fails[f"{q}: `{nt(ev.node)}` stores a value that aliases an existing array"] = ("each vertex must receive a freshly allocated vector", s)
                    elif r == "unknown":
                        unds.add(f"{q}: cannot tell whether `{src(ev.b)[:60]}` is a fresh vector")
                    else:
                        oks.add("fresh right-hand side")
                    if not loops or not isinstance(idx, ast.Name) or idx.id not in ivars:
                        part = [_partial_range(l, mesh) for l in loops if isinstance(idx, ast.Name) and idx.id in au.assigned_names(l.target or ast.Tuple(elts=[]))]
                        if any(part):
                            fails[f"{q}: the loop that moves the vertices runs over `{nt(ast.parse([x for x in part if x][0], mode='eval').body)}` instead of all vertex ids"] = (
                                "every vertex must be moved exactly once", s)
                        elif q in TRANSFORMS:
                            unds.add(f"{q}: the vertex store is not indexed by a loop over all vertex ids")
                    else:
                        inner = [c for c in conds[len(p.conds):]] if len(conds) >= len(p.conds) else []
                        # conditions met inside the loop body
                        body_conds = [(t, pol) for t, pol in conds if (t, pol) not in p.conds]
                        about = [au.canon_test(ast.parse(nt(t), mode="eval").body, pol) for t, pol in body_conds if _has_name(t, idx.id) or any(_is_vertex_entry(x, mesh) for x in ast.walk(t))]
                        if about:
                            fails[f"{q}: vertices are moved only when `{' and '.join(about)}`"] = ("every vertex must be moved exactly once", s)
                        elif body_conds:
                            unds.add(f"{q}: the vertex store is conditional")
                        else:
                            oks.add("one unconditional store per vertex id")
                elif ev.kind == "store" and src(tgt) == f"{mesh}.vertices._data":
                    # the whole list of positions replaced at once
                    touches = moved = True
                    v = ev.b
                    if isinstance(v, ast.ListComp) and len(v.generators) == 1 and not v.generators[0].ifs \
                            and src(v.generators[0].iter) in (f"{mesh}.vertices", f"{mesh}.vertices._data"):
                        r = fresh3(v.elt, fr)
                    elif isinstance(v, ast.Call) and au.call_tail(v) == "list" and len(v.args) == 1 and fresh3(v.args[0], fr) == "fresh" \
                            and any(_stack_of_vertices(x, mesh) for x in ast.walk(v.args[0])):
                        r = "fresh"
                    else:
                        r = "unknown"
                    if r == "alias":
                        fails[f"{q}: `{nt(ev.node)}` keeps the stored vectors themselves"] = ("each vertex must receive a freshly allocated vector", s)
                    elif r == "unknown":
                        unds.add(f"{q}: the list of positions is replaced by `{src(v)[:60]}`")
                    else:
                        oks.add("all positions rebuilt as fresh vectors")
                elif isinstance(tgt, ast.Subscript) and _is_vertex_entry(tgt.value, mesh):
                    touches = True
                    if ev.kind == "store" and isinstance(ev.b, ast.Constant):
                        oks.add("idempotent constant store into a component")
                    else:
                        fails[f"{q}: component of a stored vector updated in place with a non-constant value"] = (
                            "an in-place update is applied twice to a vector stored under two ids", s)
            if q in TRANSFORMS and not moved and p.end in ("return", "fall"):
                # a path of a transform that leaves the vertices where they are
                cond_txt = " and ".join(au.canon_test(t, pol) for t, pol in p.conds)
                ap = _approx_skip(p.conds)
                if _empty_mesh(p.conds, mesh):
                    oks.add("nothing to move in an empty mesh")
                elif _identity_params(q, ps_, p.conds):
                    oks.add("the requested map is the identity on this path")
                elif ap:
                    fails[f"{q}: the vertices are not moved when `{ap}`"] = (
                        f"an approximate test also holds for small non-zero parameters: {q} is then not the requested map (normalising a mesh in small units "
                        f"silently skips the step)", site)
                elif any(isinstance(ev.a, ast.Call) and _has_name(ev.a, mesh) for ev, _, _ in walk_events(p) if ev.kind == "call") or \
                        (isinstance(p.ret, ast.Call) and _has_name(p.ret, mesh)):
                    unds.add(f"{q}: the vertices are handed to a function that is not read")
                else:
                    unds.add(f"{q}: no vertex is moved on the path where `{cond_txt or 'always'}`")
        if not touches and q not in TRANSFORMS:
            continue
        n += 1
        for c, (w, s) in fails.items():
            ctx.fail("C06-A6", s, c, w)
        if not fails and unds:
            ctx.undecided("C06-A6", site, f"{q}: not recognised as one fresh store per vertex in a loop over all vertex ids", "; ".join(sorted(unds)))
        elif not fails:
            ctx.ok("C06-A6", site, f"{q}: " + "; ".join(sorted(oks)))


# ---------------------------------------------------------------------------- polynomials with division and vectors
def _is_zero_vec(e):
    return isinstance(e, ast.Call) and au.call_tail(e) in ("zeros", "zeros_like") and (src(e.func).split(".")[0] in ("Vec", "np", "numpy"))


def _const_vec(e):
    """Vec(c, c, c) / np.ones(k) / np.full(k, c): the number every component equals, else None"""
    if isinstance(e, ast.Call) and au.call_tail(e) in ("Vec", "array") and e.args:
        elts = e.args[0].elts if (len(e.args) == 1 and isinstance(e.args[0], (ast.List, ast.Tuple))) else e.args
        vals = [au.const(x) for x in elts]
        if len(vals) >= 2 and all(isinstance(x, (int, float)) and not isinstance(x, bool) for x in vals) and len(set(vals)) == 1:
            return vals[0]
    if isinstance(e, ast.Call) and au.call_tail(e) == "ones" and src(e.func).split(".")[0] in ("Vec", "np", "numpy"):
        return 1
    return None


def _strip_conv(e):
    """Vec(x) / np.asarray(x) / np.array(x) of one argument: the same numbers as x"""
    while True:
        if isinstance(e, ast.Call) and au.call_tail(e) in ("Vec", "asarray", "array", "asanyarray") and len(e.args) == 1 \
                and not isinstance(e.args[0], (ast.List, ast.Tuple)):
            e = e.args[0]
        elif isinstance(e, ast.Call) and isinstance(e.func, ast.Attribute) and e.func.attr in ("view", "copy", "astype") and src(e.func.value) not in ("np", "numpy"):
            e = e.func.value
        else:
            return e


def _stack_of_vertices(e, mesh):
    e2 = _strip_conv(e)
    if isinstance(e2, ast.Call) and au.call_tail(e2) in ("stack", "vstack") and e2.args:
        e2 = e2.args[0]
    return src(e2) in (f"{mesh}.vertices._data", f"{mesh}.vertices", f"list({mesh}.vertices)", f"list({mesh}.vertices._data)")


def vpoly(e, atom_of, row=None):
    """like sym.to_poly, with `a / b` read as a * (1/b) for a non-constant b and one-argument conversions stripped;
    row = (mesh, index name): `Block[index]` with Block computed from the stack of all the positions is read row-wise as Block"""
    def rec(x):
        x = _strip_conv(x)
        if row is not None:
            x = _unrow(x, row[0], row[1])
        a = atom_of(x)
        if a is not None:
            return a if isinstance(a, P) else P.atom(a)
        if _is_zero_vec(x):
            return P.const(0)
        cv = _const_vec(x)
        if cv is not None:
            return P.const(Fraction(cv).limit_denominator(10 ** 9))
        if isinstance(x, ast.Constant) and isinstance(x.value, (int, float)) and not isinstance(x.value, bool):
            return P.const(Fraction(x.value).limit_denominator(10 ** 9))
        if isinstance(x, ast.Name):
            return P.atom(x.id)
        if isinstance(x, ast.UnaryOp) and isinstance(x.op, ast.USub):
            return -rec(x.operand)
        if isinstance(x, ast.UnaryOp) and isinstance(x.op, ast.UAdd):
            return rec(x.operand)
        if isinstance(x, ast.BinOp):
            if isinstance(x.op, ast.Add):
                return rec(x.left) + rec(x.right)
            if isinstance(x.op, ast.Sub):
                return rec(x.left) - rec(x.right)
            if isinstance(x.op, ast.Mult):
                return rec(x.left) * rec(x.right)
            if isinstance(x.op, ast.Div):
                r = rec(x.right)
                if r.is_const() and r.const_value() != 0:
                    return rec(x.left).scale(1 / r.const_value())
                return rec(x.left) * P.atom(f"1/({r})")
        return P.atom("⟨" + src(x) + "⟩")
    return rec(e)


def _moves(p, mesh, inplace=False):
    """[(index variable, stored value, event)] of the plain vertex stores of a path, in order; with `inplace` the augmented
    assignments on a vertex entry (or on the vector a loop over the vertices binds) are read as the map they compute"""
    out = []
    for ev, conds, loops in walk_events(p):
        objs = set().union(*[_vertex_object_loop(l, mesh) for l in loops]) if loops else set()
        if ev.kind == "store" and _is_vertex_entry(ev.a, mesh):
            vb = _strip_conv(ev.b)
            le = _loop_element(vb.id, loops, mesh) if isinstance(vb, ast.Name) else None
            if le is not None:
                out.append((src(ev.a.slice), le[0], ev, objs | ({le[1]} if le[1] else set())))
            else:
                out.append((src(ev.a.slice), ev.b, ev, objs))
        elif ev.kind == "store" and src(ev.a) == f"{mesh}.vertices._data" and isinstance(ev.b, (ast.ListComp,)) and len(ev.b.generators) == 1 \
                and not ev.b.generators[0].ifs and src(ev.b.generators[0].iter) in (f"{mesh}.vertices", f"{mesh}.vertices._data") \
                and isinstance(ev.b.generators[0].target, ast.Name):
            # the whole list of positions rebuilt from the old ones: `mesh.vertices._data = [f(P) for P in mesh.vertices]`
            out.append(("<each>", ev.b.elt, ev, {ev.b.generators[0].target.id}))
        elif inplace and ev.kind == "aug":
            if _is_vertex_entry(ev.a, mesh):
                out.append((src(ev.a.slice), ast.BinOp(left=ev.a, op=ev.c, right=ev.b), ev, objs))
            elif isinstance(ev.a, ast.Name) and ev.a.id in objs:
                out.append(("<each>", ast.BinOp(left=ev.a, op=ev.c, right=ev.b), ev, objs))
    return out


def _point_atom(mesh, i, objs=()):
    def f(e):
        if _is_vertex_entry(e, mesh) and src(e.slice) == i:
            return "P"
        if isinstance(e, ast.Name) and e.id in objs:
            return "P"                       # the name a loop over the vertices binds to the old position
        if _stack_of_vertices(e, mesh):
            return "P"
        return None
    return f


def _unrow(v, mesh, i):
    """`Block[i]` where Block is computed from the stack of all vertices: the row-wise expression"""
    v = _strip_conv(v)
    if isinstance(v, ast.Subscript) and src(v.slice) == i and any(_stack_of_vertices(x, mesh) for x in ast.walk(v.value)):
        return v.value
    return v


# ---------------------------------------------------------------------------- F1
def f1_transform_formulas(ctx):
    repo = ctx.repo

    def each_move(q):
        fn, site, ps = _run(ctx, "C06-F1", TR, q)
        if ps is None:
            return fn, site, None
        mesh = au.params(fn)[0]
        out = []
        for p in ps:
            if p.end == "raise" or _nondefault_path(p, fn, ROLE_PARAMS.get(q, 99)):
                continue
            mv = _moves(p, mesh)
            if len(mv) == 1:
                out.append((p, mv[0]))
            elif len(mv) > 1:
                out.append((p, None))
        return fn, site, out

    def report(site, q, results, formula, what):
        bad = [r for r in results if r[0] == "bad"]
        und = [r for r in results if r[0] == "und"]
        if bad:
            ctx.fail("C06-F1", site, f"{q} does not store {formula}", f"{what} (stored: {bad[0][1]})")
        elif und or not results:
            ctx.undecided("C06-F1", site, f"{q}: the stored value is not recognised as {formula}", "; ".join(sorted({r[1] for r in und})) or "no plain vertex store found")
        else:
            ctx.ok("C06-F1", site, formula)

    def value_of(p, name_, none_means=None):
        """value of a parameter on a path (a default replaced on the None branch), as an expression; `none_means`: what the parameter
        stands for on a path where it is None and was not replaced (the documented default)"""
        if name_ in p.env:
            return p.env[name_]
        for t, pol in p.conds:
            if isinstance(t, ast.Compare) and len(t.ops) == 1 and isinstance(t.ops[0], (ast.Is, ast.IsNot, ast.Eq, ast.NotEq)) and isinstance(t.left, ast.Name) \
                    and t.left.id == name_ and isinstance(t.comparators[0], ast.Constant) and t.comparators[0].value is None \
                    and pol == isinstance(t.ops[0], (ast.Is, ast.Eq)) and none_means is not None:
                return none_means
        return ast.Name(id=name_, ctx=ast.Load())
    ZERO = ast.parse("Vec.zeros(3)", mode="eval").body

    # translate: P + tr
    fn, site, moves = each_move("translate")
    if moves is not None:
        ps_ = au.params(fn)
        res = []
        for p, mv in moves:
            if mv is None or len(ps_) < 2:
                res.append(("und", "several stores per vertex"))
                continue
            i, v, ev, objs = mv
            mesh = ps_[0]
            poly = vpoly(_unrow(v, mesh, i), _point_atom(mesh, i, objs), row=(mesh, i))
            want = P.atom("P") + vpoly(value_of(p, ps_[1]), lambda e: None)
            if poly == want:
                res.append(("ok", ""))
            elif poly.atoms() <= want.atoms():
                res.append(("bad", str(poly)))
            else:
                res.append(("und", str(poly)))
        report(site, "translate", res, "P + tr", "translate(t) then translate(-t) must restore the coordinates")
    # scale: O + f (P - O)
    fn, site, moves = each_move("scale")
    if moves is not None:
        ps_ = au.params(fn)
        res = []
        for p, mv in moves:
            if mv is None or len(ps_) < 3:
                res.append(("und", "several stores per vertex"))
                continue
            i, v, ev, objs = mv
            mesh = ps_[0]
            poly = vpoly(_unrow(v, mesh, i), _point_atom(mesh, i, objs), row=(mesh, i))
            O = vpoly(value_of(p, ps_[2], ZERO), lambda e: None)
            f = vpoly(value_of(p, ps_[1]), lambda e: None)
            want = O + f * (P.atom("P") - O)
            if poly == want:
                res.append(("ok", ""))
            elif poly.atoms() <= want.atoms() | {ps_[2]}:
                res.append(("bad", str(poly)))
            else:
                res.append(("und", str(poly)))
        report(site, "scale", res, "O + factor * (P - O)", "scaling about O must fix O and scale offsets by the factor")
    # rotate: O + R (P - O), R linear
    fn, site, moves = each_move("rotate")
    if moves is not None:
        ps_ = au.params(fn)
        res = []
        for p, mv in moves:
            if mv is None or len(ps_) < 3:
                res.append(("und", "several stores per vertex"))
                continue
            i, v, ev, objs = mv
            mesh = ps_[0]
            pa = _point_atom(mesh, i, objs)

            def atom_of(e, _pa=pa):
                a = _pa(e)
                if a is not None:
                    return a
                if isinstance(e, ast.Call) and isinstance(e.func, ast.Attribute) and e.func.attr in ("apply", "dot") and len(e.args) == 1 and not e.keywords \
                        and not any(_pa(x) for x in ast.walk(e.func.value)):
                    return P.atom("R") * vpoly(e.args[0], atom_of, row=(mesh, i))
                if isinstance(e, ast.BinOp) and isinstance(e.op, ast.MatMult):
                    return P.atom("R") * vpoly(e.right, atom_of) if not any(_pa(x) for x in ast.walk(e.left)) else None
                return None
            poly = vpoly(_unrow(v, mesh, i), atom_of, row=(mesh, i))
            O = vpoly(value_of(p, ps_[2], ZERO), lambda e: None)
            want = O + P.atom("R") * (P.atom("P") - O)
            if poly == want:
                res.append(("ok", ""))
            elif poly.atoms() <= want.atoms() | {ps_[2]}:
                res.append(("bad", str(poly)))
            else:
                res.append(("und", str(poly)))
        report(site, "rotate", res, "O + R(P - O)", "rotating about O must fix O; rotate(R) then rotate(R^-1) must restore the coordinates")
    # scale_xyz: component-wise
    fn, site, moves = each_move("scale_xyz")
    if moves is not None:
        ps_ = au.params(fn)
        res = []
        for p, mv in moves:
            if mv is None or len(ps_) < 5:
                res.append(("und", "several stores per vertex"))
                continue
            i, v, ev, objs = mv
            mesh = ps_[0]
            O = value_of(p, ps_[4])
            comps = _components(_unrow(v, mesh, i), mesh, i, O, objs)
            if comps is None:
                res.append(("und", src(v)[:80]))
                continue
            good, known = 0, True
            for k, (c, fac) in enumerate(zip(comps, ps_[1:4])):
                f = vpoly(value_of(p, fac), lambda e: None)
                want = P.atom(f"O{k}") + f * (P.atom(f"P{k}") - P.atom(f"O{k}"))
                good += c == want
                known = known and c.atoms() <= {f"P{j}" for j in range(3)} | {f"O{j}" for j in range(3)} | set(ps_[1:4])
            if good == 3:
                res.append(("ok", ""))
            elif known:
                res.append(("bad", "(" + ", ".join(str(c) for c in comps) + ")"))
            else:
                res.append(("und", "(" + ", ".join(str(c) for c in comps) + ")"))
        report(site, "scale_xyz", res, "O + (fx (P.x - O.x), fy (P.y - O.y), fz (P.z - O.z))", "each axis is scaled about O by its own factor")


AXES = {"x": 0, "y": 1, "z": 2}


def _components(e, mesh, i, O, objs=()):
    """three polynomials (one per axis) of a vector expression over P (old position) and O (origin), numpy broadcasting rules"""
    o_src = src(O)
    pa = _point_atom(mesh, i, objs)

    def vec_atom(x):
        if pa(x):
            return "P"
        if src(x) == o_src:
            return "O"
        return None

    def comp_of(x):
        """(vector atom, axis) for P.x / P[0] / O.y ..."""
        if isinstance(x, ast.Attribute) and x.attr in AXES and vec_atom(x.value):
            return vec_atom(x.value), AXES[x.attr]
        if isinstance(x, ast.Subscript) and isinstance(au.const(x.slice), int) and 0 <= au.const(x.slice) < 3 and vec_atom(x.value):
            return vec_atom(x.value), au.const(x.slice)
        return None

    def scalar(x):
        def atom_of(y):
            c = comp_of(y)
            if c:
                return f"{c[0]}{c[1]}"
            if vec_atom(y):
                raise ValueError("vector in scalar position")
            return None
        return vpoly(x, atom_of)

    def rec(x):
        x = _strip_conv(x)
        if isinstance(x, ast.Subscript) and isinstance(x.slice, ast.Slice) and x.slice.lower is None and x.slice.step is None and au.const(x.slice.upper) == 3:
            x = _strip_conv(x.value)            # v[:3] of a 3D vector
        va = vec_atom(x)
        if va:
            return [P.atom(f"{va}{k}") for k in range(3)]
        if isinstance(x, ast.Call) and au.call_tail(x) in ("Vec",) and len(x.args) == 3:
            return [scalar(a) for a in x.args]
        if isinstance(x, ast.Call) and au.call_tail(x) in ("Vec", "array", "asarray") and len(x.args) == 1 and isinstance(x.args[0], (ast.List, ast.Tuple)) \
                and len(x.args[0].elts) == 3:
            return [scalar(a) for a in x.args[0].elts]
        if isinstance(x, ast.BinOp) and isinstance(x.op, (ast.Add, ast.Sub, ast.Mult)):
            l, r = rec(x.left), rec(x.right)
            op = {ast.Add: lambda a, b: a + b, ast.Sub: lambda a, b: a - b, ast.Mult: lambda a, b: a * b}[type(x.op)]
            if isinstance(l, list) and isinstance(r, list):
                return [op(a, b) for a, b in zip(l, r)]
            if isinstance(l, list):
                return [op(a, r) for a in l]
            if isinstance(r, list):
                return [op(l, b) for b in r]
            return op(l, r)
        if isinstance(x, ast.UnaryOp) and isinstance(x.op, ast.USub):
            v = rec(x.operand)
            return [-a for a in v] if isinstance(v, list) else -v
        return scalar(x)
    try:
        out = rec(e)
    except ValueError:
        return None
    return out if isinstance(out, list) and len(out) == 3 else None


# ---------------------------------------------------------------------------- N1
def _guarded_vector(e, atom_of):
    """`np.where(v > 0, v, c)` / `np.where(v == 0, c, v)` / `np.maximum(v, c)` / `np.clip(v, c, None)`: (polynomial of v, constant c) - a vector
    whose components are those of v except that zero (small) ones are replaced by c;  None for anything else"""
    if not isinstance(e, ast.Call):
        return None
    t = au.call_tail(e)
    num = lambda x: au.const(x) if isinstance(au.const(x), (int, float)) and not isinstance(au.const(x), bool) else None
    if t == "where" and len(e.args) == 3:
        a, b = e.args[1], e.args[2]
        for v, c in ((a, b), (b, a)):
            if num(c) is not None and num(v) is None and src(v) in src(e.args[0]):
                return vpoly(v, atom_of), float(num(c))
        return None
    if t == "maximum" and len(e.args) == 2:
        for v, c in ((e.args[0], e.args[1]), (e.args[1], e.args[0])):
            if num(c) is not None and num(v) is None:
                return vpoly(v, atom_of), float(num(c))
    if t == "clip" and len(e.args) >= 2 and num(e.args[1]) is not None and isinstance(e.func, ast.Attribute) and src(e.func.value) in ("np", "numpy"):
        return vpoly(e.args[0], atom_of), float(num(e.args[1]))
    return None


def _degenerate_box(conds, box):
    """the path is taken only when the largest extent of the bounding box is not positive"""
    import operator
    ops = {ast.Gt: operator.gt, ast.GtE: operator.ge, ast.Lt: operator.lt, ast.LtE: operator.le, ast.Eq: operator.eq, ast.NotEq: operator.ne}
    for t, pol in conds:
        if isinstance(t, ast.Compare) and len(t.ops) == 1 and type(t.ops[0]) in ops:
            l, r = t.left, t.comparators[0]
            for x, c, flip in ((l, r, False), (r, l, True)):
                if au.const(c) == 0 and not isinstance(au.const(c), bool) and vpoly(x, box) == P.atom("EXTENT"):
                    holds_for_positive = ops[type(t.ops[0])](0, 1) if flip else ops[type(t.ops[0])](1, 0)
                    if holds_for_positive != pol:
                        return True
        if isinstance(t, ast.Call) and au.call_tail(t) in ("max", "amax") and vpoly(t, box) == P.atom("EXTENT") and not pol:
            return True                      # `if not np.max(span)`
    return False


def _box_atom(mesh):
    box = f"AABB.of_mesh({mesh})"

    def f(e):
        s = src(e)
        if isinstance(e, ast.Call) and au.call_tail(e) in ("min", "amin", "max", "amax"):
            # np.min(points, axis=0) / points.max(axis=0) with points = all the positions stacked: the corners of the bounding box
            axis = next((k.value for k in e.keywords if k.arg == "axis"), None)
            recv = None
            if isinstance(e.func, ast.Attribute) and src(e.func.value) in ("np", "numpy") and e.args:
                recv = e.args[0]
                axis = axis if axis is not None else (e.args[1] if len(e.args) > 1 else None)
            elif isinstance(e.func, ast.Attribute) and not src(e.func.value) in ("np", "numpy"):
                recv = e.func.value
                axis = axis if axis is not None else (e.args[0] if e.args else None)
            if recv is not None and axis is not None and au.const(axis) == 0 and _stack_of_vertices(recv, mesh):
                return P.atom("MINI" if au.call_tail(e) in ("min", "amin") else "MAXI")
        if s == box + ".center":
            return (P.atom("MINI") + P.atom("MAXI")).scale(Fraction(1, 2))
        if s == box + ".mini":
            return P.atom("MINI")
        if s == box + ".maxi":
            return P.atom("MAXI")
        if s == box + ".span":
            return P.atom("MAXI") - P.atom("MINI")
        if isinstance(e, ast.Call) and (au.call_tail(e) in ("max", "amax") and len(e.args) == 1 and src(e.func).split(".")[0] in ("np", "numpy", "max")
                                        or isinstance(e.func, ast.Attribute) and e.func.attr == "max" and not e.args):
            arg = e.args[0] if e.args else e.func.value
            g = _guarded_vector(arg, f)
            if g is not None:
                base, floor = g
                if base == P.atom("MAXI") - P.atom("MINI"):
                    # max over the extents where some of them were replaced by / clamped to a constant: an epsilon only matters for a mesh
                    # reduced to a point; a constant of the size of real coordinates competes with the true extents of a flat mesh
                    return P.atom("EXTENT") if abs(floor) < 1e-6 else P.atom(f"MAX[extents, with zero / small extents replaced by {floor:g}]")
                return None
            inner = vpoly(arg, f)
            if inner == P.atom("MAXI") - P.atom("MINI"):
                return P.atom("EXTENT")
            if inner.atoms() and inner.atoms() <= {"MINI", "MAXI"}:
                return P.atom(f"MAX[{inner}]")            # largest component of another box vector
        return None
    return f


def _subst_atom(poly, atom, val):
    out = P.const(0)
    for mono, c in poly.t.items():
        term = P.const(c)
        for a in mono:
            term = term * (P.const(val) if a == atom else P.atom(a))
        out = out + term
    return out


def n1_normalize(ctx):
    fn = ctx.repo.func(TR, "normalize")
    site = ctx.site(TR, fn)
    params = au.params(fn)
    if len(params) < 2:
        ctx.undecided("C06-N1", site, "normalize() without (mesh, center_at_zero) parameters")
        return
    mesh, switch = params[0], params[1]
    try:
        ps = SX(ctx.repo, TR, inline=lambda modname, f, nm: modname.endswith(TR)).run(fn)
    except (TooComplex, RecursionError) as e:
        ctx.undecided("C06-N1", site, "normalize(): too many paths to read", str(e))
        return
    box = _box_atom(mesh)
    inv = "1/(EXTENT)"
    wants = {True: (P.atom(inv) * (P.atom("P") - (P.atom("MINI") + P.atom("MAXI")).scale(Fraction(1, 2)))).scale(2),
             False: P.atom(inv) * (P.atom("P") - P.atom("MINI"))}
    doc = {True: "centred at the origin with largest extent 2, i.e. P -> 2 (P - center) / max span",
           False: "anchored at the origin with largest extent 1, i.e. P -> (P - mini) / max span"}
    results = {True: [], False: []}
    for p in ps:
        if p.end == "raise":
            continue
        sw = None
        if _empty_mesh(p.conds, mesh) or _degenerate_box(p.conds, box):
            continue                         # nothing to move / a mesh reduced to a point (the documented map divides by zero)
        for t, pol in p.conds:
            if isinstance(t, ast.Name) and t.id == switch:
                sw = pol
        if sw is None:
            results[True].append(("und", "a path does not depend on center_at_zero"))
            results[False].append(("und", "a path does not depend on center_at_zero"))
            continue
        cur = P.atom("P")
        n_moves = 0
        for i, v, ev, objs in _moves(p, mesh, inplace=True):
            pa = _point_atom(mesh, i, objs)
            poly = vpoly(_unrow(v, mesh, i), lambda e, _pa=pa: (_pa(e) or box(e)), row=(mesh, i))
            # substitute the position reached so far for P
            new = P.const(0)
            for mono, c in poly.t.items():
                term = P.const(c)
                for a in mono:
                    term = term * (cur if a == "P" else P.atom(a))
                new = new + term
            cur = new
            n_moves += 1
        want = wants[sw]
        # equalities the path assumes on the data (`if factor == 1: return mesh` inside scale): both maps are compared under them
        for t, pol in p.conds:
            if isinstance(t, ast.Compare) and len(t.ops) == 1 and isinstance(t.ops[0], (ast.Eq, ast.NotEq)) and pol == isinstance(t.ops[0], ast.Eq):
                for x, y in ((t.left, t.comparators[0]), (t.comparators[0], t.left)):
                    c = au.const(y)
                    if isinstance(c, (int, float)) and not isinstance(c, bool):
                        q_ = vpoly(x, box)
                        if len(q_.t) == 1 and len(list(q_.t)[0]) == 1:
                            atom, k_ = list(q_.t)[0][0], list(q_.t.values())[0]
                            val = Fraction(c).limit_denominator(10 ** 9) / k_
                            cur, want = _subst_atom(cur, atom, val), _subst_atom(want, atom, val)
        if n_moves == 0:
            results[sw].append(("und", "no vertex store was read (a transform it calls is not expanded)"))
        elif cur == want:
            results[sw].append(("ok", ""))
        elif all(a in ("P", "MINI", "MAXI", inv) or a.startswith("MAX[") or a.startswith("1/(MAX[") for a in cur.atoms()):
            # conditions of the path other than the switch / emptiness of the mesh / presence of an origin: the maps were composed under an assumption on the data
            extra = [au.canon_test(t, pol) for t, pol in p.conds if not (isinstance(t, ast.Name) and t.id == switch) and not _empty_mesh([(t, not pol)], mesh)
                     and not _empty_mesh([(t, pol)], mesh)]
            results[sw].append(("und", f"{cur} when {' and '.join(extra)}") if extra else ("bad", str(cur)))
        else:
            results[sw].append(("und", str(cur)))
    for sw in (True, False):
        rs = results[sw]
        bad = [r for r in rs if r[0] == "bad"]
        und = [r for r in rs if r[0] == "und"]
        if bad:
            ctx.fail("C06-N1", site, f"normalize(center_at_zero={sw}) applies P -> {bad[0][1]}", "documented: " + doc[sw])
        elif und or not rs:
            ctx.undecided("C06-N1", site, f"normalize(center_at_zero={sw}): the composition of the applied maps is not recognised", "; ".join(sorted({r[1] for r in und})))
        else:
            ctx.ok("C06-N1", site, doc[sw])



# ----------------------------------------------------------------------- generic families (msa/rules/generic.py)
_run_specific = run


def run(ctx):
    _run_specific(ctx)
    from ..rules import generic
    generic.apply(ctx, "C06", stale_modules=())


def _generic_rule_texts():
    from ..rules import generic
    return generic.rule_texts("C06", stale=False)


RULES.update(_generic_rule_texts())
