"""C06 - meshes have value semantics: copy, merge and transforms never alias (structural clauses)."""
from __future__ import annotations
import ast
from .. import au, sym
from ..rules import alias

MESH = "mesh.mesh"
TR = "geometry.transform"
BASE = "mesh.datatypes.base"

EXPLANATION = (
    "Static ownership analysis of copy / merge / transforms: copy covers exactly the containers a mesh exposes and assigns "
    "nothing of the source by reference; merge adds a fresh object per vertex and shifts every index kind by one running "
    "offset advanced after its uses; every transform writes each vertex exactly once in one loop over all vertices with a "
    "fresh right-hand side (no in-place update of a stored vector, which would move a vector stored under two ids twice); "
    "normalisation composes the documented translate/scale arguments. Freshness follows a small grammar that depends on "
    "whether Vec(x) is a view (re-derived from Vec.__new__ on every run). Structural necessary conditions only.")

RULES = {
    "C06-A4": "copy(): the copied container paths are exactly those Mesh.__init__ exposes, each deepcopy(mesh.<same path>); nothing of the source is assigned by reference",
    "C06-A5": "merge(): the vertices added to the result are fresh objects; all index kinds are shifted by one running offset initialised to 0 and advanced by len(vertices) after its uses",
    "C06-A6": "translate/rotate/scale/scale_xyz: one store per vertex in one unguarded loop over id_vertices, right-hand side fresh, no augmented assignment on a stored vector",
    "C06-F1": "the value stored for a vertex is exactly the requested affine map of its old position: P + t, O + f (P - O), O + R(P - O), "
              "O + diag(fx, fy, fz)(P - O) (polynomial identity over the atoms P, O, t, f)",
    "C06-N1": "normalize(): centred variant = translate(-center) then scale(2/max span); anchored variant = translate(-mini) then scale(1/max span)",
    "C06-V1": "fact: whether Vec(x) aliases x (np.asarray(...).view) - the freshness grammar is derived from it",
}

CONTAINERS = {"vertices": ("_data",), "edges": ("_data",), "faces": ("_data",), "face_corners": ("_elem", "_adj"),
              "cells": ("_data",), "cell_corners": ("_elem", "_adj"), "cell_faces": ("_elem", "_adj")}


def run(ctx):
    repo = ctx.repo
    fr = alias.Freshness(repo)
    ctx.ok("C06-V1", ctx.site("geometry.vector", repo.func("geometry.vector", "Vec.__new__")),
           f"Vec(x) is a {'view of x' if fr.vec_is_view else 'copy of x'}")
    a4_copy(ctx)
    a5_merge(ctx, fr)
    a6_transforms(ctx, fr)
    n1_normalize(ctx)
    f1_transform_formulas(ctx)


def a4_copy(ctx):
    repo = ctx.repo
    fn = repo.func(MESH, "copy")
    site = ctx.site(MESH, fn)
    # containers exposed by Mesh.__init__
    init = repo.func(BASE, "Mesh.__init__")
    exposed = {t.attr for st in au.stmts(init.body) for t in au.assign_targets(st) if au.is_self_attr(t)}
    ctx.check(exposed == set(CONTAINERS), "C06-A4", ctx.site(BASE, init),
              f"Mesh.__init__ exposes {sorted(exposed)}; the copy table of the checker knows {sorted(CONTAINERS)}",
              "a new container must be added to copy() (and to the checker's table)")
    ps = au.params(fn)
    src_name = ps[0]
    # the two branches of `if copy_attributes:`
    top = [st for st in fn.body if isinstance(st, ast.If) and isinstance(st.test, ast.Name) and st.test.id == "copy_attributes"]
    if len(top) != 1:
        ctx.fail("C06-A4", site, "copy() is no longer split on copy_attributes", "")
        return
    dst_name = None
    for st in fn.body:
        if isinstance(st, ast.Assign) and isinstance(st.targets[0], ast.Name) and isinstance(st.value, ast.Call) \
                and isinstance(st.value.func, ast.Call) and au.call_tail(st.value.func) == "type":
            dst_name = st.targets[0].id
    if dst_name is None:
        ctx.fail("C06-A4", site, "copy() does not instantiate a new mesh of the same type", "")
        return
    for branch, whole in ((top[0].body, True), (top[0].orelse, False)):
        want = set()
        for c, subs in CONTAINERS.items():
            if whole:
                want.add((c,))
            else:
                want.update((c, s) for s in subs)
        got = set()
        for st in au.stmts(branch):
            if not isinstance(st, ast.Assign):
                continue
            t = st.targets[0]
            ch = au.chain(t)
            if not ch or ch[0] != dst_name:
                continue
            path = tuple(ch[1:])
            v = st.value
            ok = isinstance(v, ast.Call) and au.call_tail(v) == "deepcopy" and len(v.args) == 1 \
                and au.chain(v.args[0]) == [src_name] + list(path)
            s = ctx.site(MESH, fn, st)
            ctx.check(ok, "C06-A4", s, f"copy(): `{au.src(t)}` is assigned `{au.src(v)}` instead of deepcopy({src_name}.{'.'.join(path)})",
                      "the copy would share (or mix up) storage with its source", note=f"{'.'.join(path)} deep-copied")
            got.add(path)
            # guarded by hasattr(mesh, <group>) for non-vertex containers
            if path[0] != "vertices":
                grp = {"edges": "edges", "faces": "faces", "face_corners": "faces", "cells": "cells",
                       "cell_corners": "cells", "cell_faces": "cells"}.get(path[0])
                gs = [au.src(tt) for tt, pol in au.guards(st, stop=top[0]) if pol]
                ctx.check(any(f"hasattr({src_name}, '{grp}')" == g for g in gs), "C06-A4", s,
                          f"copy(): `{au.src(t)}` is not guarded by hasattr({src_name}, '{grp}')", "")
        ctx.check(got == want, "C06-A4", site,
                  f"copy({'with' if whole else 'without'} attributes) copies {sorted('.'.join(p) for p in got)}",
                  f"missing {sorted('.'.join(p) for p in want - got)}, unexpected {sorted('.'.join(p) for p in got - want)}: "
                  f"a copy must equal its source on every container")
    # anything else assigned from the source by reference
    for st in au.stmts(fn.body):
        if isinstance(st, ast.Assign) and any(a is top[0] for a in au.ancestors(st)):
            continue
        if isinstance(st, ast.Assign):
            ch = au.chain(st.targets[0])
            if ch and ch[0] == dst_name and len(ch) > 1:
                reads_src = any(isinstance(n, ast.Name) and n.id == src_name for n in au.walk(st.value))
                fresh = isinstance(st.value, ast.Call) and au.call_tail(st.value) in ("deepcopy",)
                if fresh and au.src(st.value.args[0]) == f"{src_name}.connectivity":
                    memo = st.value.args[1] if len(st.value.args) > 1 else None
                    ok = isinstance(memo, ast.Dict) and any(au.src(k) == f"id({src_name})" and au.src(v) == dst_name
                                                            for k, v in zip(memo.keys, memo.values))
                    ctx.check(ok, "C06-A4", ctx.site(MESH, fn, st),
                              "copy(): the connectivity is deep-copied without re-pointing its back-reference to the new mesh",
                              "the connectivity object refers to its mesh: a plain deepcopy drags a hidden copy of the source along "
                              "and the copy's connectivity keeps answering for that hidden mesh, not for the copy")
                    continue
                ctx.check(not reads_src or fresh, "C06-A4", ctx.site(MESH, fn, st),
                          f"copy(): `{au.src(st)}` shares an object of the source mesh with the copy",
                          "the shared object (and its back-reference to the source) is mutable state common to both meshes: "
                          "a query or edit through one changes the other")


def a5_merge(ctx, fr):
    repo = ctx.repo
    fn = repo.func(MESH, "merge")
    site = ctx.site(MESH, fn)
    loops = [st for st in fn.body if isinstance(st, ast.For) and isinstance(st.target, ast.Name)]
    if len(loops) != 1:
        ctx.fail("C06-A5", site, "merge(): no single loop over the input meshes", "")
        return
    lp = loops[0]
    m = lp.target.id
    adds = {}
    for st in au.stmts(lp.body):
        if isinstance(st, ast.AugAssign) and isinstance(st.op, ast.Add) and isinstance(st.target, ast.Attribute) \
                and isinstance(st.target.value, ast.Name):
            adds[st.target.attr] = st
    # vertices: fresh per element
    st = adds.get("vertices")
    if st is None:
        ctx.fail("C06-A5", site, "merge(): vertices of the inputs are not appended with `merged.vertices += ...`", "")
    else:
        v = st.value
        per_elem_fresh = False
        if isinstance(v, (ast.ListComp, ast.GeneratorExp)) and len(v.generators) == 1 \
                and au.src(v.generators[0].iter) == f"{m}.vertices":
            per_elem_fresh = fr.is_fresh(v.elt, names_nonfresh={x for x in au.assigned_names(v.generators[0].target)})
        elif isinstance(v, ast.Call) and au.call_tail(v) == "deepcopy":
            per_elem_fresh = True
        ctx.check(per_elem_fresh, "C06-A5", ctx.site(MESH, fn, st),
                  f"merge(): `{au.src(st)}` puts the inputs' own vertex objects into the result",
                  "the merged mesh and its inputs share coordinate arrays (Vec(x) in prepare() is a view): editing the result "
                  "changes an input, and merging the same mesh twice then translating moves every vertex twice",
                  note="vertex payload copied per element")
    # offset
    offs = [s for s in au.stmts(lp.body) if isinstance(s, ast.AugAssign) and isinstance(s.target, ast.Name) and isinstance(s.op, ast.Add)]
    if len(offs) != 1:
        ctx.fail("C06-A5", site, f"merge(): {len(offs)} running-offset updates in the loop instead of one", "")
        return
    off = offs[0].target.id
    ctx.check(au.src(offs[0].value) == f"len({m}.vertices)" and not au.guards(offs[0], stop=lp), "C06-A5", ctx.site(MESH, fn, offs[0]),
              f"merge(): offset advances by `{au.src(offs[0].value)}` instead of len({m}.vertices), unconditionally",
              "indices of the next input must be shifted by the number of vertices merged so far")
    init = [s for s in fn.body if isinstance(s, ast.Assign) and isinstance(s.targets[0], ast.Name) and s.targets[0].id == off]
    ctx.check(len(init) == 1 and au.const(init[0].value) == 0 and init[0].lineno < lp.lineno, "C06-A5", site,
              f"merge(): offset `{off}` is not initialised to 0 before the loop", "")
    n_kinds = 0
    for kind in ("edges", "faces", "cells"):
        st = adds.get(kind)
        if st is None:
            ctx.fail("C06-A5", site, f"merge(): {kind} of the inputs are not appended", "")
            continue
        n_kinds += 1
        v = st.value
        ok = False
        if isinstance(v, (ast.ListComp, ast.GeneratorExp)) and len(v.generators) == 1 and au.src(v.generators[0].iter) == f"{m}.{kind}":
            row = v.generators[0].target.id if isinstance(v.generators[0].target, ast.Name) else None
            inner = v.elt
            while isinstance(inner, ast.Call) and au.call_tail(inner) in ("tuple", "list") and len(inner.args) == 1:
                inner = inner.args[0]
            if isinstance(inner, (ast.GeneratorExp, ast.ListComp)) and len(inner.generators) == 1 \
                    and au.src(inner.generators[0].iter) == row and isinstance(inner.generators[0].target, ast.Name):
                u = inner.generators[0].target.id
                p = sym.to_poly(inner.elt)
                ok = p == sym.Poly.atom(off) + sym.Poly.atom(u) and not inner.generators[0].ifs and not v.generators[0].ifs
        before = [id(x) for x in lp.body]
        top_st = st
        while au.enclosing_block(top_st)[0] is not lp.body and au.parent(top_st) is not None:
            top_st = au.parent(top_st)
        used_before_update = before.index(id(top_st)) < before.index(id(offs[0])) if id(top_st) in before and id(offs[0]) in before else False
        ctx.check(ok and used_before_update, "C06-A5", ctx.site(MESH, fn, st),
                  f"merge(): {kind} are not re-indexed as `{off} + u` for every index u of every row, before the offset advances",
                  "a merge is the disjoint union of its inputs with indices shifted by the running vertex count",
                  note=f"{kind} shifted by the running offset")
        ctx.check(any(au.src(t) == f"hasattr({m}, '{kind}')" and pol for t, pol in au.guards(st, stop=lp)), "C06-A5",
                  ctx.site(MESH, fn, st), f"merge(): {kind} of an input are read without hasattr({m}, '{kind}')", "")


TRANSFORMS = ["translate", "rotate", "scale", "scale_xyz"]


def a6_transforms(ctx, fr):
    repo = ctx.repo
    mod = repo.module(TR)
    # every function of transform.py that stores into mesh.vertices[...] is held to the rule
    n = 0
    for q, fn in sorted(mod.funcs.items()):
        ps = au.params(fn)
        if not ps:
            continue
        mesh = ps[0]
        stores = []
        for st in au.stmts(fn.body):
            if isinstance(st, ast.AugAssign) and isinstance(st.target, ast.Subscript) and au.src(st.target.value) == f"{mesh}.vertices":
                stores.append((st, "aug", st.target.slice))
            elif isinstance(st, ast.Assign) and isinstance(st.targets[0], ast.Subscript) and au.src(st.targets[0].value) == f"{mesh}.vertices":
                stores.append((st, "assign", st.targets[0].slice))
            elif isinstance(st, (ast.Assign, ast.AugAssign)):
                t = st.targets[0] if isinstance(st, ast.Assign) else st.target
                if isinstance(t, ast.Subscript) and isinstance(t.value, ast.Subscript) and au.src(t.value.value) == f"{mesh}.vertices":
                    stores.append((st, "component", t.value.slice))
        # in-place updates of stored vectors reached through an alias (loop target over the vertices, P = mesh.vertices[i], a view)
        b0 = sym.Bindings(fn)
        inplace = []
        for st in au.stmts(fn.body):
            tgt = None
            if isinstance(st, ast.AugAssign):
                tgt = st.target if isinstance(st.target, ast.Name) else (st.target.value if isinstance(st.target, (ast.Subscript, ast.Attribute)) else None)
            elif isinstance(st, ast.Assign) and isinstance(st.targets[0], (ast.Subscript, ast.Attribute)) \
                    and not (isinstance(st.value, ast.Constant)):
                tgt = st.targets[0].value
            if not isinstance(tgt, ast.Name):
                continue
            name = tgt.id
            is_vertex_alias = False
            d = b0.reaching(name, st)
            if d is not None:
                for a in fr.aliases(d) | ({au.src(d)} if isinstance(d, ast.Subscript) else set()):
                    pass
                root = d
                while isinstance(root, ast.Call) and au.call_tail(root) in ("Vec", "asarray") and len(root.args) == 1:
                    root = root.args[0]
                is_vertex_alias = isinstance(root, ast.Subscript) and au.src(root.value) in (f"{mesh}.vertices", f"{mesh}.vertices._data")
            else:
                for a in au.ancestors(st):
                    if isinstance(a, ast.For) and name in au.assigned_names(a.target):
                        it = a.iter
                        if isinstance(it, ast.Call) and au.call_tail(it) == "enumerate" and it.args:
                            it = it.args[0]
                        is_vertex_alias = au.src(it) in (f"{mesh}.vertices", f"{mesh}.vertices._data")
            if is_vertex_alias:
                inplace.append(st)
        for st in inplace:
            ctx.fail("C06-A6", ctx.site(TR, fn, st), f"{q}: `{au.src(st)}` updates a stored vertex vector in place through an alias",
                     "numpy in-place arithmetic mutates the array object itself: a vector stored under two vertex ids (ring(open=True)), "
                     "or shared with the caller's array (from_arrays) or with another mesh, is transformed twice / behind the caller's back")
        if not stores and q not in TRANSFORMS and not inplace:
            continue
        n += 1
        site = ctx.site(TR, fn)
        if not stores:
            ctx.fail("C06-A6", site, f"{q}: no store into {mesh}.vertices[i]", "the transform no longer moves the vertices")
            continue
        ctx.check(len(stores) == 1, "C06-A6", site, f"{q}: {len(stores)} stores into a vertex per iteration / function instead of one",
                  "every vertex must be moved exactly once")
        for st, kind, idx in stores:
            s = ctx.site(TR, fn, st)
            loops = [a for a in au.ancestors(st) if isinstance(a, ast.For)]
            ok_loop = len(loops) == 1 and au.src(loops[0].iter) in (f"{mesh}.id_vertices", f"range(len({mesh}.vertices))") \
                and isinstance(loops[0].target, ast.Name) and au.src(idx) == loops[0].target.id and not au.guards(st, stop=loops[0])
            ctx.check(ok_loop, "C06-A6", s, f"{q}: the vertex store is not `for i in {mesh}.id_vertices: {mesh}.vertices[i] = ...` (unguarded, once)",
                      "every vertex must be moved exactly once")
            if kind == "aug":
                ctx.fail("C06-A6", s, f"{q}: `{au.src(st)}` updates the stored vector in place",
                         "numpy augmented assignment mutates the array object: a vector object stored under two vertex ids "
                         "(ring(open=True) stores vertices[1] twice; merged or from_arrays meshes share rows with the caller) is "
                         "moved twice, and arrays the caller still holds are changed")
            elif kind == "assign":
                b = sym.Bindings(fn)
                ctx.check(fr.is_fresh(b.resolve(st.value, at=st, keep=tuple(ps))), "C06-A6", s,
                          f"{q}: `{au.src(st)}` stores a value that may alias an existing array",
                          "each vertex must receive a freshly allocated vector", note=f"{q}: fresh right-hand side")
            else:
                # component store: accepted only when it writes a constant (idempotent: applying it twice is harmless)
                ctx.check(isinstance(st, ast.Assign) and isinstance(st.value, ast.Constant), "C06-A6", s,
                          f"{q}: component of a stored vector updated in place with a non-constant value",
                          "an in-place update is applied twice to a vector stored under two ids", note=f"{q}: idempotent constant store")
    ctx.require_count("C06-A6 transforms", n, 4)


def n1_normalize(ctx):
    fn = ctx.repo.func(TR, "normalize")
    site = ctx.site(TR, fn)
    b = sym.Bindings(fn)
    mesh = au.params(fn)[0]
    from .. import decide
    switch = au.params(fn)[1] if len(au.params(fn)) > 1 else None
    try:
        names, rows = decide.table(fn.body, lambda e: switch if isinstance(e, ast.Name) and e.id == switch else None)
    except decide.Unknown:
        names, rows = [], []
    if names != [switch] or any(len(taken) != 1 for _, taken in rows):
        ctx.fail("C06-N1", site, "normalize() is no longer split on center_at_zero", "")
        return

    def parse(path):
        for st in path.stmts:
            if isinstance(st, ast.Return) and isinstance(st.value, ast.Call) and au.call_tail(st.value) == "scale":
                sc = st.value
                inner = sc.args[0] if sc.args else None
                if isinstance(inner, ast.Call) and au.call_tail(inner) == "translate" and len(inner.args) == 2 and len(sc.args) == 2 \
                        and not sc.keywords:
                    return au.src(inner.args[0]), au.src(b.resolve(inner.args[1], at=st)), au.src(b.resolve(sc.args[1], at=st))
        return None
    by = {env[switch]: parse(taken[0]) for env, taken in rows}
    c, a = by.get(True), by.get(False)
    span = f"1 / np.max(AABB.of_mesh({mesh}).span)"
    want_c = (mesh, f"-AABB.of_mesh({mesh}).center", f"2 * ({span})")
    want_a = (mesh, f"-AABB.of_mesh({mesh}).mini", span)
    norm = lambda t: tuple(x.replace("(", "").replace(")", "").replace(" ", "") for x in t) if t else None
    ctx.check(norm(c) == norm(want_c), "C06-N1", site, f"normalize(center_at_zero=True) applies translate/scale with {c}",
              "documented: centred at the origin with largest extent 2, i.e. translate(-center) then scale(2 / max span)")
    ctx.check(norm(a) == norm(want_a), "C06-N1", site, f"normalize(center_at_zero=False) applies translate/scale with {a}",
              "documented: anchored at the origin with largest extent 1, i.e. translate(-mini) then scale(1 / max span)")


def f1_transform_formulas(ctx):
    repo = ctx.repo
    P = sym.Poly

    def stored(fn):
        mesh = au.params(fn)[0]
        b = sym.Bindings(fn)
        for st in au.stmts(fn.body):
            if isinstance(st, ast.Assign) and isinstance(st.targets[0], ast.Subscript) and au.src(st.targets[0].value) == f"{mesh}.vertices":
                i = au.src(st.targets[0].slice)
                return st, b.resolve(st.value, at=st, keep=tuple(au.params(fn)) + (i,)), mesh, i
        return None, None, mesh, None
    # translate: P + tr
    fn = repo.func(TR, "translate")
    st, v, mesh, i = stored(fn)
    tr = au.params(fn)[1]
    ok = False
    if v is not None:
        p = sym.to_poly(v, atom_of=lambda e: "P" if au.src(e) == f"{mesh}.vertices[{i}]" else None)
        ok = p == P.atom("P") + P.atom(tr)
    ctx.check(ok, "C06-F1", ctx.site(TR, fn), "translate does not store P + tr", "translate(t) then translate(-t) must restore the coordinates",
              note="P + t")
    # scale: O + f*(P - O)
    fn = repo.func(TR, "scale")
    st, v, mesh, i = stored(fn)
    f, o = au.params(fn)[1:3]
    ok = False
    if v is not None:
        p = sym.to_poly(v, atom_of=lambda e: "P" if au.src(e) == f"{mesh}.vertices[{i}]" else None)
        ok = p == P.atom(o) + P.atom(f) * (P.atom("P") - P.atom(o))
    ctx.check(ok, "C06-F1", ctx.site(TR, fn), "scale does not store O + factor * (P - O)", "scaling about O must fix O and scale offsets by the factor",
              note="O + f (P - O)")
    # rotate: O + R(P - O)
    fn = repo.func(TR, "rotate")
    st, v, mesh, i = stored(fn)
    o = au.params(fn)[2]
    ok = False
    if isinstance(v, ast.BinOp) and isinstance(v.op, ast.Add):
        sides = [v.left, v.right]
        call = next((x for x in sides if isinstance(x, ast.Call) and au.call_tail(x) == "apply"), None)
        other = next((x for x in sides if x is not call), None)
        if call is not None and other is not None and au.src(other) == o and len(call.args) == 1:
            p = sym.to_poly(call.args[0], atom_of=lambda e: "P" if au.src(e) == f"{mesh}.vertices[{i}]" else None)
            ok = p == P.atom("P") - P.atom(o)
    ctx.check(ok, "C06-F1", ctx.site(TR, fn), "rotate does not store O + R(P - O)", "rotating about O must fix O; rotate(R) then rotate(R^-1) must restore the coordinates",
              note="O + R(P - O)")
    # scale_xyz: O + Vec(fx*(P.x - O.x), fy*(P.y - O.y), fz*(P.z - O.z))
    fn = repo.func(TR, "scale_xyz")
    st, v, mesh, i = stored(fn)
    ps = au.params(fn)
    fx, fy, fz, o = ps[1:5]
    ok = False
    if isinstance(v, ast.BinOp) and isinstance(v.op, ast.Add):
        sides = [v.left, v.right]
        vec = next((x for x in sides if isinstance(x, ast.Call) and au.call_tail(x) == "Vec" and len(x.args) == 3), None)
        other = next((x for x in sides if x is not vec), None)
        if vec is not None and au.src(other) == o:
            good = 0
            for comp, fac, arg in zip("xyz", (fx, fy, fz), vec.args):
                amap = {f"{mesh}.vertices[{i}].{comp}": "P", f"{o}.{comp}": "O"}
                p = sym.to_poly(arg, atom_of=lambda e, _a=amap: _a.get(au.src(e)))
                good += p == P.atom(fac) * (P.atom("P") - P.atom("O"))
            ok = good == 3
    ctx.check(ok, "C06-F1", ctx.site(TR, fn), "scale_xyz does not store O + (fx (P.x - O.x), fy (P.y - O.y), fz (P.z - O.z))", "",
              note="axis-wise scaling about O")
