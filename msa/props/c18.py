"""C18 - surface frame fields are unit, border-aligned (structural clauses)."""
from __future__ import annotations
import ast
from .. import au, sym, order
from ..core import AnalysisError
from ..rules import c151718 as H

FACES = "processing.framefield.faces2d"
VERTS = "processing.framefield.vertex2d"
FBASE = "processing.framefield.base"
CONN = "processing.connection"

OPTIMIZERS = [(FACES, "FrameField2DFaces", "faces"), (VERTS, "FrameField2DVertices", "vertices")]

EXPLANATION = (
    "Static conformance of the two surface frame-field solvers: on the constrained path every store into self.var goes "
    "through the free index list of an if/else partition on one 'is constrained' predicate (faces: both sides of every "
    "feature edge are marked), the linear system is L[free,free] x = -L[free,fixed] var[fixed] with the library's connection "
    "Laplacian for self.conn / self.order; after the last write to self.var a normalize() follows on every path to every "
    "normal exit (must-dataflow), normalize() divides every entry by its modulus; the parallel transport tables of the face "
    "and edge connections (and the CAD correction) are written in antisymmetric pairs.  Structural necessary conditions only: "
    "harmonicity, singularity indices and invariance under renumbering are not decided.  The literal power 4 in the face "
    "constraint initialisation is deliberately not flagged (DESIGN section 8).")

RULES = {
    "C18-F1": "constrained path of optimize(): the free/fixed lists are an if/else partition of all elements on one predicate that is true "
              "exactly for the constrained elements; every store into self.var is indexed by the free list (no rebinding of self.var)",
    "C18-H1": "constrained path: L_II = lap[free,:][:,free], L_IB = lap[free,:][:,fixed], the boundary term is L_IB . self.var[fixed] and enters "
              "every solve with coefficient -1; lap is the connection Laplacian of self.mesh for connection=self.conn, order=self.order, cotan=self.use_cotan",
    "C18-N1": "on every path to a normal exit of optimize() a self.normalize() follows the last write to self.var; normalize() divides every "
              "non-zero entry by its modulus; the vertex constraint initialisation ends with the normalising loop",
    "C18-E1": "constraint initialisation: a complex number built from the stored direction of an edge (vertices[b] - vertices[a] with a, b = edges[e]) "
              "enters self.var only through an even power - an even literal exponent, or an exponent whose evenness is tested on the path - so that "
              "the constraint does not depend on the orientation in which the edge is stored",
    "C18-L1": "connection Laplacians used by the solvers: every off-diagonal entry of the connection branch of operators.laplacian is "
              "m * rect(1, phase) with the magnitude m of the scalar branch, phase_ij + phase_ji = 0 mod 2*pi*order (Hermitian) and "
              "phase = 0 mod 2*pi*order when transport(j,i) = transport(i,j) +- pi (flat connection); laplacian_triangles is N^H [D] N with rows "
              "(-1, rect(1, order*transport)) that reduce to (-1, 1) for a zero transport",
    "C18-P1": "antisymmetric parallel transport: every store tr[(x,y)] = w is paired, in the same block, with tr[(y,x)] = -w (x != y); "
              "transport(a, b) reads tr[(a, b)]",
}


def run(ctx):
    for mod, cls, elem in OPTIMIZERS:
        f1_h1(ctx, mod, cls, elem)
    n1_normalize(ctx)
    p1_transport(ctx)
    e1_even_power(ctx)
    l1_flat_reduction(ctx)


# ------------------------------------------------------------------------------ helpers
def _var_stores(body):
    """[(stmt, kind, index)]: kind 'rebind' (self.var = ...) or 'index' (self.var[idx] = / op= ...)"""
    out = []
    for st in au.stmts(body):
        for t in au.assign_targets(st):
            for x in ([t] if not isinstance(t, (ast.Tuple, ast.List)) else t.elts):
                if au.is_self_attr(x, "var"):
                    out.append((st, "rebind", None))
                elif isinstance(x, ast.Subscript) and au.is_self_attr(x.value, "var"):
                    out.append((st, "index", x.slice))
    return out


def _find_partition(fn):
    """(loop, if, loopvar, pred, true_list, false_list) of `for x in ALL: if pred: A.append(x) else: B.append(x)`"""
    for lp in au.stmts(fn.body):
        if not (isinstance(lp, ast.For) and isinstance(lp.target, ast.Name)):
            continue
        x = lp.target.id
        for s in lp.body:
            if isinstance(s, ast.If) and s.orelse:
                def app(body):
                    out = []
                    for q in body:
                        if isinstance(q, ast.Expr) and isinstance(q.value, ast.Call) and au.call_tail(q.value) == "append" \
                                and isinstance(q.value.func, ast.Attribute) and isinstance(q.value.func.value, ast.Name) \
                                and len(q.value.args) == 1 and H.is_name(q.value.args[0], x):
                            out.append(q.value.func.value.id)
                        else:
                            out.append(None)
                    return out
                a, b = app(s.body), app(s.orelse)
                if len(a) == 1 and len(b) == 1 and a[0] and b[0] and a[0] != b[0]:
                    return lp, s, x, s.test, a[0], b[0]
    return None


# ------------------------------------------------------------------------------ C18-F1 / C18-H1
def f1_h1(ctx, mod, cls, elem):
    repo = ctx.repo
    fn = repo.func(mod, f"{cls}.optimize")
    site = ctx.site(mod, fn)
    fl = H.Floor(ctx, "C18-F1")
    fl_h = H.Floor(ctx, "C18-H1")
    b = sym.Bindings(fn)
    part = _find_partition(fn)
    if part is None:
        ctx.fail("C18-F1", site, f"{cls}.optimize: free/fixed partition `for x in all: if constrained(x): fixed.append(x) else: free.append(x)` not found",
                 "constrained elements must be kept out of the unknowns")
        return
    lp, iff, x, pred, tl, fll = part
    all_ids = {"faces": ("self.mesh.id_faces", "range(len(self.mesh.faces))"),
               "vertices": ("self.mesh.id_vertices", "range(len(self.mesh.vertices))")}[elem]
    ok_all = au.src(lp.iter) in all_ids and iff in lp.body and not H.path_condition(iff, stop=lp)
    ctx.check(ok_all, "C18-F1", ctx.site(mod, fn, lp), f"{cls}.optimize: the partition does not classify every element of {all_ids[0]}",
              f"found loop over `{au.src(lp.iter)}`; an unclassified element is neither solved for nor kept", note=f"partition ranges over {all_ids[0]}")
    # predicate: true <=> constrained
    neg = False
    p = pred
    while isinstance(p, ast.UnaryOp) and isinstance(p.op, ast.Not):
        p, neg = p.operand, not neg
    kind = None
    if isinstance(p, ast.Compare) and len(p.ops) == 1 and isinstance(p.ops[0], (ast.In, ast.NotIn)) and H.is_name(p.left, x) \
            and au.src(p.comparators[0]) == "self.feat.feature_vertices":
        kind = "feature_vertices"
        if isinstance(p.ops[0], ast.NotIn):
            neg = not neg
    elif isinstance(p, ast.Subscript) and isinstance(p.value, ast.Name) and H.is_name(p.slice, x):
        kind = ("marks", p.value.id)
    fixed, free = (fll, tl) if neg else (tl, fll)
    if elem == "vertices":
        ctx.check(kind == "feature_vertices", "C18-F1", ctx.site(mod, fn, iff),
                  f"{cls}.optimize: the partition predicate is not `v in self.feat.feature_vertices`",
                  "the constrained vertices are exactly the endpoints of feature edges (those initialised by _initialize_variables)",
                  note="fixed <=> v in feature_vertices")
    else:
        ok_marks = False
        detail = "predicate is not a per-face mark"
        if isinstance(kind, tuple):
            A = kind[1]
            adef = b.resolve(ast.Name(id=A, ctx=ast.Load()), at=lp)
            fresh = isinstance(adef, ast.Call) and au.call_tail(adef) in ("create_attribute", "Attribute", "zeros", "dict")
            marks = H.subscript_stores(fn, lambda q: H.is_name(q, A))
            sides = set()
            bad = []
            for st, tgt, val in marks:
                if not (isinstance(st, ast.Assign) and au.const(val) is True and isinstance(tgt.slice, ast.Name)):
                    bad.append(au.src(st))
                    continue
                T = tgt.slice.id
                floops = [l for l in H.loop_ancestors(st, stop=fn) if isinstance(l, ast.For)
                          and au.src(l.iter) == "self.feat.feature_edges" and isinstance(l.target, ast.Name)]
                if not floops:
                    bad.append(au.src(st))
                    continue
                fe = floops[0]
                e = fe.target.id
                # endpoints and faces
                ends = None
                pair = None
                via_loop = None
                for q in au.stmts(fe.body):
                    if isinstance(q, ast.Assign) and len(q.targets) == 1 and isinstance(q.targets[0], ast.Tuple) and len(q.targets[0].elts) == 2 \
                            and all(isinstance(z, ast.Name) for z in q.targets[0].elts):
                        if au.src(q.value) == f"self.mesh.edges[{e}]":
                            ends = tuple(z.id for z in q.targets[0].elts)
                        elif isinstance(q.value, ast.Call) and au.call_tail(q.value) == "edge_to_faces":
                            pair = (tuple(z.id for z in q.targets[0].elts), q.value)
                    if isinstance(q, ast.For) and isinstance(q.iter, ast.Call) and au.call_tail(q.iter) == "edge_to_faces" \
                            and H.is_name(q.target, T):
                        via_loop = q

                def of_edge(call):
                    if len(call.args) == 2 and ends and {au.src(a) for a in call.args} == set(ends):
                        return True
                    return len(call.args) == 1 and isinstance(call.args[0], ast.Starred) \
                        and au.src(call.args[0].value) == f"self.mesh.edges[{e}]"
                cond = H.path_condition(st, stop=fe)
                def not_none(cs):
                    if len(cs) != 1:
                        return False
                    t, pol, _ = cs[0]
                    if isinstance(t, ast.Compare) and len(t.ops) == 1 and H.is_name(t.left, T) and au.const(t.comparators[0], "x") is None \
                            and isinstance(t.comparators[0], ast.Constant):
                        return (isinstance(t.ops[0], ast.IsNot) and pol) or (isinstance(t.ops[0], ast.Is) and not pol)
                    return False
                if pair and T in pair[0] and of_edge(pair[1]) and not_none(cond):
                    sides.add(pair[0].index(T))
                elif via_loop is not None and of_edge(via_loop.iter) and not_none(H.path_condition(st, stop=via_loop)) \
                        and not H.path_condition(via_loop, stop=fe):
                    sides |= {0, 1}
                else:
                    bad.append(au.src(st))
            ok_marks = fresh and sides == {0, 1} and not bad
            detail = f"sides of a feature edge marked: {sorted(sides)}; unrecognised marks: {bad}; mark container fresh: {fresh}"
        ctx.check(ok_marks, "C18-F1", ctx.site(mod, fn, iff),
                  f"{cls}.optimize: `fixed` does not mark exactly the faces on both sides of every feature edge",
                  "every face adjacent to a border / feature edge carries a constraint (set by _initialize_variables) and must be kept fixed; " + detail,
                  note="fixed <=> face adjacent to a feature edge (both sides marked)")
    # stores on the constrained path
    blk, owner = au.enclosing_block(lp)
    stores = _var_stores(blk)
    if not stores:
        ctx.fail("C18-F1", ctx.site(mod, fn, lp), f"{cls}.optimize: no store into self.var on the constrained path",
                 "the solution of the linear system is never written back")
    for st, k, idx in stores:
        ok = k == "index" and H.is_name(idx, free)
        ctx.check(ok, "C18-F1", ctx.site(mod, fn, st),
                  f"{cls}.optimize: a store into self.var on the constrained path is not indexed by the free list",
                  f"`{au.src(st)}` overwrites constrained elements: the field must leave every constrained element at its constraint "
                  f"(free list is `{free}`)", note=f"self.var[{free}] = ...")
    # lists are fresh and not touched afterwards
    inits = [s for s in blk if isinstance(s, ast.Assign) and any(n in (free, fixed) for t in s.targets for n in au.assigned_names(t))]
    ok_init = bool(inits) and all(H.block_pos(s) < H.block_pos(lp) for s in inits)
    vals = {}
    for s in inits:
        for n, v in sym.split_assign(s):
            vals[n] = v
    ok_init = ok_init and all(isinstance(vals.get(n), ast.List) and not vals[n].elts for n in (free, fixed))
    later = [c for s in blk[H.block_pos(lp) + 1:] for c in au.calls(s) if isinstance(c.func, ast.Attribute)
             and isinstance(c.func.value, ast.Name) and c.func.value.id in (free, fixed)
             and c.func.attr in ("append", "extend", "pop", "remove", "insert", "clear", "sort", "reverse")]
    ctx.check(ok_init and not later, "C18-F1", ctx.site(mod, fn, lp), f"{cls}.optimize: free/fixed lists are not fresh lists filled only by the partition",
              "a stale or later modified index list no longer matches the matrix blocks", note="free/fixed start empty, filled once")

    # ---------------- H1
    def one(e, at):
        if isinstance(e, ast.Name):
            d = b.reaching(e.id, at)
            return d if d is not None else e
        return e
    solves = [(st, c) for st in au.stmts(blk) for c in au.calls(st) if au.call_tail(c) == "spsolve" and len(c.args) == 2]
    if not solves:
        ctx.fail("C18-H1", ctx.site(mod, fn, lp), f"{cls}.optimize: no linear solve on the constrained path", "")
        return
    st0, c0 = solves[0]
    LI = H.block_parts(one(c0.args[0], st0))
    ok_li = LI is not None and H.is_name(LI[1], free) and H.is_name(LI[2], free)
    ctx.check(ok_li, "C18-H1", ctx.site(mod, fn, st0), f"{cls}.optimize: the first solve does not use lap[free,:][:,free]",
              f"found `{au.src(one(c0.args[0], st0))}`; with smoothing off the field is the harmonic extension of the constraints", note="L_II = lap[free][:,free]")
    # boundary term
    bterm = None
    for s in blk:
        if isinstance(s, ast.Assign) and len(s.targets) == 1 and isinstance(s.targets[0], ast.Name):
            mv = H.matvec(s.value)
            if mv and isinstance(mv[2], ast.Subscript) and au.is_self_attr(mv[2].value, "var"):
                bterm = (s.targets[0].id, mv, s)
    if bterm is None:
        ctx.fail("C18-H1", ctx.site(mod, fn, lp), f"{cls}.optimize: boundary term `L_IB.dot(self.var[fixed])` not found", "")
    else:
        nameB, mv, sB = bterm
        LB = H.block_parts(one(mv[1], sB))
        ok_lb = LB is not None and H.is_name(LB[1], free) and H.is_name(LB[2], fixed) and H.is_name(mv[2].slice, fixed) \
            and (LI is None or au.same(LB[0], LI[0])) and H.block_pos(sB) < H.block_pos(H.top_stmt_in(blk, st0))
        ctx.check(ok_lb, "C18-H1", ctx.site(mod, fn, sB),
                  f"{cls}.optimize: the boundary term is not lap[free,:][:,fixed] . self.var[fixed] computed before the first solve",
                  f"found `{au.src(sB)}` with matrix `{au.src(one(mv[1], sB))}`", note="boundary term L_IB . var[fixed]")
        for st, c in solves:
            p = H.poly(c.args[1])
            coef = p.coeff(nameB)
            ctx.check(coef == sym.Poly.const(-1 * mv[0]), "C18-H1", ctx.site(mod, fn, st),
                      f"{cls}.optimize: a solve on the constrained path does not carry the boundary term with coefficient -1",
                      f"right-hand side `{au.src(c.args[1])}`: L_II x + L_IB x_B = 0 fixes the sign; without the term the constraints are ignored",
                      note="rhs contains -L_IB x_B")
    # laplacian
    lapn = LI[0] if LI else None
    lap = b.resolve(lapn, at=st0) if lapn is not None else None
    while isinstance(lap, ast.Call) and au.call_tail(lap) in ("tocsc", "tocsr", "tolil") and isinstance(lap.func, ast.Attribute):
        lap = lap.func.value
    want_fn = {"faces": "laplacian_triangles", "vertices": "laplacian"}[elem]
    ok_lap = isinstance(lap, ast.Call) and au.call_tail(lap) == want_fn and lap.args and au.src(lap.args[0]) == "self.mesh"
    kws = {}
    if ok_lap:
        names = ["mesh", "cotan", "connection", "order"]
        for i, a in enumerate(lap.args):
            kws[names[i]] = a
        for k in lap.keywords:
            kws[k.arg] = k.value
    ok_kw = ok_lap and au.is_self_attr(kws.get("connection"), "conn") and au.is_self_attr(kws.get("order"), "order") \
        and au.is_self_attr(kws.get("cotan"), "use_cotan")
    ctx.check(ok_kw, "C18-H1", ctx.site(mod, fn, st0),
              f"{cls}.optimize: the matrix is not operators.{want_fn}(self.mesh, cotan=self.use_cotan, connection=self.conn, order=self.order)",
              f"found `{au.src(lap) if lap is not None else None}`: the field of order n is harmonic for the connection Laplacian of order n "
              "(the default order 4 is wrong for every other order)", note=f"{want_fn}(connection=self.conn, order=self.order)")
    fl.require(5)
    fl_h.require(5)


# ------------------------------------------------------------------------------ C18-N1
def _is_normalising_loop(st):
    """for i in ...: [if abs(self.var[i]) > eps:] self.var[i] /= abs(self.var[i])"""
    if not (isinstance(st, ast.For) and isinstance(st.target, ast.Name)):
        return None
    i = st.target.id
    for q in au.stmts(st.body):
        if isinstance(q, ast.AugAssign) and isinstance(q.op, ast.Div) and au.src(q.target) == f"self.var[{i}]" \
                and au.src(q.value) == f"abs(self.var[{i}])":
            return q
        if isinstance(q, ast.Assign) and len(q.targets) == 1 and au.src(q.targets[0]) == f"self.var[{i}]" \
                and au.src(q.value) == f"self.var[{i}] / abs(self.var[{i}])":
            return q
    return None


def _clean_flow(ctx, mod, cls_qual, fn, depth=0, init=("clean",), loops_gen=False):
    mod_o = ctx.repo.module(mod)
    methods = ctx.repo.methods(mod_o, ctx.repo.cls(mod, cls_qual))

    def writes(node):
        if isinstance(node, (ast.Assign, ast.AugAssign, ast.AnnAssign)):
            for t in au.assign_targets(node):
                for x in ast.walk(t):
                    if au.is_self_attr(x, "var") and isinstance(x.ctx, ast.Store):
                        return True
                    if isinstance(x, ast.Subscript) and isinstance(x.ctx, ast.Store) and au.is_self_attr(x.value, "var"):
                        return True
        return False

    def helper(call):
        """effect of self.m(): 'gen' / 'kill' / None"""
        if not (isinstance(call.func, ast.Attribute) and au.is_self_attr(call.func)):
            return None
        name = call.func.attr
        if name == "normalize":
            return "gen"
        if depth >= 2 or name not in methods:
            return None
        m, f, o = methods[name]
        touches = any(au.is_self_attr(n, "var") and isinstance(getattr(n, "ctx", None), ast.Store) or
                      (isinstance(n, ast.Subscript) and isinstance(n.ctx, ast.Store) and au.is_self_attr(n.value, "var"))
                      for n in au.walk(f)) or any(au.call_tail(c) == "normalize" for c in au.calls(f))
        if not touches:
            return None
        fl = _clean_flow(ctx, m.name, o._qualname, f, depth + 1, init=())
        exits = [s for k, n, s in fl.exits if k in ("fall", "return")]
        return "gen" if exits and all("clean" in s for s in exits) else "kill"

    def gen_kill(node):
        g, k = set(), set()
        if writes(node):
            k.add("clean")
        for c in au.calls(node):
            h = helper(c)
            if h == "gen" and isinstance(node, ast.Expr) and node.value is c:
                g.add("clean")
                k.discard("clean")
            elif h == "kill":
                k.add("clean")
        return g, k

    return H.must_flow(fn.body, gen_kill, init=init)


def n1_normalize(ctx):
    fl = H.Floor(ctx, "C18-N1")
    for mod, cls, elem in OPTIMIZERS:
        fn = ctx.repo.func(mod, f"{cls}.optimize")
        f = _clean_flow(ctx, mod, cls, fn)
        n_w = len(_var_stores(fn.body))
        if n_w == 0:
            ctx.fail("C18-N1", ctx.site(mod, fn), f"{cls}.optimize: no write to self.var found", "")
            continue
        for kind, node, state in f.exits:
            if kind == "raise":
                continue
            label = "end of the method" if kind == "fall" else "return"
            ctx.check("clean" in state, "C18-N1", ctx.site(mod, fn, node) if node is not None else ctx.site(mod, fn),
                      f"{cls}.optimize: a path reaches the {label} with self.var written but not normalised",
                      "the field must have unit modulus on every element: the solution of a linear system / eigenproblem has arbitrary modulus "
                      "until self.normalize() is applied after the last write",
                      note=f"{cls}.optimize: normalize() follows the last write ({label})")
    # normalize itself
    fn = ctx.repo.func(FBASE, "FrameField.normalize")
    site = ctx.site(FBASE, fn)
    loops = [s for s in fn.body if isinstance(s, ast.For)]
    q = _is_normalising_loop(loops[0]) if len(loops) == 1 else None
    ok = q is not None
    if ok:
        lp = loops[0]
        rng = lp.iter
        ok_rng = isinstance(rng, ast.Call) and au.call_tail(rng) == "range" and len(rng.args) == 1 \
            and au.src(rng.args[0]) in ("self.var.size", "len(self.var)", "self.var.shape[0]")
        # guard: only a positivity test on the modulus may skip an entry
        cond = H.path_condition(q, stop=lp)
        i = lp.target.id

        def atom(x, boolean):
            if not boolean and au.src(x) == f"abs(self.var[{i}])":
                return H.name("modulus")
            return None
        ab = H.Abstractor(atom)
        code = ab.boolean(H.conj([(t, p) for t, p, _ in cond]))
        thr_ok = True
        if cond:
            try:
                # must normalise whenever modulus is clearly non-zero (>= 1e-6) : find a witness with modulus large and code false
                wit, n = H.compare(ast.BoolOp(op=ast.Or(), values=[code, ast.Compare(left=H.name("modulus"), ops=[ast.Lt()],
                                                                                       comparators=[ast.Constant(value=1e-06)])]), "True")
                thr_ok = wit is None and not ab.unknown
            except order.Unsupported:
                thr_ok = False
        ok = ok_rng and thr_ok
    ctx.check(ok, "C18-N1", site, "FrameField.normalize does not divide every (non-zero) entry of self.var by its modulus",
              "normalize() is the only place where unit modulus is established; entries may only be skipped when their modulus is (numerically) zero",
              note="normalize: var[i] /= abs(var[i]) for every i with non-zero modulus")
    early = [r for r in au.walk(fn) if isinstance(r, ast.Return)]
    okr = all(len(H.path_condition(r, stop=fn)) == 1 and au.src(H.path_condition(r, stop=fn)[0][0]) == "self.var is None" for r in early)
    ctx.check(okr, "C18-N1", site, "FrameField.normalize returns early for a reason other than `self.var is None`", "",
              note="normalize: only `var is None` skips the loop")
    # vertex constraint initialisation ends with the normalising loop
    fn = ctx.repo.func(VERTS, "_BaseFrameField2DVertices._initialize_variables")
    site = ctx.site(VERTS, fn)
    last_write = None
    for idx, s in enumerate(fn.body):
        if _var_stores([s]):
            last_write = idx
    ok = last_write is not None and _is_normalising_loop(fn.body[last_write]) is not None \
        and au.src(fn.body[last_write].iter) == "self.feat.feature_vertices"
    if ok:
        q = _is_normalising_loop(fn.body[last_write])
        cond = H.path_condition(q, stop=fn.body[last_write])
        ok = len(cond) <= 1
    ctx.check(ok, "C18-N1", site, "_initialize_variables (vertices): the accumulated constraints are not normalised per feature vertex at the end",
              "a vertex with two feature edges accumulates two unit numbers; the constraint must be brought back to unit modulus",
              note="vertex constraints normalised over feature_vertices")
    fl.require(6)


# ------------------------------------------------------------------------------ C18-P1
def _tr_key(t):
    """(x, y) sources if t is <...>._transport[(x, y)]"""
    if isinstance(t, ast.Subscript) and isinstance(t.value, ast.Attribute) and t.value.attr == "_transport" \
            and isinstance(t.slice, ast.Tuple) and len(t.slice.elts) == 2:
        return au.src(t.slice.elts[0]), au.src(t.slice.elts[1])
    return None


def _pairing(ctx, mod, qual, min_pairs):
    fn = ctx.repo.func(mod, qual)
    b = sym.Bindings(fn)
    site = ctx.site(mod, fn)
    stores = []   # (stmt, key, delta-kind, value)
    for st in au.stmts(fn.body):
        if isinstance(st, ast.Assign) and len(st.targets) == 1 and _tr_key(st.targets[0]):
            stores.append((st, _tr_key(st.targets[0]), "set", st.value))
        elif isinstance(st, ast.AugAssign) and _tr_key(st.target) and isinstance(st.op, (ast.Add, ast.Sub)):
            v = st.value if isinstance(st.op, ast.Add) else ast.UnaryOp(op=ast.USub(), operand=st.value)
            stores.append((st, _tr_key(st.target), "delta", v))
    if len(stores) < 2 * min_pairs:
        ctx.fail("C18-P1", site, f"{qual}: transport stores not found", f"{len(stores)} store(s) into _transport, expected {2 * min_pairs}")
        return

    key_names = tuple({n.id for st_, k_, kind_, v_ in stores for t_ in au.assign_targets(st_) for n in ast.walk(t_.slice)
                       if isinstance(n, ast.Name)})

    def value_poly(st, v):
        """polynomial of the stored value; reads of _transport[(a,b)] stored earlier in the same block are replaced by that value"""
        blk, _ = au.enclosing_block(st)
        env_reads = {}
        for s2, k2, kind2, v2 in stores:
            b2, _ = au.enclosing_block(s2)
            if b2 is blk and kind2 == "set" and H.block_pos(s2) < H.block_pos(st):
                env_reads[k2] = (s2, v2)
        rv = b.resolve(v, at=st, keep=key_names)

        def to_p(e, depth=0):
            def atom_of(x):
                k = _tr_key(x)
                if k is not None and k in env_reads and depth < 4:
                    s2, v2 = env_reads[k]
                    return value_poly(s2, v2)
                return None
            return _poly_with(e, atom_of)
        return to_p(rv)

    for st, key, kind, v in stores:
        x, y = key
        partner = [(s2, v2) for s2, k2, kind2, v2 in stores if k2 == (y, x) and kind2 == kind and H.in_same_block(s2, st)]
        ssite = ctx.site(mod, fn, st)
        if x == y or len(partner) != 1:
            ctx.fail("C18-P1", ssite, f"{qual}: store into _transport[({x},{y})] has no partner _transport[({y},{x})] in the same block",
                     "parallel transport must be antisymmetric: transport(y, x) = -transport(x, y); otherwise the connection Laplacian is not Hermitian "
                     "and the field depends on the orientation in which an edge is visited")
            continue
        p1 = value_poly(st, v)
        p2 = value_poly(partner[0][0], partner[0][1])
        ctx.check((p1 + p2).is_zero(), "C18-P1", ssite,
                  f"{qual}: _transport[({x},{y})] and _transport[({y},{x})] are not opposite",
                  f"values `{au.src(v)}` and `{au.src(partner[0][1])}` sum to {p1 + p2!r} instead of 0",
                  note=f"{qual}: tr[({x},{y})] = -tr[({y},{x})]")


def _poly_with(e, atom_of):
    """H.poly with an extra atom hook returning a Poly"""
    from fractions import Fraction

    def rec(x):
        a = atom_of(x)
        if a is not None:
            return a
        v = order.fold_const(x)
        if v is not None:
            return sym.Poly.const(Fraction(v).limit_denominator(10 ** 9))
        if isinstance(x, ast.Name):
            return sym.Poly.atom(x.id)
        if isinstance(x, ast.UnaryOp) and isinstance(x.op, ast.USub):
            return -rec(x.operand)
        if isinstance(x, ast.UnaryOp) and isinstance(x.op, ast.UAdd):
            return rec(x.operand)
        if isinstance(x, ast.BinOp):
            if isinstance(x.op, ast.Add):
                return rec(x.left) + rec(x.right)
            if isinstance(x.op, ast.Sub):
                return rec(x.left) - rec(x.right)
            if isinstance(x.op, ast.Mult):
                return rec(x.left) * rec(x.right)
            if isinstance(x.op, ast.Div):
                r = rec(x.right)
                if r.is_const() and r.const_value() != 0:
                    return rec(x.left).scale(1 / r.const_value())
                return rec(x.left) * sym.Poly.atom("1/(" + repr(r) + ")")
        return sym.Poly.atom("<" + au.src(x) + ">")
    return rec(e)


def p1_transport(ctx):
    fl = H.Floor(ctx, "C18-P1")
    _pairing(ctx, CONN, "SurfaceConnectionFaces._initialize", 1)
    _pairing(ctx, CONN, "SurfaceConnectionEdges._initialize", 3)
    _pairing(ctx, VERTS, "FrameField2DVertices._modify_parallel_transport", 1)
    # reader
    fn = ctx.repo.func(CONN, "SurfaceConnection.transport")
    ps = au.params(fn, skip_self=True)
    rets = [r for r in au.walk(fn) if isinstance(r, ast.Return)]
    ok = len(ps) == 2 and len(rets) == 1 and _tr_key(rets[0].value) == (ps[0], ps[1]) and au.is_self_attr(rets[0].value.value, "_transport")
    ctx.check(ok, "C18-P1", ctx.site(CONN, fn), "SurfaceConnection.transport(a, b) does not read self._transport[(a, b)]",
              "a swapped key negates every transport angle seen by the Laplacians", note="transport(a,b) = tr[(a,b)]")
    fl.require(11)


# ------------------------------------------------------------------------------ C18-E1
def _even_exponent(e):
    """exponent is even for every integer value of its atoms: even literal, or integer polynomial with all coefficients even"""
    p = H.poly(e)
    if not p.t:
        return True
    return all(c.denominator == 1 and int(c) % 2 == 0 for c in p.t.values()) and not any(a.startswith(("1/(", "<")) for a in p.atoms())


def _evenness_guarded(node, expo, fn):
    """the path condition of `node` implies that `expo` is even"""
    want = au.src(expo)

    def atom(x, boolean):
        if isinstance(x, ast.Compare) and len(x.ops) == 1 and isinstance(x.ops[0], (ast.Eq, ast.NotEq)) \
                and isinstance(x.left, ast.BinOp) and isinstance(x.left.op, ast.Mod) and au.src(x.left.left) == want \
                and au.const(x.left.right) == 2 and au.const(x.comparators[0]) in (0, 1):
            odd = (au.const(x.comparators[0]) == 1) == isinstance(x.ops[0], ast.Eq)
            n = H.name("odd")
            return n if odd else ast.UnaryOp(op=ast.Not(), operand=n)
        if isinstance(x, ast.BinOp) and isinstance(x.op, ast.Mod) and au.src(x.left) == want and au.const(x.right) == 2 and boolean:
            return H.name("odd")
        return None
    ab = H.Abstractor(atom)
    code = ab.boolean(H.conj([(t, p) for t, p, _ in H.path_condition(node, stop=fn)]))
    try:
        wit, _ = H.compare(ast.BoolOp(op=ast.And(), values=[code, H.name("odd")]), "False")
    except order.Unsupported:
        return False
    return wit is None


def e1_even_power(ctx):
    fl = H.Floor(ctx, "C18-E1")
    for mod, qual in ((FACES, "_BaseFrameField2DFaces._initialize_variables"), (VERTS, "_BaseFrameField2DVertices._initialize_variables")):
        fn = ctx.repo.func(mod, qual)
        site = ctx.site(mod, fn)
        # sources: D = <...>.vertices[b] - <...>.vertices[a]   with a, b unpacked from <...>.edges[e]
        pairs = set()
        for st in au.stmts(fn.body):
            if isinstance(st, ast.Assign) and len(st.targets) == 1 and isinstance(st.targets[0], (ast.Tuple, ast.List)) \
                    and len(st.targets[0].elts) == 2 and all(isinstance(x, ast.Name) for x in st.targets[0].elts) \
                    and isinstance(st.value, ast.Subscript) and isinstance(st.value.value, ast.Attribute) and st.value.value.attr == "edges":
                pairs.add(frozenset(x.id for x in st.targets[0].elts))

        def is_source(e):
            if isinstance(e, ast.BinOp) and isinstance(e.op, ast.Sub):
                l, r = e.left, e.right
                if all(isinstance(x, ast.Subscript) and isinstance(x.value, ast.Attribute) and x.value.attr == "vertices"
                       and isinstance(x.slice, ast.Name) for x in (l, r)):
                    return frozenset((l.slice.id, r.slice.id)) in pairs
            return False

        pows = []

        def taint_of(e, tainted):
            """does e carry the sign of a stored edge direction (even powers cleanse)"""
            if isinstance(e, ast.BinOp) and isinstance(e.op, ast.Pow):
                if taint_of(e.left, tainted):
                    pows.append(e)
                return False
            if isinstance(e, ast.Call) and au.call_tail(e) in ("abs", "norm", "len"):
                for a in e.args:
                    taint_of(a, tainted)      # still visit nested powers
                return False
            if is_source(e):
                return True
            if isinstance(e, ast.Name):
                return e.id in tainted
            return any(taint_of(c, tainted) for c in ast.iter_child_nodes(e) if isinstance(c, ast.expr))

        tainted = set()
        for _ in range(6):
            before = len(tainted)
            for st in au.stmts(fn.body):
                if isinstance(st, ast.Assign):
                    if taint_of(st.value, tainted):
                        for t in st.targets:
                            for n in au.assigned_names(t):
                                tainted.add(n)
            if len(tainted) == before:
                break
        if not tainted:
            ctx.fail("C18-E1", site, f"{qual}: edge direction `vertices[b] - vertices[a]` of a feature edge not found",
                     "the constraint is documented as tangent to the border / feature edge")
            continue
        pows.clear()
        leaks = []
        for st in au.stmts(fn.body):
            val = getattr(st, "value", None)
            if val is None or not isinstance(st, (ast.Assign, ast.AugAssign)):
                continue
            t = taint_of(val, tainted)
            if t and any(isinstance(x, ast.Subscript) and au.is_self_attr(x.value, "var") for tg in au.assign_targets(st) for x in ast.walk(tg)):
                leaks.append(st)
        for st in leaks:
            ctx.fail("C18-E1", ctx.site(mod, fn, st), f"{qual}: the stored direction of an edge enters self.var without going through a power",
                     f"`{au.src(st)}`: reversing the stored orientation of the edge (renumbering its endpoints) negates the constraint")
        seen = set()
        for pw in pows:
            if id(pw) in seen:
                continue
            seen.add(id(pw))
            ok = _even_exponent(pw.right) or _evenness_guarded(pw, pw.right, fn)
            ctx.check(ok, "C18-E1", ctx.site(mod, fn, pw),
                      f"{qual}: the direction of a stored edge is raised to a power that can be odd",
                      f"`{au.src(pw)}`: the edge is stored as (a, b) with an orientation that depends on the vertex numbering; (-c)**k = c**k only for even k, "
                      "so with an odd exponent (odd field order) the constrained frame flips with the numbering.  In the face basis the edge direction is "
                      "+-1, any even literal gives the same constraint for every order",
                      note=f"{qual}: `{au.src(pw)}` even power of the edge direction")
    fl.require(3)


# ------------------------------------------------------------------------------ C18-L1
LAPM = "operators.laplacian_op"


def _phase_poly(e, b, at, order_name):
    """(magnitude Poly, phase Poly) of  m * rect(1, phi) [.conjugate()] ; None if not of that form"""
    e = b.resolve(e, at=at, keep=(order_name,))

    def atom_of(x):
        c = au.chain(x)
        if (c and c[-1] == "pi") or (isinstance(x, ast.Name) and x.id == "pi"):
            return sym.Poly.atom("pi")
        if isinstance(x, ast.Call) and au.call_tail(x) == "transport" and len(x.args) == 2:
            return sym.Poly.atom("t[" + au.src(x.args[0]) + "," + au.src(x.args[1]) + "]")
        return None

    def split(x):
        """-> (list of magnitude factor exprs, phase Poly, sign)"""
        if isinstance(x, ast.UnaryOp) and isinstance(x.op, ast.USub):
            r = split(x.operand)
            return None if r is None else (r[0], r[1], -r[2])
        if isinstance(x, ast.BinOp) and isinstance(x.op, ast.Mult):
            l, r = split(x.left), split(x.right)
            if l is None or r is None:
                return None
            return l[0] + r[0], l[1] + r[1], l[2] * r[2]
        if isinstance(x, ast.Call) and au.call_tail(x) in ("conjugate", "conj") and isinstance(x.func, ast.Attribute) and not x.args:
            r = split(x.func.value)
            return None if r is None or r[0] else ([], -r[1], r[2])
        if isinstance(x, ast.Call) and au.call_tail(x) == "rect" and len(x.args) == 2:
            if au.const(x.args[0]) not in (1, 1.0):
                return None
            return [], _poly_with(x.args[1], atom_of), 1
        return [x], sym.Poly(), 1
    r = split(e)
    if r is None:
        return None
    mag = sym.Poly.const(r[2])
    for f in r[0]:
        mag = mag * _poly_with(f, atom_of)
    return mag, r[1]


def _is_period(p, order_name):
    """p == k * 2*pi*order for an integer k (including 0)"""
    if p.is_zero():
        return True
    if len(p.t) != 1:
        return False
    (mono, c), = p.t.items()
    return sorted(mono) == sorted((order_name, "pi")) and c.denominator == 1 and int(c) % 2 == 0


def _subst_atom(p, atom, repl):
    out = sym.Poly()
    for mono, c in p.t.items():
        term = sym.Poly.const(c)
        for a in mono:
            term = term * (repl if a == atom else sym.Poly.atom(a))
        out = out + term
    return out


def _coo_emits(body, arrays):
    """[(row, col, value, stmt)] of `rows[k], cols[k], vals[k], k = r, c, v, k+1` style stores among the statements of body"""
    rows, cols, vals = arrays
    out = []
    for st in au.stmts(body):
        if isinstance(st, ast.Assign) and len(st.targets) == 1 and isinstance(st.targets[0], ast.Tuple) \
                and isinstance(st.value, ast.Tuple) and len(st.value.elts) == len(st.targets[0].elts):
            got = {}
            for t, v in zip(st.targets[0].elts, st.value.elts):
                if isinstance(t, ast.Subscript) and isinstance(t.value, ast.Name) and t.value.id in (rows, cols, vals):
                    got[t.value.id] = v
            if len(got) == 3:
                out.append((got[rows], got[cols], got[vals], st))
    return out


def l1_flat_reduction(ctx):
    fl = H.Floor(ctx, "C18-L1")
    fn = ctx.repo.func(LAPM, "laplacian")
    site = ctx.site(LAPM, fn)
    b = sym.Bindings(fn)
    ps = au.params(fn)
    order_name = "order" if "order" in ps else None
    conn = "connection" if "connection" in ps else None
    arrays = None
    for c in au.calls(fn):
        if au.call_tail(c) in ("csc_matrix", "csr_matrix", "coo_matrix") and c.args and isinstance(c.args[0], ast.Tuple) \
                and len(c.args[0].elts) == 2 and isinstance(c.args[0].elts[1], ast.Tuple) and len(c.args[0].elts[1].elts) == 2 \
                and all(isinstance(x, ast.Name) for x in [c.args[0].elts[0]] + c.args[0].elts[1].elts):
            arrays = (c.args[0].elts[1].elts[0].id, c.args[0].elts[1].elts[1].id, c.args[0].elts[0].id)
    branch = None
    for st in au.stmts(fn.body):
        if isinstance(st, ast.If) and st.orelse and conn:
            t = st.test
            pos = None
            if isinstance(t, ast.Compare) and len(t.ops) == 1 and H.is_name(t.left, conn) and au.const(t.comparators[0], 0) is None \
                    and isinstance(t.comparators[0], ast.Constant):
                pos = isinstance(t.ops[0], ast.IsNot)
            elif H.is_name(t, conn):
                pos = True
            if pos is not None and arrays and (_coo_emits(st.body, arrays) or _coo_emits(st.orelse, arrays)):
                branch = (st.body, st.orelse) if pos else (st.orelse, st.body)
    if not (arrays and order_name and branch):
        ctx.fail("C18-L1", site, "laplacian: connection / scalar branches of the assembly (`if connection is not None`) not found",
                 "the frame-field solvers rely on this operator being Hermitian and reducing to the scalar Laplacian for a flat connection")
    else:
        cb, sb = (_coo_emits(x, arrays) for x in branch)
        scal = {(au.src(r), au.src(c)): _poly_with(b.resolve(v, at=st), lambda x: None) for r, c, v, st in sb}
        ent = {}
        for r, c, v, st in cb:
            pp = _phase_poly(v, b, st, order_name)
            esite = ctx.site(LAPM, fn, st)
            key = (au.src(r), au.src(c))
            if pp is None:
                ctx.fail("C18-L1", esite, f"laplacian: connection entry ({key[0]}, {key[1]}) is not magnitude * rect(1, phase)",
                         f"found `{au.src(v)}`")
                continue
            ent[key] = (pp, st)
            mag, ph = pp
            ctx.check(key in scal and mag == scal[key], "C18-L1", esite,
                      f"laplacian: magnitude of the connection entry ({key[0]}, {key[1]}) differs from the scalar branch",
                      f"connection: {mag!r}, scalar: {scal.get(key)!r}; for a flat connection the operator must be the scalar Laplacian",
                      note=f"({key[0]},{key[1]}): magnitude as in the scalar branch")
            # flat reduction: t[j,i] = t[i,j] +- pi
            tij, tji = f"t[{key[0]},{key[1]}]", f"t[{key[1]},{key[0]}]"
            okf = True
            res = []
            for s in (1, -1):
                q = _subst_atom(ph, tji, sym.Poly.atom(tij) + sym.Poly.atom("pi").scale(s))
                res.append(repr(q))
                okf = okf and _is_period(q, order_name)
            ctx.check(okf, "C18-L1", esite,
                      f"laplacian: the phase of entry ({key[0]}, {key[1]}) does not vanish (mod 2*pi*order) for a flat connection",
                      f"phase {ph!r}; with transport(j,i) = transport(i,j) +- pi (opposite directions of one edge in a common basis) it becomes "
                      f"{res[0]} / {res[1]}, which is not a multiple of 2*pi*order for odd orders: the sign of the off-diagonal entries flips",
                      note=f"({key[0]},{key[1]}): phase = 0 mod 2*pi*order for a flat connection")
        for (r, c), ((mag, ph), st) in ent.items():
            if (c, r) not in ent:
                ctx.fail("C18-L1", ctx.site(LAPM, fn, st), f"laplacian: connection entry ({r}, {c}) has no transposed entry", "the operator is not Hermitian")
                continue
            if (r, c) < (c, r):
                tot = ph + ent[(c, r)][0][1]
                ctx.check(_is_period(tot, order_name) and mag == ent[(c, r)][0][0], "C18-L1", ctx.site(LAPM, fn, st),
                          f"laplacian: entries ({r}, {c}) and ({c}, {r}) of the connection branch are not conjugate",
                          f"phases sum to {tot!r} (must be a multiple of 2*pi*order), magnitudes {mag!r} / {ent[(c, r)][0][0]!r}",
                          note=f"({r},{c}) / ({c},{r}) conjugate")
        if not ent:
            ctx.fail("C18-L1", site, "laplacian: no off-diagonal entry found in the connection branch", "")
    # ---- laplacian_triangles
    fn = ctx.repo.func(LAPM, "laplacian_triangles")
    site = ctx.site(LAPM, fn)
    b = sym.Bindings(fn)
    stores = H.subscript_stores(fn, lambda x: isinstance(x, ast.Name))
    rows = {}
    for st, tgt, val in stores:
        if isinstance(tgt.slice, ast.Tuple) and len(tgt.slice.elts) == 2 and val is not None:
            cond = [au.src(t) for t, p, _ in H.path_condition(st, stop=fn) if "connection" in au.src(t)]
            pol = [p for t, p, _ in H.path_condition(st, stop=fn) if "connection" in au.src(t)]
            if len(cond) == 1:
                is_conn = pol[0] == ("is not None" in cond[0] or cond[0] == "connection")
                rows.setdefault(is_conn, []).append((tgt.value.id, val, st))
    ok_rows = True
    detail = ""
    if set(rows) != {True, False} or len(rows[True]) != 2 or len(rows[False]) != 2:
        ok_rows = False
        detail = f"entries per branch: { {k: len(v) for k, v in rows.items()} }"
    else:
        sc = sorted(float(order.fold_const(v)) if order.fold_const(v) is not None else 9e9 for _, v, _ in rows[False])
        mags = []
        for _, v, st in rows[True]:
            pp = _phase_poly(v, b, st, "order")
            if pp is None:
                ok_rows = False
                detail = f"`{au.src(v)}` is not magnitude * rect(1, phase)"
                break
            mag, ph = pp
            ph0 = ph
            for a in list(ph.atoms()):
                if a.startswith("t["):
                    ph0 = _subst_atom(ph0, a, sym.Poly())
            if not ph0.is_zero() or not mag.is_const():
                ok_rows = False
                detail = f"`{au.src(v)}`: phase {ph!r} does not vanish with the transport"
            mags.append(float(mag.const_value()) if mag.is_const() else 9e9)
        if ok_rows and (sorted(mags) != sc or sc != [-1.0, 1.0]):
            ok_rows = False
            detail = f"connection magnitudes {sorted(mags)} vs scalar entries {sc}"
    ctx.check(ok_rows, "C18-L1", site, "laplacian_triangles: the gradient rows are not (-1, rect(1, order*transport)) reducing to (-1, 1)",
              detail + ": for a zero transport (flat connection) the operator must equal the scalar dual Laplacian",
              note="laplacian_triangles: rows (-1, rect(1, order*t)) reduce to (-1, 1)")
    rets = [r for r in au.walk(fn) if isinstance(r, ast.Return)]
    okp = bool(rets)
    for r in rets:
        v = r.value
        chain = []
        while isinstance(v, ast.BinOp) and isinstance(v.op, ast.MatMult):
            chain.insert(0, v.right)
            v = v.left
        chain.insert(0, v)
        first = b.resolve(chain[0], at=r) if isinstance(chain[0], ast.Name) and b.reaching(chain[0].id, r) is not None else chain[0]
        d = b.reaching(chain[0].id, r) if isinstance(chain[0], ast.Name) else chain[0]
        herm = d is not None and au.src(d) in (f"{au.src(chain[-1])}.conj().transpose()", f"{au.src(chain[-1])}.conjugate().transpose()",
                                              f"{au.src(chain[-1])}.transpose().conj()", f"{au.src(chain[-1])}.getH()", f"{au.src(chain[-1])}.H")
        okp = okp and len(chain) in (2, 3) and herm
    ctx.check(okp, "C18-L1", site, "laplacian_triangles: the result is not N^H @ [D] @ N with N^H the conjugate transpose of N",
              "Hermitian by construction only in that form", note="laplacian_triangles: N^H [D] N")
    fl.require(7)
