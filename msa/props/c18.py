"""C18 - surface frame fields are unit, border-aligned (structural clauses)."""
from __future__ import annotations
import ast, cmath, math, itertools
from fractions import Fraction
from .. import au, sym, order
from ..core import AnalysisError
from ..rules import c151718 as H
from ..rules import hj_scope, hj_eval as E
from ..rules.c151718 import Unrecognised

FACES = "processing.framefield.faces2d"
VERTS = "processing.framefield.vertex2d"
FBASE = "processing.framefield.base"
CONN = "processing.connection"
LAPM = "operators.laplacian_op"

OPTIMIZERS = [(FACES, "FrameField2DFaces", "faces"), (VERTS, "FrameField2DVertices", "vertices")]

EXPLANATION = (
    "Static conformance of the two surface frame-field solvers, read on a normal form of each function (private helpers and "
    "closures inlined, literal loops unrolled, local names resolved to what they denote): on the constrained path every store into "
    "self.var goes through the free index list of a partition of all elements on one 'is constrained' predicate (faces: both sides "
    "of every feature edge are marked), the linear system is L[free,free] x = -L[free,fixed] var[fixed] with the library's connection "
    "Laplacian for self.conn / self.order; after the last write to self.var a normalize() follows on every path to every normal exit "
    "(must-dataflow); normalize() is evaluated abstractly on a five-entry vector (every non-zero entry must end with modulus 1 and "
    "its phase); the parallel transport tables are written in antisymmetric pairs; the coefficients emitted by the connection "
    "Laplacians are collected as (row, column, value) triplets whatever idiom writes them and compared between the connection and "
    "the scalar case.  A construct that is not recognised ends `undecided`; only a recognised construct that contradicts a clause "
    "is reported.  The literal power 4 in the face constraint initialisation is deliberately not flagged (DESIGN section 8).")

RULES = {
    "C18-F1": "constrained path of optimize(): the free/fixed lists are a partition of all elements on one predicate that is true "
              "exactly for the constrained elements (for faces: having a feature edge, which no function of the feature status of its vertices decides); "
              "every store into self.var is indexed by the free list (no rebinding of self.var)",
    "C18-H1": "constrained path: L_II = lap[free,:][:,free], L_IB = lap[free,:][:,fixed], the boundary term is L_IB . self.var[fixed] and enters "
              "every solve with coefficient -1; lap is the connection Laplacian of self.mesh for connection=self.conn, order=self.order, cotan=self.use_cotan",
    "C18-N1": "on every path to a normal exit of optimize() a self.normalize() follows the last write to self.var; normalize() divides every "
              "non-zero entry by its modulus; the vertex constraint initialisation ends with the normalising loop, and a guard that keeps two opposite "
              "contributions from cancelling compares a modulus with a positive threshold (never floating-point values exactly)",
    "C18-E1": "constraint initialisation: a complex number built from the stored direction of an edge (vertices[b] - vertices[a] with a, b = edges[e]) "
              "enters self.var only through an even power - an even literal exponent, or an exponent whose evenness is tested on the path - so that "
              "the constraint does not depend on the orientation in which the edge is stored; the constraint is computed from that direction",
    "C18-L1": "connection Laplacians used by the solvers: every off-diagonal entry of the connection case of operators.laplacian is "
              "m * rect(1, phase) with the magnitude m of the scalar case, phase_ij + phase_ji = 0 mod 2*pi*order (Hermitian) and "
              "phase = 0 mod 2*pi*order when transport(j,i) = transport(i,j) +- pi (flat connection); laplacian_triangles is N^H [D] N with rows "
              "(-1, rect(1, order*transport)) that reduce to (-1, 1) for a zero transport",
    "C18-S1": "flag_singularities writes the singularity / edge-rotation attributes only where the value is non-zero: the attribute it writes into is "
              "fresh - created after a has_attribute test, or fetched and cleared - so that indices flagged by a previous call do not survive",
    "C18-I1": "an element index answered by a connectivity query (corner, face, edge id - None when absent) is never tested for truth: index 0 is a "
              "valid element, the connection and the field must not depend on which element happens to be numbered 0",
    "C18-P1": "antisymmetric parallel transport: every store tr[(x,y)] = w is paired, in the same block, with tr[(y,x)] = -w (x != y); "
              "transport(a, b) reads tr[(a, b)]",
}


def run(ctx):
    G = H.guarded
    for mod, cls, elem in OPTIMIZERS:
        G(ctx, "C18-F1", mod, f"{cls}.optimize", f1_h1, mod, cls, elem)
    G(ctx, "C18-N1", FBASE, "FrameField.normalize", n1_normalize)
    G(ctx, "C18-P1", CONN, "SurfaceConnection.transport", p1_transport)
    G(ctx, "C18-E1", FACES, "_BaseFrameField2DFaces._initialize_variables", e1_even_power)
    G(ctx, "C18-L1", LAPM, "laplacian", l1_flat_reduction)
    G(ctx, "C18-S1", FACES, "_BaseFrameField2DFaces.flag_singularities", s1_fresh_singularities)
    G(ctx, "C18-I1", CONN, "SurfaceConnectionVertices._initialize", i1_index_truth)


# ------------------------------------------------------------------------------ helpers
def _var_stores(body):
    """[(stmt, kind, index)]: kind 'rebind' (self.var = ...) or 'index' (self.var[idx] = / op= ...)"""
    out = []
    for st in au.stmts(body):
        for t in au.assign_targets(st):
            for x in ([t] if not isinstance(t, (ast.Tuple, ast.List)) else t.elts):
                if au.is_self_attr(x, "var"):
                    out.append((st, "rebind", None))
                elif isinstance(x, ast.Subscript) and au.is_self_attr(x.value, "var"):
                    out.append((st, "index", x.slice))
    return out


def _blocks(e):
    from .c17 import _blocks as b
    return b(e)


def _poly_with(e, atom_of):
    """H.poly with an extra atom hook returning a Poly"""
    def rec(x):
        a = atom_of(x)
        if a is not None:
            return a
        v = hj_scope.fold(x)
        if v is not None and not isinstance(v, bool) and not isinstance(v, complex):
            return sym.Poly.const(Fraction(v).limit_denominator(10 ** 9))
        if isinstance(x, ast.Name):
            return sym.Poly.atom(x.id)
        if isinstance(x, ast.UnaryOp) and isinstance(x.op, ast.USub):
            return -rec(x.operand)
        if isinstance(x, ast.UnaryOp) and isinstance(x.op, ast.UAdd):
            return rec(x.operand)
        if isinstance(x, ast.BinOp):
            if isinstance(x.op, ast.Add):
                return rec(x.left) + rec(x.right)
            if isinstance(x.op, ast.Sub):
                return rec(x.left) - rec(x.right)
            if isinstance(x.op, ast.Mult):
                return rec(x.left) * rec(x.right)
            if isinstance(x.op, ast.Div):
                r = rec(x.right)
                if r.is_const() and r.const_value() != 0:
                    return rec(x.left).scale(1 / r.const_value())
                return rec(x.left) * sym.Poly.atom("1/(" + repr(r) + ")")
        return sym.Poly.atom("<" + au.src(x) + ">")
    return rec(e)


# ------------------------------------------------------------------------------ C18-F1 / C18-H1
def f1_h1(ctx, mod, cls, elem):
    repo = ctx.repo
    fn0 = repo.func(mod, f"{cls}.optimize")
    site = ctx.site(mod, fn0)
    fn, S, nz = H.norm_fn(ctx, mod, f"{cls}.optimize", keep=("normalize", "log", "warn", "_compute_attach_weight"))
    acc = {c.func.value.id for c in au.calls(fn) if au.call_tail(c) == "append" and isinstance(c.func, ast.Attribute) and isinstance(c.func.value, ast.Name)}
    acc |= {t.id for st in au.stmts(fn.body) if isinstance(st, ast.Assign) and H.is_empty_container(st.value) == "list"
            for t in st.targets if isinstance(t, ast.Name)}
    keep = tuple(sorted(acc))
    # ---- the solves of the constrained path: those whose matrix is a block of the Laplacian indexed by accumulated lists
    solves = []
    cands = sorted([c for c in au.calls(fn) if au.call_tail(c) in ("spsolve", "solve") and len(c.args) == 2], key=lambda c: (c.lineno, c.col_offset))
    rest = []
    for c in cands:
        Mc = S.canon(c.args[0], c, keep=keep)
        LI = _blocks(Mc)
        if LI is not None and isinstance(LI[1], ast.Name) and LI[1].id in acc:
            solves.append((c, Mc, LI))
        else:
            rest.append((c, Mc))
    for c, Mc in rest:
        if solves and any(_blocks(n) is not None and isinstance(_blocks(n)[1], ast.Name) and _blocks(n)[1].id == solves[0][2][1].id
                          for n in ast.walk(Mc) if isinstance(n, ast.Subscript)):
            solves.append((c, Mc, None))
    if not solves:
        ctx.undecided("C18-H1", site, f"{cls}.optimize: the linear solve of the constrained path (matrix = block of the Laplacian over an index list) is not recognised", "")
        ctx.undecided("C18-F1", site, f"{cls}.optimize: the free / fixed index lists are not recognised", "")
        return
    c0, M0, LI0 = solves[0]
    free = LI0[1].id
    s0site = ctx.site(mod, fn0, c0)
    ctx.check(H.is_name(LI0[2], free), "C18-H1", s0site, f"{cls}.optimize: the first solve does not use lap[free,:][:,free]",
              f"rows `{free}`, columns `{au.src(LI0[2])[:40]}`; with smoothing off the field is the harmonic extension of the constraints", note="L_II = lap[free][:,free]")
    # ---- boundary term in every right-hand side
    fixed = None
    lb_seen = []
    free_terms = []

    def atom_of(x):
        mv = H.matvec(x)
        if mv and isinstance(mv[2], ast.Subscript) and au.is_self_attr(mv[2].value, "var") and isinstance(mv[2].slice, ast.Name):
            LB = _blocks(mv[1])
            if mv[2].slice.id != free or (LB is not None and isinstance(LB[2], ast.Name) and LB[2].id != free):
                lb_seen.append((LB, mv[2].slice.id))
                return sym.Poly.atom("BT").scale(mv[0])
            free_terms.append(x)
        return None
    for c, Mc, LI in solves:
        rc = S.canon(c.args[1], c, keep=keep)
        n0 = len(lb_seen)
        p = _poly_with(rc, atom_of)
        csite = ctx.site(mod, fn0, c)
        if len(lb_seen) == n0:
            var_reads = [n for n in ast.walk(rc) if isinstance(n, ast.Subscript) and au.is_self_attr(n.value, "var")]
            only_free = var_reads and all(H.is_name(n.slice, free) for n in var_reads)
            if only_free and lb_seen:
                ctx.fail("C18-H1", csite, f"{cls}.optimize: a solve on the constrained path does not carry the boundary term with coefficient -1",
                         f"right-hand side `{au.src(c.args[1])[:80]}` only involves self.var on the free elements: the constraints are ignored by this solve")
            elif any(isinstance(n, ast.Attribute) and n.attr == "var" for n in ast.walk(rc)) or not p.atoms():
                ctx.undecided("C18-H1", csite, f"{cls}.optimize: the boundary term L_IB . self.var[fixed] of a right-hand side is not recognised", "")
            else:
                ctx.undecided("C18-H1", csite, f"{cls}.optimize: the boundary term L_IB . self.var[fixed] of a right-hand side is not recognised", "")
            continue
        coef = p.coeff("BT")
        ctx.check(coef == sym.Poly.const(-1) and p.degree_in("BT") == 1, "C18-H1", csite,
                  f"{cls}.optimize: a solve on the constrained path does not carry the boundary term with coefficient -1",
                  f"right-hand side `{au.src(c.args[1])[:80]}`: the term L_IB . self.var[fixed] has coefficient {coef!r}; L_II x + L_IB x_B = 0 fixes the sign",
                  note="rhs contains -L_IB x_B")
    if lb_seen:
        LB, fixed = lb_seen[0]
        fixed = next((x for l, x in lb_seen if x != free), None) or next((l[2].id for l, x in lb_seen if l is not None and isinstance(l[2], ast.Name) and l[2].id != free), fixed)
        if any(l is None for l, x in lb_seen):
            ctx.undecided("C18-H1", s0site, f"{cls}.optimize: the matrix of the boundary term is not recognised as a block lap[free,:][:,fixed]", "")
        else:
            ok_lb = all(H.is_name(l[1], free) and H.is_name(l[2], fixed) and x == fixed and au.same(l[0], LI0[0]) for l, x in lb_seen)
            ctx.check(ok_lb, "C18-H1", s0site, f"{cls}.optimize: the boundary term is not lap[free,:][:,fixed] . self.var[fixed]",
                      f"found blocks {[(au.src(l[1]), au.src(l[2]), x) for l, x in lb_seen][:3]} of `{au.src(lb_seen[0][0][0])[:50]}`", note="boundary term L_IB . var[fixed]")
    # ---- the Laplacian
    lap = LI0[0]
    while isinstance(lap, ast.Call) and isinstance(lap.func, ast.Attribute) and lap.func.attr in ("tocsc", "tocsr", "tolil") and not lap.args:
        lap = lap.func.value
    want_fn = {"faces": "laplacian_triangles", "vertices": "laplacian"}[elem]
    if not (isinstance(lap, ast.Call) and au.call_tail(lap) in ("laplacian_triangles", "laplacian", "laplacian_edges", "graph_laplacian")):
        ctx.undecided("C18-H1", s0site, f"{cls}.optimize: the matrix of the system is not recognised as an operator of mouette.operators", "")
    else:
        kws = {}
        names = ["mesh", "cotan", "connection", "order"]
        for i, a in enumerate(lap.args):
            if i < len(names):
                kws[names[i]] = a
        for k in lap.keywords:
            kws[k.arg] = k.value
        ok_kw = au.call_tail(lap) == want_fn and au.src(kws.get("mesh")) == "self.mesh" and au.is_self_attr(kws.get("connection"), "conn") \
            and au.is_self_attr(kws.get("order"), "order") and au.is_self_attr(kws.get("cotan"), "use_cotan")
        want_attr = {"connection": "conn", "order": "order", "cotan": "use_cotan"}
        clearly_bad = au.call_tail(lap) != want_fn or any(
            kws.get(k) is None or isinstance(kws.get(k), ast.Constant) or (au.is_self_attr(kws.get(k)) and not au.is_self_attr(kws.get(k), a))
            for k, a in want_attr.items())
        if not ok_kw and not clearly_bad:
            ctx.undecided("C18-H1", s0site, f"{cls}.optimize: an argument of the Laplacian of the system is not recognised", f"`{au.src(lap)[:100]}`")
        else:
          ctx.check(ok_kw, "C18-H1", s0site,
                  f"{cls}.optimize: the matrix is not operators.{want_fn}(self.mesh, cotan=self.use_cotan, connection=self.conn, order=self.order)",
                  f"found `{au.src(lap)[:120]}`: the field of order n is harmonic for the connection Laplacian of order n "
                  "(the default order 4 is wrong for every other order)", note=f"{want_fn}(connection=self.conn, order=self.order)")
    # ---- F1: the partition
    if fixed is None:
        ctx.undecided("C18-F1", site, f"{cls}.optimize: the list of constrained (fixed) elements is not recognised", "")
        return
    all_ids = {"faces": ("self.mesh.id_faces", "self.mesh.faces"), "vertices": ("self.mesh.id_vertices", "self.mesh.vertices")}[elem]
    marks = {"name": None}

    def atom(x, boolean):
        if elem == "vertices" and isinstance(x, ast.Compare) and len(x.ops) == 1 and isinstance(x.ops[0], (ast.In, ast.NotIn)) \
                and isinstance(x.left, ast.Name) and au.src(x.comparators[0]) == "self.feat.feature_vertices":
            n = H.name("constrained")
            return n if isinstance(x.ops[0], ast.In) else ast.UnaryOp(op=ast.Not(), operand=n)
        if elem == "vertices" and isinstance(x, ast.Call) and au.call_tail(x) == "is_vertex_on_border" and len(x.args) == 1:
            return H.name("on_the_border")
        if elem == "vertices" and isinstance(x, ast.Compare) and len(x.ops) == 1 and isinstance(x.ops[0], (ast.In, ast.NotIn)) \
                and isinstance(x.left, ast.Name) and au.src(x.comparators[0]) in ("self.mesh.boundary_vertices", "self.mesh.interior_vertices"):
            n = H.name("on_the_border")
            pos = isinstance(x.ops[0], ast.In) == (au.src(x.comparators[0]) == "self.mesh.boundary_vertices")
            return n if pos else ast.UnaryOp(op=ast.Not(), operand=n)
        if elem == "faces" and boolean and isinstance(x, ast.Subscript) and isinstance(x.value, ast.Name) and isinstance(x.slice, ast.Name):
            if marks["name"] in (None, x.value.id):
                marks["name"] = x.value.id
                return H.name("constrained")
        if elem == "faces" and isinstance(x, ast.Compare) and len(x.ops) == 1 and isinstance(x.ops[0], (ast.In, ast.NotIn)) \
                and isinstance(x.left, ast.Name) and isinstance(x.comparators[0], ast.Name):
            if marks["name"] in (None, x.comparators[0].id):
                marks["name"] = x.comparators[0].id
                n = H.name("constrained")
                return n if isinstance(x.ops[0], ast.In) else ast.UnaryOp(op=ast.Not(), operand=n)
        return None
    part_ok = True
    for lst, spec in ((free, "not constrained"), (fixed, "constrained")):
        apps = [c for c in au.calls(fn) if au.call_tail(c) == "append" and isinstance(c.func, ast.Attribute) and H.is_name(c.func.value, lst) and len(c.args) == 1]
        d = S.value(lst, au.enclosing_stmt(c0))
        other_refs = [n for n in au.walk(fn) if isinstance(n, ast.Name) and n.id == lst and isinstance(n.ctx, ast.Load)
                      and not isinstance(au.parent(n), (ast.Subscript, ast.Tuple, ast.Assign))
                      and not (isinstance(au.parent(n), ast.Call) and au.call_tail(au.parent(n)) == "len")
                      and not (isinstance(au.parent(n), ast.Slice))]
        if not apps and d is not None and H.is_empty_container(d) == "list" and other_refs:
            ctx.undecided("C18-F1", site, f"{cls}.optimize: the filling of the {'free' if lst == free else 'fixed'} index list is not recognised", "")
            part_ok = False
            continue
        if not apps and d is not None and H.is_empty_container(d) == "list":
            ctx.fail("C18-F1", s0site, f"{cls}.optimize: the {'free' if lst == free else 'fixed'} index list is never filled",
                     "constrained elements must be kept out of the unknowns and every other element solved for")
            part_ok = False
            continue
        if not apps or d is None or H.is_empty_container(d) != "list" or len({id((H.for_ancestors(c, stop=fn) or [None])[0]) for c in apps}) != 1:
            ctx.undecided("C18-F1", site, f"{cls}.optimize: the filling of the {'free' if lst == free else 'fixed'} index list is not recognised", "")
            part_ok = False
            continue
        a = apps[0]
        lps = H.for_ancestors(a, stop=fn)
        if len(lps) != 1:
            ctx.undecided("C18-F1", ctx.site(mod, fn0, a), f"{cls}.optimize: an index list is not filled in a single loop over the elements", "")
            part_ok = False
            continue
        elem_t, idx, seq, start = H.loop_elem(lps[0])
        seqc = S.canon(seq, lps[0])
        x = elem_t.id if isinstance(elem_t, ast.Name) and idx is None else None
        dom_ok = x is not None and (au.src(seqc) == all_ids[0] or H.is_range_len(seqc, all_ids[1])) and all(H.is_name(c.args[0], x) for c in apps)
        loop_names = {x} if x else set()
        if idx is not None and au.const(start) == 0 and au.src(seqc) == all_ids[1] and all(H.is_name(c.args[0], idx) for c in apps):
            # for T, face in enumerate(self.mesh.faces): the index ranges over all elements
            x, dom_ok = idx, True
            loop_names = {idx} | {n.id for n in ast.walk(elem_t) if isinstance(n, ast.Name)}
        if x is not None and au.src(seqc) in ("self.mesh.interior_vertices", "self.mesh.boundary_vertices", "self.feat.feature_vertices",
                                             "self.mesh.interior_faces", "self.mesh.boundary_faces"):
            ctx.fail("C18-F1", ctx.site(mod, fn0, lps[0]), f"{cls}.optimize: the partition does not classify every element of {all_ids[0]}",
                     f"the loop ranges over `{au.src(seqc)}`: an unclassified element is neither solved for nor kept")
            part_ok = False
            continue
        if not dom_ok:
            ctx.undecided("C18-F1", ctx.site(mod, fn0, lps[0]), f"{cls}.optimize: an index list is not filled from a loop over all {elem}", f"found `{au.src(seqc)[:60]}`")
            part_ok = False
            continue
        vertex_based = []

        def atom_v(x_, boolean, _lp=lps[0], _names=loop_names):
            r = atom(x_, boolean)
            if r is None and elem == "faces" and boolean:
                xc = S.canon(x_, _at[0], keep=tuple(sorted(_names)))
                if _from_vertices_only(xc, _names):
                    vertex_based.append(xc)
                    return H.name("constrained")
            return r
        ab = H.Abs(atom_v)
        alts = []
        _at = [None]
        for c in apps:
            _at[0] = au.enclosing_stmt(c)
            alts.append(ab.boolean(H.conj(H.alias_conds(S, c, stop=lps[0]))))
        if vertex_based:
            ctx.fail("C18-F1", ctx.site(mod, fn0, a), f"{cls}.optimize: a face is declared constrained from the feature status of its vertices, not from having a feature edge",
                     f"`{au.src(vertex_based[0])[:90]}`: a triangle whose vertices lie on feature / border curves without any of its edges being a feature edge "
                     "(a chord) carries no constraint: it is kept out of the unknowns at a value that was never set, and pollutes the boundary term")
            part_ok = False
            continue
        code = alts[0] if len(alts) == 1 else ast.BoolOp(op=ast.Or(), values=alts)
        if ab.unknown:
            ctx.undecided("C18-F1", ctx.site(mod, fn0, a), f"{cls}.optimize: the predicate of the free/fixed partition is not recognised", f"{ab.unknown}")
            part_ok = False
            continue
        wit, n = H.compare(code, spec)
        ok = ctx.check(wit is None, "C18-F1", ctx.site(mod, fn0, a),
                       f"{cls}.optimize: the {'free' if lst == free else 'fixed'} list does not receive exactly the {'un' if lst == free else ''}constrained elements",
                       f"an element enters the list when `{au.src(code)}`: constrained elements must be kept out of the unknowns and every other element solved for",
                       note=f"{'free' if lst == free else 'fixed'} <=> {spec}")
        part_ok = part_ok and ok
        # no later modification of the list
        later = [c for c in au.calls(fn) if isinstance(c.func, ast.Attribute) and H.is_name(c.func.value, lst)
                 and c.func.attr in ("extend", "pop", "remove", "insert", "clear", "sort", "reverse")]
        if later:
            ctx.undecided("C18-F1", ctx.site(mod, fn0, later[0]), f"{cls}.optimize: an index list of the partition is modified after it was filled", "")
    # ---- faces: the marks are exactly the faces on both sides of every feature edge
    if elem == "faces" and part_ok:
        A = marks["name"]
        for _ in range(6):      # follow plain copies  a = b  back to the name the container was created under
            defs = [st_ for st_ in au.stmts(fn.body) if isinstance(st_, ast.Assign) and any(H.is_name(t, A) for t in st_.targets)]
            if len(defs) == 1 and isinstance(defs[0].value, ast.Name):
                A = defs[0].value.id
            else:
                break
        msite = ctx.site(mod, fn0)
        adef = S.value(A, au.enclosing_stmt(c0)) if A else None
        fresh = (isinstance(adef, ast.Call) and au.call_tail(adef) in ("create_attribute", "Attribute", "zeros", "dict", "defaultdict")) \
            or (adef is not None and H.is_empty_container(adef) in ("set", "dict", "attr"))
        sides, bad, unknown, wrong_dom, wrong_guard, one_of_two = set(), [], [], [], [], []
        mark_sites = [(st, tgt, val) for st, tgt, val in H.subscript_stores(fn, lambda q: H.is_name(q, A))]
        for c in au.calls(fn):
            if au.call_tail(c) == "add" and isinstance(c.func, ast.Attribute) and H.is_name(c.func.value, A) and len(c.args) == 1:
                mark_sites.append((au.enclosing_stmt(c), ast.Subscript(value=c.func.value, slice=c.args[0], ctx=ast.Store()), ast.Constant(value=True)))
        for st, tgt, val in mark_sites:
            if not (isinstance(st, (ast.Assign, ast.Expr)) and au.const(S.canon(val, st)) is True):
                bad.append(st)
                continue
            lps = H.for_ancestors(st, stop=fn)
            fe = next((l for l in lps if au.src(S.canon(H.loop_elem(l)[2], l)) == "self.feat.feature_edges" and isinstance(H.loop_elem(l)[0], ast.Name)
                       and H.loop_elem(l)[1] is None), None)
            if fe is None:
                other = next((l for l in lps if au.src(S.canon(H.loop_elem(l)[2], l)) in ("self.mesh.boundary_edges", "self.mesh.interior_edges", "self.mesh.id_edges")), None)
                if other is not None:
                    wrong_dom.append(au.src(S.canon(H.loop_elem(other)[2], other)))
                else:
                    unknown.append(st)
                continue
            e = fe.target.id
            E0, E1 = f"self.mesh.edges[{e}][0]", f"self.mesh.edges[{e}][1]"
            F1, F2 = f"self.mesh.connectivity.direct_face({E0}, {E1})", f"self.mesh.connectivity.direct_face({E1}, {E0})"
            inner = [l for l in lps if l is not fe]
            key = au.src(S.canon(tgt.slice, st, keep=tuple(H.loop_elem(l)[0].id for l in inner if isinstance(H.loop_elem(l)[0], ast.Name))))
            conds = S.conds(st, stop=fe)

            def guards_not_none(which):
                ok = False
                for t, p in conds:
                    t2, p2 = au.strip_not(t, p)
                    if isinstance(t2, ast.Compare) and len(t2.ops) == 1 and isinstance(t2.comparators[0], ast.Constant) and t2.comparators[0].value is None \
                            and au.src(t2.left) in which and ((isinstance(t2.ops[0], ast.IsNot) and p2) or (isinstance(t2.ops[0], ast.Is) and not p2)):
                        ok = True
                    else:
                        return False
                return ok
            if key == F1 and guards_not_none((F1,)):
                sides.add(0)
            elif key == F2 and guards_not_none((F2,)):
                sides.add(1)
            elif (key == F1 and guards_not_none((F2,))) or (key == F2 and guards_not_none((F1,))):
                wrong_guard.append(st)
            elif not inner and {au.src(l) for _, l in hj_scope.ifexp_leaves(S.canon(tgt.slice, st))} == {F1, F2}:
                one_of_two.append(st)
            elif len(inner) == 1 and isinstance(inner[0].target, ast.Name) and key == inner[0].target.id:
                ic = S.canon(inner[0].iter, inner[0])
                if isinstance(ic, ast.Call) and au.call_tail(ic) == "edge_to_faces" and {au.src(z) for z in ic.args} == {E0, E1} \
                        and guards_not_none((key,)) and not H.path_condition(inner[0], stop=fe):
                    sides |= {0, 1}
                else:
                    unknown.append(st)
            else:
                unknown.append(st)
        if not mark_sites:
            ctx.undecided("C18-F1", msite, f"{cls}.optimize: the marking of the constrained faces is not recognised", "")
        elif wrong_dom:
            ctx.fail("C18-F1", msite, f"{cls}.optimize: `fixed` does not mark exactly the faces on both sides of every feature edge",
                     f"the marks are set in a loop over `{wrong_dom[0]}` instead of self.feat.feature_edges: every face adjacent to a border / feature edge "
                     "carries a constraint and must be kept fixed")
        elif one_of_two and not sides:
            ctx.fail("C18-F1", ctx.site(mod, fn0, one_of_two[0]), f"{cls}.optimize: `fixed` does not mark exactly the faces on both sides of every feature edge",
                     "one face is chosen per feature edge (the direct one, the other one only when it is missing): an interior feature edge constrains both of its faces")
        elif wrong_guard:
            ctx.fail("C18-F1", ctx.site(mod, fn0, wrong_guard[0]), f"{cls}.optimize: `fixed` does not mark exactly the faces on both sides of every feature edge",
                     "a face is marked under the `is not None` test of the face on the other side of the edge")
        elif not fresh or unknown:
            ctx.undecided("C18-F1", msite, f"{cls}.optimize: the marking of the constrained faces is not recognised", "")
        elif bad:
            ctx.fail("C18-F1", ctx.site(mod, fn0, bad[0]), f"{cls}.optimize: a mark of the constrained faces is not the constant True", "")
        else:
            ctx.check(sides == {0, 1}, "C18-F1", msite, f"{cls}.optimize: `fixed` does not mark exactly the faces on both sides of every feature edge",
                      f"sides of a feature edge that are marked: {sorted(sides)}: every face adjacent to a border / feature edge carries a constraint and must be kept fixed",
                      note="fixed <=> face adjacent to a feature edge (both sides marked)")
    # ---- stores into self.var on the constrained path: every store that is not in a branch excluded by the conditions of the first solve
    here = {(id(t), p) for t, p, _ in H.path_condition(c0, stop=fn)}
    stores = []
    for st, k, idx in _var_stores(fn.body):
        there = {(id(t), p) for t, p, _ in H.path_condition(st, stop=fn)}
        if any((i, not p) in here for i, p in there):
            continue
        stores.append((st, k, idx))
    if not stores:
        ctx.undecided("C18-F1", s0site, f"{cls}.optimize: no store into self.var on the constrained path is recognised", "")
    for st, k, idx in stores:
        idx_c = S.canon(idx, st, keep=keep) if idx is not None and not isinstance(idx, ast.Slice) else idx
        ok = k == "index" and H.is_name(idx_c, free)
        whole = k == "rebind" or (k == "index" and isinstance(idx, ast.Slice) and idx.lower is None and idx.upper is None)
        if not ok and not whole and not (k == "index" and isinstance(idx_c, ast.Name) and idx_c.id in acc):
            ctx.undecided("C18-F1", ctx.site(mod, fn0, st), f"{cls}.optimize: the index of a store into self.var on the constrained path is not recognised", "")
            continue
        ctx.check(ok, "C18-F1", ctx.site(mod, fn0, st),
                  f"{cls}.optimize: a store into self.var on the constrained path is not indexed by the free list",
                  f"`{au.src(st)[:80]}` overwrites constrained elements: the field must leave every constrained element at its constraint",
                  note="self.var[free] = ...")


def _exact_float_test(t):
    """the test compares self.var[...] with a computed (non constant) floating value exactly: `self.var[k] ==/!= <expr>`,
    or `abs(self.var[k] +/- <expr>)` against the constant 0.  Returns a description or None"""
    def reads_var(e):
        return any(isinstance(n, ast.Subscript) and au.is_self_attr(n.value, "var") for n in ast.walk(e))

    def computed(e):
        return not isinstance(e, ast.Constant) and not (isinstance(e, ast.UnaryOp) and isinstance(e.operand, ast.Constant)) \
            and any(isinstance(n, (ast.Call, ast.BinOp)) for n in ast.walk(e))
    if not (isinstance(t, ast.Compare) and len(t.ops) == 1):
        return None
    L, R, op = t.left, t.comparators[0], t.ops[0]
    if isinstance(op, (ast.Eq, ast.NotEq)):
        for a_, b_ in ((L, R), (R, L)):
            if isinstance(a_, ast.Subscript) and au.is_self_attr(a_.value, "var") and computed(b_):
                return "equality of complex floating-point numbers"
    for a_, b_, strict in ((L, R, isinstance(op, (ast.Gt, ast.NotEq, ast.Eq, ast.LtE))), (R, L, isinstance(op, (ast.Lt, ast.NotEq, ast.Eq, ast.GtE)))):
        if strict and isinstance(a_, ast.Call) and au.call_tail(a_) in ("abs", "absolute", "norm") and len(a_.args) == 1 and au.const(b_) in (0, 0.0) \
                and au.const(b_) is not False and isinstance(a_.args[0], ast.BinOp) and isinstance(a_.args[0].op, (ast.Add, ast.Sub)) and reads_var(a_.args[0]):
            return "modulus of a sum compared with exactly 0"
    return None


def _from_vertices_only(xc, loop_names):
    """the (canonical) predicate over a face reads the feature / border status of vertices and nothing about edges:
    no function of the vertex statuses of a triangle decides whether one of its edges is a feature edge"""
    text = au.src(xc)
    if not any(k in text for k in ("feature_vertices", "boundary_vertices", "is_vertex_on_border", "interior_vertices")):
        return False
    if any(k in text for k in ("edge", "direct_face", "opposite", "corner", "half")):
        return False
    bound = set(loop_names)
    for n in ast.walk(xc):
        if isinstance(n, ast.comprehension):
            bound |= {m.id for m in ast.walk(n.target) if isinstance(m, ast.Name)}
        elif isinstance(n, ast.Lambda):
            bound |= {a_.arg for a_ in n.args.args}
    free_names = {n.id for n in ast.walk(xc) if isinstance(n, ast.Name)} - bound
    return free_names <= {"self", "sum", "len", "any", "all", "int", "bool", "np", "set", "list", "tuple", "sorted", "min", "max"}


# ------------------------------------------------------------------------------ C18-N1
def _writes_var(node):
    if isinstance(node, (ast.Assign, ast.AugAssign, ast.AnnAssign)):
        for t in au.assign_targets(node):
            for x in ast.walk(t):
                if au.is_self_attr(x, "var") and isinstance(x.ctx, ast.Store):
                    return True
                if isinstance(x, ast.Subscript) and isinstance(x.ctx, ast.Store) and au.is_self_attr(x.value, "var"):
                    return True
    return False


def _clean_flow(ctx, mod, cls_qual, fn, depth=0, init=("clean",)):
    """must-fact `clean`: self.var has unit modulus entries (normalize() was applied after the last write)"""
    mod_o = ctx.repo.module(mod)
    methods = ctx.repo.methods(mod_o, ctx.repo.cls(mod, cls_qual))

    def helper(call):
        """effect of self.m(): 'gen' / 'kill' / None"""
        if not (isinstance(call.func, ast.Attribute) and au.is_self_attr(call.func)):
            return None
        name = call.func.attr
        if name == "normalize":
            return "gen"
        if depth >= 2 or name not in methods:
            return None
        m, f, o = methods[name]
        touches = any(_writes_var(n) for n in au.walk(f)) or any(au.call_tail(c) == "normalize" for c in au.calls(f))
        if not touches:
            return None
        fl = _clean_flow(ctx, m.name, o._qualname, f, depth + 1, init=())
        exits = [s for k, n, s in fl.exits if k in ("fall", "return")]
        return "gen" if exits and all("clean" in s for s in exits) else "kill"

    def normalises(node):
        """self.var[...] /= abs(self.var[...])   /   self.var = self.var / np.abs(self.var)"""
        if isinstance(node, ast.AugAssign) and isinstance(node.op, ast.Div):
            t, v = node.target, node.value
        elif isinstance(node, ast.Assign) and len(node.targets) == 1 and isinstance(node.value, ast.BinOp) and isinstance(node.value.op, ast.Div) \
                and au.src(node.value.left) == au.src(node.targets[0]):
            t, v = node.targets[0], node.value.right
        else:
            return False
        base = t.value if isinstance(t, ast.Subscript) else t
        return au.is_self_attr(base, "var") and isinstance(v, ast.Call) and au.call_tail(v) in ("abs", "absolute") and len(v.args) == 1 \
            and au.src(v.args[0]) == au.src(t)

    def gen_kill(node):
        g, k = set(), set()
        if normalises(node):
            return {"clean"}, set()
        if _writes_var(node):
            k.add("clean")
        for c in au.calls(node):
            h = helper(c)
            if h == "gen" and isinstance(node, ast.Expr) and node.value is c:
                g.add("clean")
                k.discard("clean")
            elif h == "kill":
                k.add("clean")
        return g, k

    return H.must_flow(fn.body, gen_kill, init=init)


def _normalize_eval(ctx):
    """abstract evaluation of FrameField.normalize on a five-entry vector -> list of problems"""
    data = [3 + 4j, 0j, -2j, 0.5 + 0j, -1.5 + 2j, 1e-14 + 0j, 3e-6 - 4e-6j, 2e-9j]

    def hook(path):
        if path == "self.var":
            return E.Arr(list(data))
        if path.startswith("self.") and path.count(".") == 1:
            for cmod, ccls in ((FACES, "FrameField2DFaces"), (VERTS, "FrameField2DVertices")):
                d = hj_scope.attr_default(ctx.repo, cmod, ccls, path[5:])
                if isinstance(d, ast.Constant):
                    return d.value
        return E.MISSING
    selfo = E.Obj("self", hook)
    it = E.Interp(ctx.repo, FBASE, obj_hook=hook, obj_class={"self": (FBASE, "FrameField")})
    it.call_function(ctx.repo.func(FBASE, "FrameField.normalize"), [selfo])
    out = selfo.get("var")
    if not isinstance(out, E.Arr) or len(out) != len(data):
        raise E.Unsupported("self.var is not a vector of the same length after normalize()")
    problems = []
    for i, (a, b) in enumerate(zip(data, out.d)):
        if not isinstance(b, (int, float, complex)) or b != b:
            problems.append(f"entry {i} becomes {b!r}")
        elif abs(a) > 1e-9:
            want = a / abs(a)
            if abs(complex(b) - want) > 1e-9:
                problems.append(f"entry {a} becomes {complex(b):.4g} instead of {want:.4g}")
    # a field that was never initialised
    selfn = E.Obj("self", lambda p: None if p == "self.var" else E.MISSING)
    it.call_function(ctx.repo.func(FBASE, "FrameField.normalize"), [selfn])
    return problems


def n1_normalize(ctx):
    for mod, cls, elem in OPTIMIZERS:
        fn0 = ctx.repo.func(mod, f"{cls}.optimize")
        fn, S, nz = H.norm_fn(ctx, mod, f"{cls}.optimize", keep=("normalize", "log", "warn", "_compute_attach_weight"))
        f = _clean_flow(ctx, mod, cls, fn)
        if not _var_stores(fn.body):
            ctx.undecided("C18-N1", ctx.site(mod, fn0), f"{cls}.optimize: no write to self.var is recognised", "")
            continue
        for kind, node, state in f.exits:
            if kind == "raise":
                continue
            label = "end of the method" if kind == "fall" else "return"
            ctx.check("clean" in state, "C18-N1", ctx.site(mod, fn0, node) if node is not None else ctx.site(mod, fn0),
                      f"{cls}.optimize: a path reaches the {label} with self.var written but not normalised",
                      "the field must have unit modulus on every element: the solution of a linear system / eigenproblem has arbitrary modulus "
                      "until self.normalize() is applied after the last write",
                      note=f"{cls}.optimize: normalize() follows the last write ({label})")
    # ---- normalize itself, evaluated on a small vector
    nfn = ctx.repo.func(FBASE, "FrameField.normalize")
    nsite = ctx.site(FBASE, nfn)
    try:
        problems = _normalize_eval(ctx)
        ctx.check(not problems, "C18-N1", nsite, "FrameField.normalize does not divide every (non-zero) entry of self.var by its modulus",
                  "on the vector [3+4j, 0, -2j, 0.5, -1.5+2j, 1e-14, (3-4j)e-6, 2e-9j]: " + "; ".join(problems[:3]) + ": normalize() is the only place where unit modulus is established; "
                  "entries may only be skipped when their modulus is (numerically) zero",
                  note="normalize: every non-zero entry ends with modulus 1 and its phase (evaluated on 6 entries)")
    except (E.Unsupported, RecursionError) as ex:
        ctx.undecided("C18-N1", nsite, "FrameField.normalize cannot be evaluated", f"abstract evaluation stops at: {ex}")
    except E.Raised as ex:
        ctx.fail("C18-N1", nsite, "FrameField.normalize raises on a vector that contains a zero entry / on an uninitialised field", str(ex))
    # ---- vertex constraint initialisation ends with a normalisation of the accumulated constraints
    fn0 = ctx.repo.func(VERTS, "_BaseFrameField2DVertices._initialize_variables")
    site = ctx.site(VERTS, fn0)
    fn, S, nz = H.norm_fn(ctx, VERTS, "_BaseFrameField2DVertices._initialize_variables", keep=("normalize",))
    accs = [st for st in au.stmts(fn.body) if isinstance(st, ast.AugAssign) and isinstance(st.op, ast.Add) and isinstance(st.target, ast.Subscript)
            and au.is_self_attr(st.target.value, "var")] + \
           [st for st in au.stmts(fn.body) if isinstance(st, ast.Assign) and au.increment(st) is not None and isinstance(st.targets[0], ast.Subscript)
            and au.is_self_attr(st.targets[0].value, "var")]
    if not accs:
        ctx.undecided("C18-N1", site, "_initialize_variables (vertices): the accumulation of the edge constraints into self.var is not recognised", "")
        return
    # ---- a guard of an accumulation that compares the accumulated value with the new contribution must do so up to a threshold
    for a in accs:
        for t, pol in S.conds(a, stop=fn):
            t2, _ = au.strip_not(t, pol)
            ex = _exact_float_test(S.canon(t2, a))
            if ex:
                ctx.fail("C18-N1", ctx.site(VERTS, fn0, a), "_initialize_variables (vertices): the guard against two cancelling contributions is an exact floating-point comparison",
                         f"`{au.src(t2)[:70]}` ({ex}): two opposite representations of a corner cancel only up to round-off, so the second one is let through, the "
                         "constraint is left with modulus ~1e-16, is skipped by the normalisation and stays a (zero) fixed value; the test has to be a modulus against a threshold")
                break
    last_top = max(H.block_pos(H.top_stmt_in(fn.body, a)) for a in accs)
    norm_found = None
    for s in fn.body[last_top + 1:]:
        if isinstance(s, ast.Expr) and isinstance(s.value, ast.Call) and au.is_self_attr(s.value.func, "normalize"):
            norm_found = "call"
        if isinstance(s, ast.For):
            elem_t, idx, seq, start = H.loop_elem(s)
            x = elem_t.id if isinstance(elem_t, ast.Name) else None
            sc = au.src(S.canon(seq, s))
            for q in au.stmts(s.body):
                tgt = q.target if isinstance(q, ast.AugAssign) else (q.targets[0] if isinstance(q, ast.Assign) and len(q.targets) == 1 else None)
                if tgt is None or not (isinstance(tgt, ast.Subscript) and au.is_self_attr(tgt.value, "var") and H.is_name(tgt.slice, x)):
                    continue
                div = None
                if isinstance(q, ast.AugAssign) and isinstance(q.op, ast.Div):
                    div = q.value
                elif isinstance(q, ast.Assign) and isinstance(q.value, ast.BinOp) and isinstance(q.value.op, ast.Div) and au.src(q.value.left) == au.src(tgt):
                    div = q.value.right
                if div is not None and au.src(S.canon(div, q, keep=(x,))) in (f"abs(self.var[{x}])", f"np.abs(self.var[{x}])"):
                    if sc in ("self.feat.feature_vertices", "self.mesh.id_vertices") or H.is_range_len(S.canon(seq, s), "self.mesh.vertices") \
                            or sc in ("range(self.var.size)", "range(len(self.var))"):
                        norm_found = "loop"
    if norm_found:
        ctx.ok("C18-N1", site, "vertex constraints normalised after the accumulation")
    else:
        later_calls = [c for s in fn.body[last_top + 1:] for c in au.calls(s)]
        later_writes = [s for s in fn.body[last_top + 1:] if _var_stores([s])]
        # a caller may normalise right after the initialisation (initialize(): _initialize_variables(); normalize())
        caller_norm = False
        m = ctx.repo.module(VERTS)
        for q, f in m.funcs.items():
            cs = [c for c in au.calls(f) if au.is_self_attr(c.func, "_initialize_variables")]
            for c in cs:
                st0 = H.top_stmt_in(f.body, c)
                if st0 is not None and any(au.is_self_attr(c2.func, "normalize") for s2 in f.body[H.block_pos(st0) + 1:] for c2 in au.calls(s2)):
                    caller_norm = True
        if caller_norm:
            ctx.undecided("C18-N1", site, "_initialize_variables (vertices): the constraints are normalised by a caller, not at the end of the initialisation", "")
        elif not later_calls and not later_writes:
            ctx.fail("C18-N1", site, "_initialize_variables (vertices): the accumulated constraints are not normalised per feature vertex at the end",
                     "a vertex with two feature edges accumulates two unit numbers; the constraint must be brought back to unit modulus before it "
                     "enters the right-hand side of the linear system")
        else:
            ctx.undecided("C18-N1", site, "_initialize_variables (vertices): the normalisation of the accumulated constraints is not recognised", "")


# ------------------------------------------------------------------------------ C18-P1
def _tr_key(t):
    """(x, y) sources if t is <...>._transport[(x, y)]"""
    if isinstance(t, ast.Subscript) and isinstance(t.value, ast.Attribute) and t.value.attr == "_transport" \
            and isinstance(t.slice, ast.Tuple) and len(t.slice.elts) == 2:
        return au.src(t.slice.elts[0]), au.src(t.slice.elts[1])
    return None


def _pairing(ctx, mod, qual):
    fn0 = ctx.repo.func(mod, qual)
    site = ctx.site(mod, fn0)
    fn, S, nz = H.norm_fn(ctx, mod, qual, unroll=False)
    stores = []   # (stmt, key, delta-kind, value)
    for st in au.stmts(fn.body):
        if isinstance(st, ast.Assign) and len(st.targets) == 1 and _tr_key(st.targets[0]):
            stores.append((st, _tr_key(st.targets[0]), "set", st.value))
        elif isinstance(st, ast.AugAssign) and _tr_key(st.target) and isinstance(st.op, (ast.Add, ast.Sub)):
            v = st.value if isinstance(st.op, ast.Add) else ast.UnaryOp(op=ast.USub(), operand=st.value)
            stores.append((st, _tr_key(st.target), "delta", v))
    if not stores:
        ctx.undecided("C18-P1", site, f"{qual}: the stores into the transport table are not recognised", f"after inlining {sorted(set(nz.inlined))}")
        return
    key_names = tuple(sorted({n.id for st_, k_, kind_, v_ in stores for t_ in au.assign_targets(st_) for n in ast.walk(t_.slice) if isinstance(n, ast.Name)}))

    def value_poly(st, v, depth=0):
        """polynomial of the stored value; reads of _transport[(a,b)] stored earlier in the same block are replaced by that value"""
        blk, _ = au.enclosing_block(st)
        env_reads = {}
        for s2, k2, kind2, v2 in stores:
            b2, _ = au.enclosing_block(s2)
            if b2 is blk and kind2 == "set" and H.block_pos(s2) < H.block_pos(st):
                env_reads[k2] = (s2, v2)
        rv = S.canon(v, st, keep=key_names)

        def atom_of(x):
            k = _tr_key(x)
            if k is not None and k in env_reads and depth < 4:
                s2, v2 = env_reads[k]
                return value_poly(s2, v2, depth + 1)
            return None
        return _poly_with(rv, atom_of)

    for st, key, kind, v in stores:
        x, y = key
        ssite = ctx.site(mod, fn0, st)
        partner = [(s2, v2) for s2, k2, kind2, v2 in stores if k2 == (y, x) and kind2 == kind and H.in_same_block(s2, st)]
        if x == y:
            ctx.undecided("C18-P1", ssite, f"{qual}: a store into the transport table has twice the same element as key", "")
            continue
        if len(partner) != 1:
            # a loop that visits every ordered pair (both orientations) needs no partner in the block: not decided here
            anywhere = [1 for s2, k2, kind2, v2 in stores if k2 == (y, x)]
            lps_ = H.for_ancestors(st, stop=fn)
            undirected = bool(lps_) and any(au.src(S.canon(H.loop_elem(l)[2], l)) in ("self.mesh.interior_edges", "self.mesh.edges", "self.mesh.id_edges",
                                                                                    "self.mesh.boundary_edges", "self.feat.feature_edges") for l in lps_)
            if anywhere or len(partner) > 1 or not undirected:
                ctx.undecided("C18-P1", ssite, f"{qual}: the partner of a store into the transport table is not in the same block", "")
            else:
                ctx.fail("C18-P1", ssite, f"{qual}: store into _transport[(a,b)] has no partner _transport[(b,a)] in the same block",
                         "parallel transport must be antisymmetric: transport(y, x) = -transport(x, y); otherwise the connection Laplacian is not Hermitian "
                         "and the field depends on the orientation in which an edge is visited")
            continue
        p1 = value_poly(st, v)
        p2 = value_poly(partner[0][0], partner[0][1])
        ctx.check((p1 + p2).is_zero(), "C18-P1", ssite,
                  f"{qual}: the two orientations of a pair stored in the transport table are not opposite",
                  f"values `{au.src(v)[:60]}` and `{au.src(partner[0][1])[:60]}` sum to {p1 + p2!r} instead of 0",
                  note=f"{qual}: tr[(a,b)] = -tr[(b,a)]")


def _face_transport_convention(ctx):
    """transport(T1, T2) = (angle of the common edge in the basis of T1) - (its angle in the basis of T2)"""
    qual = "SurfaceConnectionFaces._initialize"
    fn0 = ctx.repo.func(CONN, qual)
    fn, S, nz = H.norm_fn(ctx, CONN, qual, unroll=False)
    for st in au.stmts(fn.body):
        if not (isinstance(st, ast.Assign) and len(st.targets) == 1 and _tr_key(st.targets[0])):
            continue
        kx, ky = st.targets[0].slice.elts
        if not (isinstance(kx, ast.Name) and isinstance(ky, ast.Name)):
            continue
        v = S.canon(st.value, st, keep=(kx.id, ky.id))
        if not (isinstance(v, ast.BinOp) and isinstance(v.op, ast.Sub)):
            continue
        ln, rn = au.names(v.left), au.names(v.right)
        only = lambda names, a, b: a in names and b not in names
        if not all(isinstance(side, ast.Call) and au.call_tail(side) in ("atan2", "arctan2", "_angle_in_basis", "phase") or isinstance(side, ast.Call)
                   for side in (v.left, v.right)):
            continue
        if only(ln, kx.id, ky.id) and only(rn, ky.id, kx.id):
            ctx.ok("C18-P1", ctx.site(CONN, fn0, st), "face transport (T1,T2) = angle in T1 - angle in T2")
        elif only(ln, ky.id, kx.id) and only(rn, kx.id, ky.id):
            ctx.fail("C18-P1", ctx.site(CONN, fn0, st), f"{qual}: the transport stored for (T1, T2) is the angle in the basis of T2 minus the angle in the basis of T1",
                     "the sign convention of the parallel transport is reversed: transport(T1, T2) is the rotation that brings the basis of T1 onto "
                     "the basis of T2 along their common edge, the Laplacians and the singularity count rely on that orientation")


def p1_transport(ctx):
    H.guarded(ctx, "C18-P1", CONN, "SurfaceConnectionFaces._initialize", _face_transport_convention)
    _pairing(ctx, CONN, "SurfaceConnectionFaces._initialize")
    _pairing(ctx, CONN, "SurfaceConnectionEdges._initialize")
    _pairing(ctx, VERTS, "FrameField2DVertices._modify_parallel_transport")
    # reader
    fn0 = ctx.repo.func(CONN, "SurfaceConnection.transport")
    fn, S, nz = H.norm_fn(ctx, CONN, "SurfaceConnection.transport")
    ps = au.params(fn, skip_self=True)
    rets = [r for r in au.walk(fn) if isinstance(r, ast.Return) and r.value is not None]
    site = ctx.site(CONN, fn0)
    if len(ps) != 2 or len(rets) != 1:
        ctx.undecided("C18-P1", site, "SurfaceConnection.transport(a, b): signature / single return not recognised", "")
        return
    k = _tr_key(S.canon(rets[0].value, rets[0]))
    if k == (ps[0], ps[1]):
        ctx.ok("C18-P1", site, "transport(a,b) = tr[(a,b)]")
    elif k == (ps[1], ps[0]):
        ctx.fail("C18-P1", site, "SurfaceConnection.transport(a, b) does not read self._transport[(a, b)]",
                 "the key is swapped: every transport angle seen by the Laplacians is negated")
    else:
        ctx.undecided("C18-P1", site, "SurfaceConnection.transport(a, b): the value returned is not recognised as a read of the transport table", "")


# ------------------------------------------------------------------------------ C18-E1
def _even_exponent(e):
    """exponent is even for every integer value of its atoms: even literal, or integer polynomial with all coefficients even"""
    p = H.poly(e)
    if not p.t:
        return True
    return all(c.denominator == 1 and int(c) % 2 == 0 for c in p.t.values()) and not any(a.startswith(("1/(", "<")) for a in p.atoms())


def _evenness_guarded(node, expo, fn, S=None):
    """the path condition of `node` implies that `expo` is even"""
    want = au.src(S.canon(expo, node) if S is not None else expo)

    def atom(x, boolean):
        if isinstance(x, ast.Compare) and len(x.ops) == 1 and isinstance(x.ops[0], (ast.Eq, ast.NotEq)) \
                and isinstance(x.left, ast.BinOp) and isinstance(x.left.op, ast.Mod) and au.src(x.left.left) == want \
                and au.const(x.left.right) == 2 and au.const(x.comparators[0]) in (0, 1):
            odd = (au.const(x.comparators[0]) == 1) == isinstance(x.ops[0], ast.Eq)
            n = H.name("odd")
            return n if odd else ast.UnaryOp(op=ast.Not(), operand=n)
        if isinstance(x, ast.BinOp) and isinstance(x.op, ast.Mod) and au.src(x.left) == want and au.const(x.right) == 2 and boolean:
            return H.name("odd")
        return None
    ab = H.Abstractor(atom)
    conds = S.conds(node, stop=fn) if S is not None else [(t, p) for t, p, _ in H.path_condition(node, stop=fn)]
    code = ab.boolean(H.conj(conds))
    try:
        wit, _ = H.compare(ast.BoolOp(op=ast.And(), values=[code, H.name("odd")]), "False")
    except order.Unsupported:
        return False
    return wit is None


def e1_even_power(ctx):
    for mod, qual in ((FACES, "_BaseFrameField2DFaces._initialize_variables"), (VERTS, "_BaseFrameField2DVertices._initialize_variables")):
        fn0 = ctx.repo.func(mod, qual)
        site = ctx.site(mod, fn0)
        fn, S, nz = H.norm_fn(ctx, mod, qual, keep=("normalize",), unroll=False)
        # sources: D = <...>.vertices[b] - <...>.vertices[a]   with a, b the endpoints <...>.edges[e][k]

        def endpoint(x, at):
            c = S.canon(x, at)
            return isinstance(c, ast.Subscript) and isinstance(c.value, ast.Subscript) and isinstance(c.value.value, ast.Attribute) \
                and c.value.value.attr == "edges" and au.const(c.slice) in (0, 1)

        def is_source(e, at):
            if isinstance(e, ast.BinOp) and isinstance(e.op, ast.Sub):
                e = S.canon(e, at)
                l, r = e.left, e.right
                if all(isinstance(x, ast.Subscript) and isinstance(x.value, ast.Attribute) and x.value.attr == "vertices" for x in (l, r)):
                    ep = lambda c: isinstance(c, ast.Subscript) and isinstance(c.value, ast.Subscript) and isinstance(c.value.value, ast.Attribute) \
                        and c.value.value.attr == "edges" and au.const(c.slice) in (0, 1)
                    return ep(l.slice) and ep(r.slice)
            return False

        pows = []

        def taint_of(e, tainted, at):
            """does e carry the sign of a stored edge direction (even powers cleanse)"""
            if isinstance(e, ast.BinOp) and isinstance(e.op, ast.Pow):
                if taint_of(e.left, tainted, at):
                    pows.append(e)
                return False
            if isinstance(e, ast.Call) and au.call_tail(e) in ("abs", "norm", "len"):
                for a in e.args:
                    taint_of(a, tainted, at)      # still visit nested powers
                return False
            if is_source(e, at):
                return True
            if isinstance(e, ast.Name):
                return e.id in tainted
            return any(taint_of(c, tainted, at) for c in ast.iter_child_nodes(e) if isinstance(c, ast.expr))

        tainted = set()
        for _ in range(8):
            before = len(tainted)
            for st in au.stmts(fn.body):
                if isinstance(st, ast.Assign):
                    if taint_of(st.value, tainted, st):
                        for t in st.targets:
                            for n in au.assigned_names(t):
                                tainted.add(n)
            if len(tainted) == before:
                break
        var_stores = [st for st, k, idx in _var_stores(fn.body) if k == "index"]
        if not tainted and not any(taint_of(getattr(st, "value", None), tainted, st) for st in var_stores if getattr(st, "value", None) is not None):
            # no edge direction at all: constants stored as constraints are a recognised contradiction
            consts = [st for st in var_stores if isinstance(st, ast.Assign) and H.for_ancestors(st, stop=fn)
                      and isinstance(hj_scope.fold(S.canon(st.value, st)) if not isinstance(S.canon(st.value, st), ast.Call) else _const_complex(S.canon(st.value, st)), (int, float, complex))]
            if consts:
                ctx.fail("C18-E1", ctx.site(mod, fn0, consts[0]), f"{qual}: the constraint stored for a feature element is a constant, not computed from the direction of the edge",
                         "the constrained frame must have a branch tangent to the border / feature edge in the local basis of the element, whatever "
                         "connection (local bases) the field was given")
            else:
                ctx.undecided("C18-E1", site, f"{qual}: the edge direction `vertices[b] - vertices[a]` of a feature edge is not recognised",
                              "the constraint is documented as tangent to the border / feature edge")
            continue
        # a non-zero literal written as a constraint next to the computed ones: the value of a constrained element is fixed
        # without looking at the basis of the connection (it is tangent to the edge only for the connection the class builds itself)
        for st in var_stores:
            if not isinstance(st, ast.Assign) or taint_of(st.value, tainted, st):
                continue
            cv = S.canon(st.value, st)
            k = _const_complex(cv) if isinstance(cv, ast.Call) else hj_scope.fold(cv)
            if not isinstance(k, (int, float, complex)) or isinstance(k, bool) or k == 0:
                continue
            conds = " ".join(au.src(t) for t, _p in S.conds(st, stop=fn))
            if "conn" in conds or "custom" in conds:
                ctx.undecided("C18-E1", ctx.site(mod, fn0, st), f"{qual}: a literal constraint is stored under a condition on the connection", "")
            else:
                ctx.fail("C18-E1", ctx.site(mod, fn0, st), f"{qual}: a constrained element receives the literal `{au.src(st.value)[:30]}` instead of a value computed from the direction of its edge",
                         f"`{au.src(st)[:80]}`: the representation complex of the edge is +-1 only in a basis whose first vector is that edge; with a "
                         "connection given through `custom_connection` (or built from another feature set) the frame is locked on the basis axis, not on the border / feature edge")
        pows.clear()
        leaks = []
        for st in au.stmts(fn.body):
            val = getattr(st, "value", None)
            if val is None or not isinstance(st, (ast.Assign, ast.AugAssign)):
                continue
            t = taint_of(val, tainted, st)
            if t and any(isinstance(x, ast.Subscript) and au.is_self_attr(x.value, "var") for tg in au.assign_targets(st) for x in ast.walk(tg)):
                leaks.append(st)
        for st in leaks:
            ctx.fail("C18-E1", ctx.site(mod, fn0, st), f"{qual}: the stored direction of an edge enters self.var without going through a power",
                     f"`{au.src(st)[:80]}`: reversing the stored orientation of the edge (renumbering its endpoints) negates the constraint")
        seen = set()
        for pw in pows:
            if id(pw) in seen:
                continue
            seen.add(id(pw))
            expo_c = S.canon(pw.right, pw)
            ok = _even_exponent(expo_c) or _evenness_guarded(pw, pw.right, fn, S)
            if not ok and not isinstance(expo_c, (ast.Constant, ast.Attribute)):
                ctx.undecided("C18-E1", ctx.site(mod, fn0, pw), f"{qual}: the exponent applied to the direction of a stored edge is not recognised", "")
                continue
            ctx.check(ok, "C18-E1", ctx.site(mod, fn0, pw),
                      f"{qual}: the direction of a stored edge is raised to a power that can be odd",
                      f"`{au.src(pw)[:80]}`: the edge is stored as (a, b) with an orientation that depends on the vertex numbering; (-c)**k = c**k only for even k, "
                      "so with an odd exponent (odd field order) the constrained frame flips with the numbering.  In the face basis the edge direction is "
                      "+-1, any even literal gives the same constraint for every order",
                      note=f"{qual}: even power of the edge direction")
        if not pows and not leaks:
            ctx.undecided("C18-E1", site, f"{qual}: the way the edge direction enters self.var is not recognised", "")


def _const_complex(e):
    if isinstance(e, ast.Call) and au.call_tail(e) == "complex" and all(hj_scope.fold(a) is not None for a in e.args) and not e.keywords:
        return complex(*[hj_scope.fold(a) for a in e.args])
    if isinstance(e, ast.Call) and au.call_tail(e) == "rect" and len(e.args) == 2 and all(hj_scope.fold(a) is not None for a in e.args):
        return cmath.rect(*[hj_scope.fold(a) for a in e.args])
    return None


# ------------------------------------------------------------------------------ C18-L1
def _conn_atom(x, conn="connection"):
    """+1: x holds iff a connection is given; -1: iff none is given; None: not a test of the connection"""
    if isinstance(x, ast.Name) and x.id == conn:
        return 1
    if isinstance(x, ast.Compare) and len(x.ops) == 1 and isinstance(x.left, ast.Name) and x.left.id == conn \
            and isinstance(x.comparators[0], ast.Constant) and x.comparators[0].value is None:
        if isinstance(x.ops[0], (ast.IsNot, ast.NotEq)):
            return 1
        if isinstance(x.ops[0], (ast.Is, ast.Eq)):
            return -1
    return None


def _conn_env(conds):
    """{True} / {False} / {True, False}: values of `a connection is given` compatible with the conditions; None: a condition
    mixes the connection with something else"""
    envs = {True, False}
    for t, pol in conds:
        t, pol = au.strip_not(t, pol)
        a = _conn_atom(t)
        if a is None:
            if any(isinstance(n, ast.Name) and n.id == "connection" for n in ast.walk(t)):
                return None
            continue
        holds_when_conn = (a == 1) == pol
        envs &= {True} if holds_when_conn else {False}
    return envs


def _split_on_connection(e):
    """[(conds, leaf)] splitting conditional expressions whose test mentions the connection only"""
    if isinstance(e, ast.IfExp) and _conn_atom(au.strip_not(e.test, True)[0]) is not None:
        out = []
        for cs, leaf in _split_on_connection(e.body):
            out.append(([(e.test, True)] + cs, leaf))
        for cs, leaf in _split_on_connection(e.orelse):
            out.append(([(e.test, False)] + cs, leaf))
        return out
    return [([], e)]


def _triplets(fn, arrays):
    """(row, col, value, stmt) emitted into the coordinate arrays, whatever idiom writes them: indexed stores grouped by index
    expression between two advances of the counter, or runs of three appends.  Raises Unrecognised for incomplete groups."""
    rows, cols, vals = arrays
    out = []

    def flush(pend):
        for key, g in pend.items():
            if set(g) == {rows, cols, vals}:
                out.append((g[rows][0], g[cols][0], g[vals][0], g[vals][1]))
            else:
                raise Unrecognised("the (row, column, value) stores of one coefficient are not found together")
        pend.clear()

    def block(stmts):
        pend = {}
        for st in stmts:
            hit = None

            def one_append(body):
                if len(body) == 1 and isinstance(body[0], ast.Expr) and isinstance(body[0].value, ast.Call) and au.call_tail(body[0].value) == "append" \
                        and isinstance(body[0].value.func, ast.Attribute) and isinstance(body[0].value.func.value, ast.Name) \
                        and body[0].value.func.value.id in arrays and len(body[0].value.args) == 1:
                    return body[0].value.func.value.id, body[0].value.args[0]
                return None
            if isinstance(st, ast.If) and one_append(st.body) and one_append(st.orelse) and one_append(st.body)[0] == one_append(st.orelse)[0]:
                hit = (one_append(st.body)[0], "append", ast.IfExp(test=st.test, body=one_append(st.body)[1], orelse=one_append(st.orelse)[1]))
            elif isinstance(st, ast.Assign) and len(st.targets) == 1 and isinstance(st.targets[0], ast.Subscript) \
                    and isinstance(st.targets[0].value, ast.Name) and st.targets[0].value.id in arrays:
                hit = (st.targets[0].value.id, "idx:" + au.src(st.targets[0].slice), st.value)
            elif isinstance(st, ast.Expr) and isinstance(st.value, ast.Call) and au.call_tail(st.value) == "append" and isinstance(st.value.func, ast.Attribute) \
                    and isinstance(st.value.func.value, ast.Name) and st.value.func.value.id in arrays and len(st.value.args) == 1:
                hit = (st.value.func.value.id, "append", st.value.args[0])
            if hit is not None:
                arr, key, v = hit
                if key in pend and arr in pend[key]:
                    flush(pend)
                pend.setdefault(key, {})[arr] = (v, st)
                continue
            inc = au.increment(st)
            if inc is not None or (isinstance(st, ast.Assign) and any(isinstance(t, ast.Name) for t in st.targets)
                                   and any(("idx:" in k) and any(isinstance(n, ast.Name) and n.id in au.assigned_names(st.targets[0]) for n in ast.walk(ast.parse(k[4:], mode="eval")))
                                           for k in pend)):
                flush(pend)
            for owner, fld in ([] if hit is not None else hj_norm_sub_blocks(st)):
                flush(pend)
                block(getattr(owner, fld))
        flush(pend)
    block(fn.body)
    return out


def hj_norm_sub_blocks(st):
    from ..rules.hj_norm import sub_blocks
    return sub_blocks(st)


def _phase_poly(e, order_name):
    """(magnitude Poly, phase Poly) of  m * rect(1, phi) [.conjugate()] ; None if not of that form (e is canonical)"""
    def atom_of(x):
        c = au.chain(x)
        if (c and c[-1] == "pi") or (isinstance(x, ast.Name) and x.id == "pi"):
            return sym.Poly.atom("pi")
        if isinstance(x, ast.Call) and au.call_tail(x) == "transport" and len(x.args) == 2:
            return sym.Poly.atom("t[" + au.src(x.args[0]) + "," + au.src(x.args[1]) + "]")
        return None

    def split(x):
        """-> (list of magnitude factor exprs, phase Poly, sign)"""
        if isinstance(x, ast.UnaryOp) and isinstance(x.op, ast.USub):
            r = split(x.operand)
            return None if r is None else (r[0], r[1], -r[2])
        if isinstance(x, ast.BinOp) and isinstance(x.op, ast.Mult):
            l, r = split(x.left), split(x.right)
            if l is None or r is None:
                return None
            return l[0] + r[0], l[1] + r[1], l[2] * r[2]
        if isinstance(x, ast.Call) and au.call_tail(x) in ("conjugate", "conj") and isinstance(x.func, ast.Attribute) and not x.args:
            r = split(x.func.value)
            return None if r is None or r[0] else ([], -r[1], r[2])
        if isinstance(x, ast.Call) and au.call_tail(x) == "rect" and len(x.args) == 2:
            if au.const(x.args[0]) not in (1, 1.0):
                return None
            return [], _phase_atoms(x.args[1], atom_of), 1
        if isinstance(x, ast.Call) and au.call_tail(x) == "exp" and len(x.args) == 1:
            # exp(1j * phi)
            a = x.args[0]
            if isinstance(a, ast.BinOp) and isinstance(a.op, ast.Mult):
                for u, w in ((a.left, a.right), (a.right, a.left)):
                    if isinstance(u, ast.Constant) and u.value == 1j:
                        return [], _phase_atoms(w, atom_of), 1
            return None
        return [x], sym.Poly(), 1
    r = split(e)
    if r is None:
        return None
    mag = sym.Poly.const(r[2])
    for f in r[0]:
        mag = mag * _phase_atoms(f, atom_of)
    return mag, r[1]


def _phase_atoms(e, atom_of):
    def hook(x):
        a = atom_of(x)
        if a is not None:
            return a
        if isinstance(x, ast.Constant) and isinstance(x.value, (int, float)) and not isinstance(x.value, bool):
            return sym.Poly.const(Fraction(x.value).limit_denominator(10 ** 9))
        return None
    # pi must stay symbolic here: do not fold it
    def rec(x):
        a = hook(x)
        if a is not None:
            return a
        if isinstance(x, ast.Name):
            return sym.Poly.atom(x.id)
        if isinstance(x, ast.UnaryOp) and isinstance(x.op, ast.USub):
            return -rec(x.operand)
        if isinstance(x, ast.UnaryOp) and isinstance(x.op, ast.UAdd):
            return rec(x.operand)
        if isinstance(x, ast.BinOp):
            if isinstance(x.op, ast.Add):
                return rec(x.left) + rec(x.right)
            if isinstance(x.op, ast.Sub):
                return rec(x.left) - rec(x.right)
            if isinstance(x.op, ast.Mult):
                return rec(x.left) * rec(x.right)
            if isinstance(x.op, ast.Div):
                r = rec(x.right)
                if r.is_const() and r.const_value() != 0:
                    return rec(x.left).scale(1 / r.const_value())
        return sym.Poly.atom("<" + au.src(x) + ">")
    return rec(e)


def _is_period(p, order_name):
    """p == k * 2*pi*order for an integer k (including 0)"""
    if p.is_zero():
        return True
    if len(p.t) != 1:
        return False
    (mono, c), = p.t.items()
    return sorted(mono) == sorted((order_name, "pi")) and c.denominator == 1 and int(c) % 2 == 0


def _subst_atom(p, atom, repl):
    out = sym.Poly()
    for mono, c in p.t.items():
        term = sym.Poly.const(c)
        for a in mono:
            term = term * (repl if a == atom else sym.Poly.atom(a))
        out = out + term
    return out


def _entries_by_env(ctx, fn, S, raw, keep):
    """raw: [(row expr, col expr, value expr, stmt)] -> {True: {(r, c): (value, stmt)}, False: {...}}; raises Unrecognised"""
    out = {True: {}, False: {}}
    for r, c, v, st in raw:
        rc, cc = au.src(S.canon(r, st, keep=keep)), au.src(S.canon(c, st, keep=keep))
        if rc == cc:
            continue          # diagonal coefficients accumulate (several per row): only the off-diagonal ones are compared
        base = H.inner_conds(S, st, fn, keep=keep)
        for cs, leaf in _split_on_connection(S.canon(v, st, keep=keep)):
            envs = _conn_env(base + cs)
            if envs is None:
                raise Unrecognised("a coefficient is emitted under a condition that mixes the connection with another test")
            for env in envs:
                if (rc, cc) in out[env]:
                    raise Unrecognised("a coefficient is emitted twice for the same (row, column) in one case")
                out[env][(rc, cc)] = (leaf, st)
    return out


def l1_flat_reduction(ctx):
    _l1_laplacian(ctx)
    _l1_triangles(ctx)


def _l1_laplacian(ctx):
    fn0 = ctx.repo.func(LAPM, "laplacian")
    site = ctx.site(LAPM, fn0)
    fn, S, nz = H.norm_fn(ctx, LAPM, "laplacian")
    ps = au.params(fn)
    if "order" not in ps or "connection" not in ps:
        ctx.undecided("C18-L1", site, "laplacian: parameters `connection` / `order` not recognised", "")
        return
    arrays = None
    for c in au.calls(fn):
        if au.call_tail(c) in ("csc_matrix", "csr_matrix", "coo_matrix") and c.args and isinstance(c.args[0], ast.Tuple) \
                and len(c.args[0].elts) == 2 and isinstance(c.args[0].elts[1], ast.Tuple) and len(c.args[0].elts[1].elts) == 2 \
                and all(isinstance(x, ast.Name) for x in [c.args[0].elts[0]] + c.args[0].elts[1].elts):
            arrays = (c.args[0].elts[1].elts[0].id, c.args[0].elts[1].elts[1].id, c.args[0].elts[0].id)
    if arrays is None:
        ctx.undecided("C18-L1", site, "laplacian: the assembly of the sparse matrix from (values, (rows, columns)) is not recognised", "")
        return
    loopvars = tuple(sorted({n for l in au.walk(fn) if isinstance(l, ast.For) for n in au.assigned_names(l.target)}))
    try:
        raw = _triplets(fn, arrays)
        ent = _entries_by_env(ctx, fn, S, raw, loopvars)
    except Unrecognised as u:
        ctx.undecided("C18-L1", site, "laplacian: " + u.construct, u.what)
        return
    conn = {k: v for k, v in ent[True].items() if k[0] != k[1]}
    scal = {k: v for k, v in ent[False].items() if k[0] != k[1]}
    if not conn or not scal:
        ctx.undecided("C18-L1", site, "laplacian: the off-diagonal coefficients of the connection / scalar case are not recognised", "")
        return
    pp = {}
    for key, (v, st) in conn.items():
        esite = ctx.site(LAPM, fn0, st)
        r = _phase_poly(v, "order")
        if r is None:
            ctx.undecided("C18-L1", esite, "laplacian: a coefficient of the connection case is not of the form magnitude * rect(1, phase)", f"found `{au.src(v)[:80]}`")
            continue
        pp[key] = (r, st)
        mag, ph = r
        if key not in scal:
            ctx.undecided("C18-L1", esite, "laplacian: a coefficient of the connection case has no counterpart in the scalar case", "")
            continue
        smag = _phase_poly(scal[key][0], "order")
        ctx.check(smag is not None and smag[1].is_zero() and mag == smag[0], "C18-L1", esite,
                  "laplacian: magnitude of an off-diagonal connection coefficient differs from the scalar case",
                  f"connection: {mag!r}, scalar: {smag[0] if smag else None!r}; for a flat connection the operator must be the scalar Laplacian",
                  note="magnitude as in the scalar case")
        tij, tji = f"t[{key[0]},{key[1]}]", f"t[{key[1]},{key[0]}]"
        okf, res = True, []
        for sgn in (1, -1):
            q = _subst_atom(ph, tji, sym.Poly.atom(tij) + sym.Poly.atom("pi").scale(sgn))
            res.append(repr(q))
            okf = okf and _is_period(q, "order")
        ctx.check(okf, "C18-L1", esite,
                  "laplacian: the phase of an off-diagonal coefficient does not vanish (mod 2*pi*order) for a flat connection",
                  f"phase {ph!r}; with transport(j,i) = transport(i,j) +- pi (opposite directions of one edge in a common basis) it becomes "
                  f"{res[0]} / {res[1]}, which is not a multiple of 2*pi*order for odd orders: the sign of the off-diagonal entries flips",
                  note="phase = 0 mod 2*pi*order for a flat connection")
    for (r, c), ((mag, ph), st) in pp.items():
        if (c, r) not in pp:
            if (c, r) in conn:
                continue
            ctx.undecided("C18-L1", ctx.site(LAPM, fn0, st), "laplacian: the transposed of an off-diagonal coefficient of the connection case is not recognised", "")
            continue
        if (r, c) < (c, r):
            tot = ph + pp[(c, r)][0][1]
            ctx.check(_is_period(tot, "order") and mag == pp[(c, r)][0][0], "C18-L1", ctx.site(LAPM, fn0, st),
                      "laplacian: a coefficient of the connection case and its transposed are not conjugate",
                      f"phases sum to {tot!r} (must be a multiple of 2*pi*order), magnitudes {mag!r} / {pp[(c, r)][0][0]!r}",
                      note="(i,j) / (j,i) conjugate")


def _l1_triangles(ctx):
    fn0 = ctx.repo.func(LAPM, "laplacian_triangles")
    site = ctx.site(LAPM, fn0)
    fn, S, nz = H.norm_fn(ctx, LAPM, "laplacian_triangles", keep=("cotan_edge_diagonal",))
    loopvars = tuple(sorted({n for l in au.walk(fn) if isinstance(l, ast.For) for n in au.assigned_names(l.target)}))
    # entries of the gradient matrix:  N[row, col] = value
    raw = []
    mats = set()
    for st, tgt, val in H.subscript_stores(fn, lambda x: isinstance(x, ast.Name)):
        if isinstance(tgt.slice, ast.Tuple) and len(tgt.slice.elts) == 2 and val is not None and isinstance(st, ast.Assign):
            raw.append((tgt.slice.elts[0], tgt.slice.elts[1], val, st))
            mats.add(tgt.value.id)
    if not raw:
        # coordinate-format assembly: (values, (rows, columns)) handed to a sparse constructor
        for c in au.calls(fn):
            if au.call_tail(c) in ("csc_matrix", "csr_matrix", "coo_matrix") and c.args and isinstance(c.args[0], ast.Tuple) \
                    and len(c.args[0].elts) == 2 and isinstance(c.args[0].elts[1], ast.Tuple) and len(c.args[0].elts[1].elts) == 2 \
                    and all(isinstance(x, ast.Name) for x in [c.args[0].elts[0]] + c.args[0].elts[1].elts):
                arrays = (c.args[0].elts[1].elts[0].id, c.args[0].elts[1].elts[1].id, c.args[0].elts[0].id)
                try:
                    raw = _triplets(fn, arrays)
                    mats = {"coo"}
                except Unrecognised:
                    raw = []
    if len(mats) != 1 or not raw:
        ctx.undecided("C18-L1", site, "laplacian_triangles: the entries of the gradient matrix are not recognised", "")
    else:
        try:
            ent = _entries_by_env(ctx, fn, S, raw, loopvars)
            ok_rows, detail = True, ""
            if set(ent[True]) != set(ent[False]) or len(ent[True]) != 2:
                raise Unrecognised("the connection and the scalar case do not fill the same two entries per interior edge")
            for key, (v, st) in ent[True].items():
                r = _phase_poly(v, "order")
                s_ = _phase_poly(ent[False][key][0], "order")
                if r is None or s_ is None or not s_[1].is_zero():
                    raise Unrecognised("an entry of the gradient matrix is not magnitude * rect(1, phase)")
                mag, ph = r
                ph0 = ph
                for a in list(ph.atoms()):
                    if a.startswith("t["):
                        ph0 = _subst_atom(ph0, a, sym.Poly())
                if not ph0.is_zero():
                    ok_rows, detail = False, f"`{au.src(v)[:60]}`: phase {ph!r} does not vanish with the transport"
                elif not (mag == s_[0]):
                    ok_rows, detail = False, f"magnitude {mag!r} in the connection case, {s_[0]!r} in the scalar case"
            ctx.check(ok_rows, "C18-L1", site, "laplacian_triangles: the gradient rows of the connection case do not reduce to those of the scalar case for a zero transport",
                      detail + ": for a flat connection the operator must equal the scalar dual Laplacian",
                      note="laplacian_triangles: rows (-1, rect(1, order*t)) reduce to (-1, 1)")
        except Unrecognised as u:
            ctx.undecided("C18-L1", site, "laplacian_triangles: " + u.construct, u.what)
    # the product N^H [D] N
    rets = [r for r in au.walk(fn) if isinstance(r, ast.Return) and r.value is not None]
    verdicts = []
    for r in rets:
        v = S.canon(r.value, r)
        chain = []
        while isinstance(v, ast.BinOp) and isinstance(v.op, ast.MatMult):
            chain.insert(0, v.right)
            v = v.left
        chain.insert(0, v)
        if len(chain) not in (2, 3):
            verdicts.append("?")
            continue
        last = au.src(chain[-1])
        first = au.src(chain[0])
        herm = first in (f"{last}.conj().transpose()", f"{last}.conjugate().transpose()", f"{last}.transpose().conj()", f"{last}.transpose().conjugate()",
                         f"{last}.getH()", f"{last}.H", f"{last}.conj().T", f"{last}.T.conj()", f"{last}.conjugate().T", f"{last}.T.conjugate()")
        plain_t = first in (f"{last}.transpose()", f"{last}.T")
        verdicts.append("ok" if herm else ("bad" if plain_t else "?"))
    if not rets or "?" in verdicts:
        if "bad" in verdicts:
            ctx.fail("C18-L1", site, "laplacian_triangles: the result is not N^H @ [D] @ N with N^H the conjugate transpose of N",
                     "a plain transpose is used: with a connection the operator is not Hermitian")
        else:
            ctx.undecided("C18-L1", site, "laplacian_triangles: the returned product N^H @ [D] @ N is not recognised", "")
    else:
        ctx.check("bad" not in verdicts, "C18-L1", site, "laplacian_triangles: the result is not N^H @ [D] @ N with N^H the conjugate transpose of N",
                  "a plain transpose is used: with a connection the operator is not Hermitian", note="laplacian_triangles: N^H [D] N")


# ------------------------------------------------------------------------------ C18-S1
def _attr_call(e, tails):
    return isinstance(e, ast.Call) and au.call_tail(e) in tails and isinstance(e.func, ast.Attribute)


def _fresh_verdict(ctx, mod, qual, fn, S, expr, at, depth=0):
    """'ok' | 'bare-create' | 'no-clear' | '?' : is the attribute denoted by expr (at `at` in fn) free of values of a previous call"""
    clears = [au.src(S.canon(c.func.value, c)) for c in au.calls(fn) if au.call_tail(c) == "clear" and isinstance(c.func, ast.Attribute) and not c.args]
    c = S.canon(expr, at)
    leaves = hj_scope.ifexp_leaves(c)
    verdicts = []
    path = [(t, p) for t, p in (S.conds(at) if isinstance(at, ast.Return) else [])
            if isinstance(au.strip_not(t, p)[0], ast.Call) and au.call_tail(au.strip_not(t, p)[0]) == "has_attribute"]
    for conds, leaf in leaves:
        conds = path + conds
        if _attr_call(leaf, ("get_attribute", "create_attribute")):
            has = [(t, p) for t, p in conds if isinstance(au.strip_not(t, p)[0], ast.Call) and au.call_tail(au.strip_not(t, p)[0]) == "has_attribute"]
            if len(has) != len(conds):
                verdicts.append("?")
            elif au.call_tail(leaf) == "get_attribute":
                verdicts.append("ok" if au.src(leaf) in clears else "no-clear")
            elif not has:
                verdicts.append("bare-create")
            else:
                t, p = au.strip_not(*has[0])
                verdicts.append("ok" if not p else "bare-create")
        elif isinstance(leaf, ast.Call) and isinstance(leaf.func, ast.Attribute) and au.is_self_attr(leaf.func) and depth < 2 and "." in qual:
            cls = qual.rsplit(".", 1)[0]
            m = ctx.repo.module(mod)
            meths = ctx.repo.methods(m, m.classes[cls]) if cls in m.classes else {}
            if leaf.func.attr not in meths:
                verdicts.append("?")
                continue
            mm, f, owner = meths[leaf.func.attr]
            q2 = f"{owner._qualname}.{f.name}"
            mod2 = mm.name[len("mouette."):] if mm.name.startswith("mouette.") else mm.name
            fn2, S2, _ = H.norm_fn(ctx, mod2, q2, unroll=False)
            rets = [r for r in au.walk(fn2) if isinstance(r, ast.Return) and r.value is not None]
            if not rets:
                verdicts.append("?")
            for r in rets:
                verdicts.append(_fresh_verdict(ctx, mod2, q2, fn2, S2, r.value, r, depth + 1))
        else:
            verdicts.append("?")
    for v in ("bare-create", "no-clear", "?"):
        if v in verdicts:
            return v
    return "ok" if verdicts else "?"


def s1_fresh_singularities(ctx):
    # the face-based field only (the clause of the property is about its singularity indices)
    for mod, qual in ((FACES, "_BaseFrameField2DFaces.flag_singularities"),):
        fn0 = ctx.repo.func(mod, qual)
        site = ctx.site(mod, fn0)
        # helpers of the package that fetch / create attributes are expanded even when they are public functions of another module
        extra = set()
        for c in au.calls(fn0):
            if isinstance(c.func, ast.Name):
                r = ctx.repo.resolve_func(mod, c.func.id)
                if r and r[1] is not None and any(au.call_tail(c2) in ("create_attribute", "get_attribute") for c2 in au.calls(r[1])):
                    extra.add(c.func.id)
        fn, S, nz = H.norm_fn(ctx, mod, qual, unroll=False, extra=tuple(sorted(extra)))
        seen = set()
        n = 0
        for st, tgt, val in H.subscript_stores(fn, lambda x: isinstance(x, ast.Name)):
            X = tgt.value.id
            if X in seen or not H.loop_ancestors(st, stop=fn):
                continue
            c = S.canon(tgt.value, st)
            if not any(isinstance(n_, ast.Call) and (au.call_tail(n_) in ("get_attribute", "create_attribute") or "attribute" in (au.call_tail(n_) or "")) for n_ in ast.walk(c)):
                continue
            seen.add(X)
            n += 1
            ssite = ctx.site(mod, fn0, st)
            v = _fresh_verdict(ctx, mod, qual, fn, S, tgt.value, st)
            if v == "bare-create":
                lp_ = H.loop_ancestors(st, stop=fn)[0]
                sparse = bool(H.path_condition(st, stop=lp_))
                deleted = any(au.call_tail(c) == "delete_attribute" for c in au.calls(fn))
                if not sparse or deleted:
                    v = "ok" if not sparse else "?"
            if v == "ok":
                ctx.ok("C18-S1", ssite, "attribute created, or fetched and cleared")
            elif v == "bare-create":
                ctx.fail("C18-S1", ssite, "flag_singularities writes into an attribute obtained by create_attribute() without testing that it does not exist yet",
                         "create_attribute hands back the *existing* attribute when one of that name is already stored (duplicate warning enabled): the method "
                         "only writes non-zero entries, so the values flagged by a previous call survive and the indices no longer add up")
            elif v == "no-clear":
                ctx.fail("C18-S1", ssite, "flag_singularities writes into an attribute fetched with get_attribute() that is not cleared",
                         "the method only writes non-zero entries: the values flagged by a previous call survive")
            else:
                ctx.undecided("C18-S1", ssite, "flag_singularities: the way the written attribute is obtained is not recognised", "")
        if n == 0:
            ctx.undecided("C18-S1", site, f"{qual}: the attributes written by flag_singularities are not recognised", "")


# ------------------------------------------------------------------------------ C18-I1
OPT_INDEX = {"face_id", "edge_id", "vertex_to_corner_in_face", "previous_corner", "next_corner", "opposite_corner", "half_edge_to_corner",
             "direct_face", "opposite_face", "in_face_index", "corner_to_face", "face_to_first_corner"}


def _truth_operands(test):
    """expressions whose truth value decides `test`"""
    if isinstance(test, ast.UnaryOp) and isinstance(test.op, ast.Not):
        return _truth_operands(test.operand)
    if isinstance(test, ast.BoolOp):
        return [x for v in test.values for x in _truth_operands(v)]
    return [test]


def i1_index_truth(ctx):
    n = 0
    for modname in (CONN, FACES, VERTS, LAPM):
        m = ctx.repo.module(modname)
        for qual, fn in m.funcs.items():
            S = None
            tests = []
            for node in au.walk(fn):
                if isinstance(node, (ast.If, ast.While, ast.IfExp, ast.Assert)):
                    tests.append((node.test, node))
                elif isinstance(node, ast.comprehension):
                    tests.extend((t, node) for t in node.ifs)
                elif isinstance(node, ast.BoolOp) and not isinstance(au.parent(node), (ast.If, ast.While, ast.IfExp, ast.BoolOp, ast.UnaryOp, ast.Assert)):
                    tests.append((node, node))          # `x = c and f(c)` / `a or b`
            for test, node in tests:
                for op in _truth_operands(test):
                    if not isinstance(op, (ast.Name, ast.Call, ast.Subscript)):
                        continue
                    if S is None:
                        S = hj_scope.Scope(fn)
                    c = S.canon(op, node if isinstance(node, ast.stmt) else (au.enclosing_stmt(node) or fn.body[0]))
                    hits = [l for _, l in hj_scope.ifexp_leaves(c) if isinstance(l, ast.Call) and au.call_tail(l) in OPT_INDEX
                            and not any(k.arg == "return_inds" for k in l.keywords) and len(l.args) < 3]
                    if not hits and isinstance(op, ast.Name):
                        for lp in au.ancestors(node):
                            if isinstance(lp, ast.For) and isinstance(lp.target, ast.Name) and lp.target.id == op.id:
                                ic = S.canon(lp.iter, lp)
                                if isinstance(ic, ast.Call) and au.call_tail(ic) == "edge_to_faces":
                                    hits = [ic]
                                break
                    if hits:
                        ctx.fail("C18-I1", ctx.site(modname, fn, node), f"the result of {au.call_tail(hits[0])}() is tested for truth",
                                 f"`{au.src(op)[:60]}` is an element index or None: index 0 is falsy, so the element numbered 0 is treated as absent; the "
                                 "result then depends on the numbering of the mesh (which vertex / corner / face is the first one)")
            n += 1
            ctx.ok("C18-I1", ctx.site(modname, fn), "no element index tested for truth") if False else None
    ctx.ok("C18-I1", ctx.site(CONN, "SurfaceConnectionVertices._initialize"), f"{n} functions of the connection / frame-field modules: no element index tested for truth")



# ----------------------------------------------------------------------- generic families (msa/rules/generic.py)
_run_specific = run


def run(ctx):
    _run_specific(ctx)
    from ..rules import generic
    generic.apply(ctx, "C18", stale_modules=())


def _generic_rule_texts():
    from ..rules import generic
    return generic.rule_texts("C18", stale=False)


RULES.update(_generic_rule_texts())
