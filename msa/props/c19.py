"""C19 - samplers stay on their domain; Bezier evaluation goes through de Casteljau; grid-consistent exports."""
from __future__ import annotations
import ast, itertools
from fractions import Fraction
from .. import au, sym, order
from ..sym import Poly
from ..core import AnalysisError
from ..rules import gen_c1419 as G
from ..rules import dim_c1419 as D
from .c14 import dim_obligations

SAMP, BEZ, AABB = "sampling", "splines.bezier", "geometry.aabb"

EXPLANATION = (
    "Static conformance of the samplers and of the Bezier module, decided on the source only. A forward abstract interpretation "
    "(length-degree, affine weight, must-dependence, array shape) of each sampler decides that sums are dimensionally homogeneous, "
    "that the returned coordinates have degree 1, are translated with the centre / box and depend on every geometric parameter on "
    "every path (one run per sampling mode), and that the returned array has n_pts rows which the fill loop covers (R-DIM, count). "
    "Barycentric combinations are converted to polynomial forms: the weights of the points sum to 1 identically and are "
    "non-negative on the unit box of the random draws. Control points are consumed only through de_casteljau, whose range guard is "
    "compared with `t<0 or t>1` under every ordering of (t,0,1), precedes all uses of t, and which works on a fresh copy whose "
    "entries are only rebound. BezierPatch.as_surface is walked symbolically: row stride = inner trip, indices in [0,|V|), "
    "attribute key = running vertex index, counts (R-STRIDE/R-RANGE/R-COUNT, alarms with concrete witness only). "
    "Distributions, hull containment and Bernstein equality are not decided.")

RULES = {
    "C19-D1": "sampler coordinates: every sum is homogeneous in length, the result has degree 1 and affine weight 1 and depends on "
              "centre / radius / box position and extent on every path and in every mode; AABB.span == maxi - mini",
    "C19-N1": "every array returned by a sampler has n_pts rows (leading dimension derived through the allocation, stacking, "
              "transposition and broadcasting) and the loop that fills it row by row runs over n_pts items",
    "C19-B1": "in a barycentric combination the coefficients of the points sum to 1 identically and there is no free term; "
              "de_casteljau blends entry i+1 with weight t and entry i with weight 1-t into entry i",
    "C19-B2": "the barycentric coefficients are non-negative at every corner of the unit box of the random draws "
              "(the sample lies in the edge / face)",
    "C19-F1": "the vertices combined for sample i are those of the element drawn for sample i (loop value of the choice array, "
              "container edges / faces of the sampled mesh); returned normals are face_normals indexed by the same drawn faces",
    "C19-W1": "elements are drawn by choice(len(container), size=n_pts, p=w) where w is edge_length / face_area of the sampled mesh "
              "divided by its own sum (share of samples follows length / area)",
    "C19-W2": "every definition of the draw weights that can reach choice(...) is computed in the same call from "
              "edge_length(mesh) / face_area(mesh) (possibly normalised); weights are never read back from a stored attribute, "
              "which would be stale after the vertices moved",
    "C19-E1": "AABB.is_empty is the per-axis predicate `some axis has mini >= maxi` (decided by evaluating its expression on every "
              "box with coordinates in {0,1,2}, dimensions 1-3), and sample_AABB raises on an empty box at the top level, before "
              "any mode branch or draw",
    "C19-G1": "control points are read only as arguments of de_casteljau (or for their count); evaluation methods return "
              "de_casteljau results and forward their own parameters; the range guard of de_casteljau is `t<0 or t>1`, raises, "
              "precedes every use of t; the blend works on a fresh copy of the control list whose entries are only rebound",
    "C19-S1": "BezierPatch.as_surface: coefficient of the row variable in every face index equals the inner trip count; all indices "
              "in [0,|V|); the uv attribute key equals the index of the vertex just appended; |V| = n1*n2, (n1-1)(n2-1) quads; "
              "parameter samples are indexed over their whole linspace",
}

ASSUMPTIONS = [
    "sample_AABB modes are the literals listed in its check_argument call; grid-mode row count (nearest perfect power) is not decided",
    "as_surface resolutions n1, n2 >= 2",
]

SAMPLERS = {
    "sample_sphere": {"geo": {"center": (1, 1), "radius": (1, 0)}, "require": ["center", "radius"]},
    "sample_ball": {"geo": {"center": (1, 1), "radius": (1, 0)}, "require": ["center", "radius"]},
    "sample_polyline": {"geo": {}, "require": ["mesh"]},
    "sample_surface": {"geo": {}, "require": ["mesh"]},
}
BOX_GEO = {"box.mini": (1, 1), "box.maxi": (1, 1), "box.center": (1, 1), "box.span": (1, 0)}


def _res(b, expr, at=None, keep=()):
    return G.fast_resolve(b, expr, at, keep)


_LOST = set()


def _floor(ctx, rule, label, n, at_least):
    """fail closed on a vacuous pass - unless the rule already reported a lost construct as a finding"""
    if rule in _LOST or n >= at_least:
        return
    # the anchored functions exist (repo.func raised otherwise) but the rule recognises fewer sites than were confirmed by
    # hand: the protected constructs changed shape - a finding, not an analysis error
    ctx.fail(rule, ctx.site(SAMP, "<module>"), f"{label}: the constructs protected by {rule} are no longer found in a recognisable form",
             f"{n} site(s) recognised, at least {at_least} were confirmed by hand")


def _lost(ctx, rule, site, construct, what):
    _LOST.add(rule)
    ctx.fail(rule, site, construct, what)


def run(ctx):
    _LOST.clear()
    d1_n1_samplers(ctx)
    aabb_accessors(ctx)
    b1_barycentric(ctx)
    f1_drawn_element(ctx)
    w1_probabilities(ctx)
    w2_fresh_weights(ctx)
    e1_empty_box(ctx)
    g1_de_casteljau(ctx)
    s1_as_surface(ctx)
    ctx.repo.func(BEZ, "BezierCurve.as_polyline")
    ctx.declare_unsupported("BezierCurve.as_polyline: vertices are appended under a test on the point size and custom_pos decouples "
                            "the vertex count from n_pts (no index rule applied; evaluation path covered by C19-G1)")
    ctx.declare_unsupported("sample_AABB(mode='grid'): number of rows res**dim (nearest perfect power) is not decided")
    ctx.declare_unsupported("statistical behaviour of the draws (numpy choice / random) is trusted, only the wiring of the weights is decided")


# ----------------------------------------------------------------------- C19-D1 / C19-N1
def n1_obligations(ctx, key, fn, it, label=""):
    n = 0
    npts = Poly.atom("n_pts")
    for node, v in it.returns:
        for x in (v.items if v.items else [v]):
            tgt = x.verts if x.verts is not None else x
            if tgt.shape is None or not tgt.shape or tgt.shape[0] is None:
                continue
            n += 1
            ctx.check(D.same_dim(tgt.shape[0], npts), "C19-N1", ctx.site(key[0], fn, node),
                      f"{key[1]}{label} returns `{tgt.shape[0]}` rows instead of n_pts",
                      f"`{au.src(node)[:100]}`: leading dimension derived from the allocation is {tgt.shape[0]}",
                      note=f"{key[1]}{label}: returned rows = n_pts")
    for node, rows, trip, name in it.fills:
        if rows is None or trip is None:
            continue
        n += 1
        ctx.check(D.same_dim(rows, trip) and D.same_dim(rows, npts), "C19-N1", ctx.site(key[0], fn, node),
                  f"{key[1]}: the loop filling `{name}` visits `{trip}` rows of `{rows}`",
                  "rows that the loop does not reach keep their initial value (zeros): fewer than n_pts samples",
                  note=f"{key[1]}: fill loop covers {rows} rows")
    return n


def d1_n1_samplers(ctx):
    nd = nn = 0
    for name, spec in SAMPLERS.items():
        key = (SAMP, name)
        fn = ctx.repo.func(*key)
        it = D.Interp(fn, D.Config(spec["geo"], ctx.repo, SAMP)).run()
        nd += dim_obligations(ctx, "C19-D1", key, fn, it, spec["geo"], require=spec["require"])
        k = n1_obligations(ctx, key, fn, it)
        if k == 0:
            _lost(ctx, "C19-N1", ctx.site(SAMP, fn), f"row count of the array returned by {name} is not derivable",
                  "no returned value has a leading dimension the shape domain can follow")
        nn += k
    # sample_AABB: one run per mode
    key = (SAMP, "sample_AABB")
    fn = ctx.repo.func(*key)
    site = ctx.site(SAMP, fn)
    modes = None
    for c in au.calls(fn):
        if au.call_tail(c) == "check_argument" and len(c.args) >= 4 and au.src(c.args[1]) == "mode":
            modes = au.literal(c.args[3])
    if not modes or "mode" not in au.params(fn):
        _lost(ctx, "C19-D1", site, "list of sampling modes of sample_AABB not found",
                 "check_argument('mode', mode, str, [...]) gives the modes to analyse")
        modes = []
    for mode in modes:
        it = D.Interp(fn, D.Config(BOX_GEO, ctx.repo, SAMP, consts={"mode": mode})).run()
        nd += dim_obligations(ctx, "C19-D1", key, fn, it, BOX_GEO, require=[])
        # the box must reach the result: position and extent
        finals = []
        for node, v in it.returns:
            finals.append((node, v.verts if v.verts is not None else v))
        nd += 1
        bad = None
        for node, v in finals:
            deps = v.deps or frozenset()
            pos = deps & {"box.mini", "box.maxi", "box.center"}
            two = deps & set(BOX_GEO)
            if not pos or len(two) < 2:
                bad = (node, sorted(two))
                break
        if not finals:
            ctx.fail("C19-D1", site, f"sample_AABB(mode='{mode}') returns nothing", "")
        elif bad:
            ctx.fail("C19-D1", ctx.site(SAMP, fn, bad[0]),
                     f"the points returned by sample_AABB(mode='{mode}') do not depend on the position and extent of the box",
                     f"of the box, {' and '.join(bad[1]) if bad[1] else 'nothing'} reaches the result: the samples stay in a fixed cube whatever box is given "
                     f"(e.g. AABB([2,2],[3,4]) still yields points of [0,1]^2)")
        else:
            ctx.ok("C19-D1", site, f"sample_AABB(mode='{mode}'): box position and extent reach the result")
        if mode != "grid":
            k = n1_obligations(ctx, key, fn, it, f"(mode='{mode}')")
            if k == 0:
                _lost(ctx, "C19-N1", site, f"row count of sample_AABB(mode='{mode}') is not derivable", "")
            nn += k
    _floor(ctx, "C19-D1", "C19-D1 obligations", nd, 22)
    _floor(ctx, "C19-N1", "C19-N1 obligations", nn, 12)


def aabb_accessors(ctx):
    """`mini + span * u` spans the box iff span == maxi - mini."""
    rets = {}
    for name in ("mini", "maxi", "span"):
        fn = ctx.repo.func(AABB, "AABB." + name)
        r = [st.value for st in au.stmts(fn.body) if isinstance(st, ast.Return) and st.value is not None]
        rets[name] = (fn, r[0] if len(r) == 1 else None)
    fn, span = rets["span"]
    site = ctx.site(AABB, fn)
    if any(v[1] is None for v in rets.values()):
        ctx.fail("C19-D1", site, "AABB.mini / maxi / span are no longer single-return accessors", "")
        return
    try:
        ok = sym.to_poly(span, lambda n: au.src(n) if isinstance(n, ast.Attribute) else None) == \
            sym.to_poly(rets["maxi"][1], lambda n: au.src(n) if isinstance(n, ast.Attribute) else None) - \
            sym.to_poly(rets["mini"][1], lambda n: au.src(n) if isinstance(n, ast.Attribute) else None)
    except Exception:
        ok = False
    ctx.check(ok, "C19-D1", site, f"AABB.span returns `{au.src(span)}` which is not maxi - mini",
              "sample_AABB maps the unit cube by mini + span*u; with another span the samples leave the box",
              note="AABB.span == maxi - mini")


# ----------------------------------------------------------------------- C19-B1 / B2
def _unit_atoms(fn, b, expr_names):
    """names bound to draws of [0,1): `x = random()` / `a, b = random(2)` / np.random.random()"""
    out = set()
    for st in au.stmts(fn.body):
        if isinstance(st, ast.Assign) and isinstance(st.value, ast.Call) and au.call_tail(st.value) in ("random", "random_sample", "rand") \
                and not any(k.arg in ("low", "high") for k in st.value.keywords):
            for t in st.targets:
                out |= set(au.assigned_names(t))
    return out


def bary_check(ctx, modname, fn, st, expr, point_pred, unit_names, label, extra_unit=()):
    """expr: the (resolved) combination.  Returns the weights dict or None."""
    site = ctx.site(modname, fn, st)

    def atom_of(n):
        if isinstance(n, ast.Subscript):
            return au.src(n)
        if isinstance(n, ast.Call):
            return "⟨" + au.src(n) + "⟩"
        return None
    P = sym.to_poly(expr, atom_of)
    pts = sorted(a for a in P.atoms() if point_pred(a))
    if len(pts) < 2:
        _lost(ctx, "C19-B1", site, f"{label}: barycentric combination of the points not found",
                 f"`{au.src(expr)}` does not combine at least two points")
        return None
    weights = {}
    rest = P
    ok = True
    for p in pts:
        if P.degree_in(p) != 1:
            ok = False
        w = P.coeff(p)
        if any(point_pred(a) for a in w.atoms()):
            ok = False
        weights[p] = w
        rest = rest - w * Poly.atom(p)
    total = Poly()
    for w in weights.values():
        total = total + w
    good = ok and rest.is_zero() and total == Poly.const(1)
    ctx.check(good, "C19-B1", site,
              f"{label}: the coefficients of the combined points sum to `{total}`" + ("" if rest.is_zero() else f" with free term `{rest}`") + ", not identically 1",
              f"`{au.src(expr)}` = " + " + ".join(f"({w})*{p}" for p, w in weights.items()) + ": the sample is not an affine "
              "combination of the points, it leaves the edge / face (and moves when the mesh is translated)",
              note=f"{label}: weights {', '.join(str(w) for w in weights.values())} sum to 1")
    if not good:
        return None
    # B2: non-negativity on the unit box
    scal = sorted(set().union(*[w.atoms() for w in weights.values()]))
    known = []
    for a in scal:
        inner = a.strip("⟨⟩")
        is_unit = a in unit_names or a in extra_unit
        if not is_unit and a.startswith("⟨") and (inner.startswith("np.sqrt(") or inner.startswith("sqrt(")):
            arg = inner[inner.index("(") + 1:-1]
            is_unit = arg in unit_names
        known.append(is_unit)
    if not all(known) or any(w.degree_in(a) > 1 for w in weights.values() for a in scal):
        ctx.declare_unsupported(f"{label}: sign of the weights not decided (an atom of {scal} has no known range or the form is not multilinear)")
        return weights
    worst = None
    for corner in itertools.product((0, 1), repeat=len(scal)):
        env = dict(zip(scal, corner))
        for p, w in weights.items():
            if w.eval(env) < 0:
                worst = (p, w, env)
    ctx.check(worst is None, "C19-B2", site,
              f"{label}: the weight `{worst[1] if worst else ''}` of a point becomes negative on the unit box of the draws",
              f"at {G.fmt_env(worst[2]) if worst else ''} the weight of {worst[0] if worst else ''} is "
              f"{worst[1].eval(worst[2]) if worst else ''}: the sample falls outside the edge / face",
              note=f"{label}: weights >= 0 at the {2 ** len(scal)} corners of the draws {scal}")
    return weights


def b1_barycentric(ctx):
    n = 0
    for name, container in (("sample_polyline", "edges"), ("sample_surface", "faces")):
        fn = ctx.repo.func(SAMP, name)
        site = ctx.site(SAMP, fn)
        b = sym.Bindings(fn)
        # names unpacked from vertex coordinates
        point_names = set()
        for st in au.stmts(fn.body):
            if isinstance(st, ast.Assign) and any(isinstance(x, ast.Attribute) and x.attr == "vertices" for x in au.walk(st.value)):
                for t in st.targets:
                    point_names |= set(au.assigned_names(t))
        stores = [st for st in au.stmts(fn.body) if isinstance(st, ast.Assign) and len(st.targets) == 1
                  and isinstance(st.targets[0], ast.Subscript) and isinstance(st.targets[0].value, ast.Name)
                  and (au.names(_res(b, st.value, at=st, keep=tuple(point_names))) & point_names)]
        if not stores or not point_names:
            _lost(ctx, "C19-B1", site, f"{name}: barycentric combination of the points not found",
                     "no row store combining the vertex coordinates of the chosen element")
            continue
        unit = _unit_atoms(fn, b, None)
        for st in stores:
            n += 1
            expr = _res(b, st.value, at=st, keep=tuple(point_names | unit))
            bary_check(ctx, SAMP, fn, st, expr, lambda a: a in point_names, unit, name)
    # de_casteljau
    fn = ctx.repo.func(BEZ, "de_casteljau")
    site = ctx.site(BEZ, fn)
    ps = au.params(fn)
    b = sym.Bindings(fn)
    blends = [st for st in au.stmts(fn.body) if isinstance(st, ast.Assign) and len(st.targets) == 1
              and isinstance(st.targets[0], ast.Subscript) and isinstance(st.targets[0].value, ast.Name)
              and any(isinstance(a, ast.For) for a in au.ancestors(st))]
    if len(ps) != 2 or not blends:
        n += 1
        _lost(ctx, "C19-B1", site, "de_casteljau: blend `X[i] = t*X[i+1] + (1-t)*X[i]` not found",
                 "no rebinding store of a blended entry inside the de Casteljau loops")
        blends = []
    for st in blends:
        n += 1
        arr = st.targets[0].value.id
        tname = ps[1]
        expr = _res(b, st.value, at=st, keep=(arr, tname))
        pref = arr + "["
        w = bary_check(ctx, BEZ, fn, st, expr, lambda a: a.startswith(pref), set(), "de_casteljau", extra_unit=(tname,))
        if w is None:
            continue
        # entry i+1 with weight t, entry i (the one written) with weight 1-t
        tgt = au.src(st.targets[0])
        tpoly = Poly.atom(tname)
        idx = st.targets[0].slice
        hi = [p for p in w if p != tgt]
        ok = tgt in w and len(w) == 2 and w[tgt] == Poly.const(1) - tpoly and w[hi[0]] == tpoly
        if ok:
            # the other entry must be the next one
            other = ast.parse(hi[0], mode="eval").body
            try:
                d = sym.to_poly(other.slice, opaque=False) - sym.to_poly(idx, opaque=False)
                ok = d == Poly.const(1)
            except Exception:
                ok = False
        ctx.check(ok, "C19-B1", ctx.site(BEZ, fn, st),
                  "de_casteljau: the blend is not `entry[i] = t*entry[i+1] + (1-t)*entry[i]`",
                  f"weights {dict((k, str(v)) for k, v in w.items())} written to {tgt}: B(0) must be the first control point and B(1) the last",
                  note="de_casteljau: weight t on entry i+1, 1-t on entry i")
    _floor(ctx, "C19-B1", "C19-B1 combinations", n, 3)


# ----------------------------------------------------------------------- C19-G1
def _is_dc(e):
    return isinstance(e, ast.Call) and isinstance(e.func, ast.Name) and e.func.id == "de_casteljau"


def g1_de_casteljau(ctx):
    repo = ctx.repo
    fn = repo.func(BEZ, "de_casteljau")
    site = ctx.site(BEZ, fn)
    ps = au.params(fn)
    if len(ps) != 2:
        ctx.fail("C19-G1", site, "de_casteljau does not take (control points, t)", "")
        return
    P, t = ps
    # ---- the guard
    guard_i = None
    for i, st in enumerate(fn.body):
        if isinstance(st, ast.If) and any(isinstance(s, ast.Raise) for s in st.body) and t in au.names(st.test):
            guard_i = i
            break
    if guard_i is None:
        _lost(ctx, "C19-G1", site, "range guard on t not found in de_casteljau",
                 "parameters outside [0,1] must be rejected (InvalidRangeArgumentError), not extrapolated")
    else:
        g = fn.body[guard_i]
        try:
            wit, nenv = order.compare(g.test, f"{t} < 0 or {t} > 1", sym=lambda n: n.id if isinstance(n, ast.Name) else au.src(n))
            ctx.check(wit is None, "C19-G1", ctx.site(BEZ, fn, g),
                      f"range guard of de_casteljau is not `{t} < 0 or {t} > 1`",
                      f"differs from the specification for {wit}: `{au.src(g.test)}`", note=f"guard agrees on {nenv} orderings")
        except order.Unsupported as e:
            ctx.fail("C19-G1", ctx.site(BEZ, fn, g), "range guard of de_casteljau is not a comparison predicate", str(e))
        raises = isinstance(g.body[-1], ast.Raise) or all(isinstance(s, ast.Raise) for s in g.body)
        ctx.check(raises and not g.orelse, "C19-G1", ctx.site(BEZ, fn, g), "range guard of de_casteljau does not end in a raise",
                  "an out-of-range t must not continue into the blend", note="guard raises")
        early = [st for st in fn.body[:guard_i] if t in au.names(st)]
        ctx.check(not early, "C19-G1", ctx.site(BEZ, fn, g), "t is used before the range guard of de_casteljau",
                  f"`{au.src(early[0])[:80] if early else ''}` runs before the guard", note="guard precedes every use of t")
    # ---- fresh copy, entries only rebound
    b = sym.Bindings(fn)
    stores = [st for st in au.stmts(fn.body) if isinstance(st, (ast.Assign, ast.AugAssign))
              for tg in au.assign_targets(st) if isinstance(tg, ast.Subscript)]
    if not stores:
        _lost(ctx, "C19-G1", site, "de_casteljau: blend store not found", "")
    for st in stores:
        tg = [x for x in au.assign_targets(st) if isinstance(x, ast.Subscript)][0]
        root = tg.value
        while isinstance(root, (ast.Subscript, ast.Attribute)):
            root = root.value
        name = root.id if isinstance(root, ast.Name) else None
        d = _res(b, ast.Name(name, ast.Load()), at=st) if name else None
        fresh = False
        if name and name not in ps and d is not None and not isinstance(d, ast.Name):
            if isinstance(d, (ast.ListComp, ast.List)):
                fresh = True
            elif isinstance(d, ast.Call) and au.call_tail(d) in ("list", "copy", "deepcopy", "array", "tuple"):
                fresh = True
            elif isinstance(d, ast.Subscript) and isinstance(d.slice, ast.Slice) and d.slice.lower is None and d.slice.upper is None:
                fresh = au.call_tail(d.value) != "asarray" if isinstance(d.value, ast.Call) else not _is_ndarray_view(d)
        ctx.check(fresh, "C19-G1", ctx.site(BEZ, fn, st),
                  "de_casteljau writes into a list that is not a fresh copy of the control points",
                  f"`{au.src(st)}` stores into `{name}` = `{au.src(d) if d is not None else '?'}`: the caller's control points "
                  f"(BezierCurve.pts) are overwritten by the first evaluation", note="blend writes into a fresh copy")
        ctx.check(isinstance(st, ast.Assign), "C19-G1", ctx.site(BEZ, fn, st),
                  "de_casteljau updates an entry in place instead of rebinding it",
                  f"`{au.src(st)}`: the copy is shallow, an augmented assignment mutates the caller's control point (Vec) itself",
                  note="entries are rebound")
    # no in-place method on the parameter / its elements
    muts = [c for c in au.calls(fn) if isinstance(c.func, ast.Attribute) and c.func.attr in
            ("append", "extend", "insert", "pop", "remove", "sort", "reverse", "clear", "fill", "normalize")
            and P in au.names(c.func.value)]
    ctx.check(not muts, "C19-G1", site, "de_casteljau mutates its control-point argument through a method call",
              f"`{au.src(muts[0]) if muts else ''}`", note="no in-place method on the control points")
    # result = first entry of the blended list
    rets = [st for st in au.stmts(fn.body) if isinstance(st, ast.Return)]
    okr = bool(rets) and all(isinstance(r.value, ast.Subscript) and au.const(r.value.slice) == 0 for r in rets)
    ctx.check(okr, "C19-G1", site, "de_casteljau does not return entry 0 of the blended list",
              "after len(P)-1 rounds the value of the curve is the first entry", note="returns entry 0")
    # ---- control points are consumed only through de_casteljau
    n_reads = 0
    for cname in ("BezierCurve", "BezierPatch"):
        cls = repo.cls(BEZ, cname)
        for m in cls.body:
            if not isinstance(m, ast.FunctionDef):
                continue
            for n in au.walk(m):
                if not au.is_self_attr(n, "pts") or not isinstance(n.ctx, ast.Load):
                    continue
                n_reads += 1
                # climb to the consuming expression
                ok = False
                for a in au.ancestors(n):
                    if isinstance(a, ast.Call) and au.call_tail(a) == "len":
                        ok = True
                        break
                    if _is_dc(a) and a.args and any(x is n for x in au.walk(a.args[0])):
                        ok = True
                        break
                    if isinstance(a, ast.stmt):
                        break
                ctx.check(ok, "C19-G1", ctx.site(BEZ, m, n),
                          f"{cname}.{m.name} reads the control points outside a de_casteljau call",
                          f"`{au.src(au.enclosing_stmt(n))[:100]}`: an evaluation that bypasses de_casteljau also bypasses its range guard",
                          note=f"{cname}.{m.name}: control points go to de_casteljau / len")
    _floor(ctx, "C19-G1", "C19-G1 control point reads", n_reads, 5)
    # ---- evaluation methods return de_casteljau results and forward their parameters
    n_eval = 0
    for cname, mname in (("BezierCurve", "evaluate"), ("BezierPatch", "_evaluate_row"), ("BezierPatch", "evaluate")):
        m = repo.func(BEZ, f"{cname}.{mname}")
        bm = sym.Bindings(m)
        mps = au.params(m, skip_self=True)
        rets = [st for st in au.stmts(m.body) if isinstance(st, ast.Return)]
        n_eval += 1
        good = bool(rets)
        used = set()
        for r in rets:
            e = _res(bm, r.value, at=r) if r.value is not None else None
            if isinstance(e, (ast.ListComp, ast.GeneratorExp)):
                e = e.elt
            if not _is_dc(e) or len(e.args) != 2:
                good = False
                continue
            # t-argument: one of the method's parameters, unmodified
            if not (isinstance(e.args[1], ast.Name) and e.args[1].id in mps):
                good = False
            else:
                used.add(e.args[1].id)
            for c in au.calls(e.args[0]):
                if au.call_tail(c) in ("_evaluate_row", "evaluate") and isinstance(c.func, ast.Attribute) and au.is_self_attr(c.func):
                    used |= {a.id for a in c.args if isinstance(a, ast.Name)}
        ctx.check(good and used == set(mps), "C19-G1", ctx.site(BEZ, m),
                  f"{cname}.{mname} does not return de_casteljau(...) of its own parameter(s) {mps}",
                  f"returns `{'; '.join(au.src(r.value) for r in rets if r.value is not None)}`; parameters reaching de_casteljau unmodified: {sorted(used)}",
                  note=f"{cname}.{mname} -> de_casteljau with {sorted(used)}")
    # ---- exports evaluate through the class
    for cname, mname in (("BezierCurve", "as_polyline"), ("BezierPatch", "as_surface")):
        m = repo.func(BEZ, f"{cname}.{mname}")
        bm = sym.Bindings(m)
        apps = [c for c in au.calls(m) if au.call_tail(c) == "append" and isinstance(c.func.value, ast.Attribute)
                and c.func.value.attr == "vertices" and c.args]
        if not apps:
            ctx.fail("C19-G1", ctx.site(BEZ, m), f"{cname}.{mname}: vertex append not found", "")
        for c in apps:
            n_eval += 1
            e = _res(bm, c.args[0], at=c)
            ok = any(_is_dc(x) or (isinstance(x, ast.Call) and isinstance(x.func, ast.Attribute) and au.is_self_attr(x.func)
                                   and x.func.attr in ("evaluate", "_evaluate_row")) for x in au.walk(e))
            ctx.check(ok, "C19-G1", ctx.site(BEZ, m, c), f"{cname}.{mname} appends a vertex that is not an evaluation of the curve / patch",
                      f"`{au.src(c)}` resolves to `{au.src(e)[:100]}`", note=f"{cname}.{mname}: vertices are evaluations")
    _floor(ctx, "C19-G1", "C19-G1 evaluation sites", n_eval, 6)


def _is_ndarray_view(d):
    return False


# ----------------------------------------------------------------------- C19-S1
def s1_as_surface(ctx):
    key = (BEZ, "BezierPatch.as_surface")
    fn = ctx.repo.func(*key)
    site = ctx.site(BEZ, fn)
    g = G.GridFn(fn)
    ps = au.params(fn, skip_self=True)
    g.param_min.update({p: 2 for p in ps[:2]})
    n = 0
    try:
        runs = g.runs()
        run = runs[0]
        nest = G.rect_nest(run)
        if nest is None:
            raise G.Unsupported("no rectangular vertex loop nest (one append per innermost iteration)")
        failed = set()
        for em, k, a, role, c, exp, ok in G.stride_obligations(g, run, nest):
            n += 1
            s = ctx.site(BEZ, fn, em.stmt)
            if ok:
                ctx.ok("C19-S1", s, f"as_surface: {role} atom {a} has coefficient {c} in {em.kind} index {k}")
                continue
            failed.add((em.key, k))
            w = G.stride_witness(g, run, nest, em, k, c, exp)
            if w is None:
                ctx.declare_unsupported(f"as_surface: stride `{c}` differs syntactically from `{exp}` but no concrete witness was found")
                continue
            construct = (f"row stride of the stored vertex indices is `{c}` but a row of the vertex loop holds `{exp}` vertices"
                         if role == "row" else f"column step of the stored vertex indices is `{c}` instead of 1")
            ctx.fail("C19-S1", s, construct, f"vertex (r, c) of the patch has index r*({nest[2].trip}) + c; witness {w}",
                     index=au.src(g.index_expr(em, k, run)))
        vsite, outer, inner = nest
        for em in run.emits:
            if em.kind not in ("faces", "edges", "vertices-attr"):
                continue
            try:
                polys = g.index_polys(em, run)
            except G.Unsupported as e:
                n += 1
                ctx.fail("C19-S1", ctx.site(BEZ, fn, em.stmt), f"{em.kind} index of as_surface not found in a recognisable form", str(e))
                continue
            for k, P in enumerate(polys):
                if (em.key, k) in failed:
                    continue
                n += 1
                s = ctx.site(BEZ, fn, em.stmt)
                if g.prove_in_range(P, em, run, run.V):
                    ctx.ok("C19-S1", s, f"as_surface: {em.kind} index {P} in [0, {run.V})")
                else:
                    w = g.witness_out_of_range(em, k, run)
                    if w:
                        ctx.fail("C19-S1", s, f"{em.kind} index `{P}` leaves [0, |V|) with |V| = {run.V}",
                                 f"witness {G.fmt_env(w['params'])}: index {w['index']} at iteration ({G.fmt_env(w['iteration'])}) "
                                 f"with {w['n_vertices']} vertices", witness=w)
                    else:
                        ctx.ok("C19-S1", s, f"as_surface: {em.kind} index {P}: no violation for parameters <= {G.MAXPARAM}")
                        ctx.declare_unsupported(f"as_surface: index `{P}` not proved for all parameters")
                if em.kind == "vertices-attr":
                    # key of the attribute written next to the append = index of that vertex
                    n += 1
                    appl, ok, want, wtxt = G.attr_key_check(g, run, nest, em, P)
                    ctx.check(appl and ok, "C19-S1", s,
                              f"uv attribute key `{P}` is not the index `{want}` of the vertex appended in the same iteration",
                              wtxt or "the attribute is not written in the vertex loop nest",
                              note="uv key = running vertex index")
        # counts
        n += 2
        A, B = outer.trip, inner.trip
        ctx.check(run.V == A * B and {str(x) for x in (A, B)} == set(ps[:2]), "C19-S1", site,
                  f"as_surface creates `{run.V}` vertices, not n1*n2 of its two resolutions {ps[:2]}", "", note=f"|V| = {run.V}")
        F = Poly()
        arity = set()
        for em in run.emits:
            if em.kind == "faces":
                F = F + g.count(em, run)
                arity.add(len(em.idx))
        ctx.check(F == (A - 1) * (B - 1) and arity == {4}, "C19-S1", site,
                  f"as_surface creates `{F}` faces of arity {sorted(arity)}, not (n1-1)*(n2-1) quads",
                  "one quad per cell of the sample grid", note=f"|F4| = {F}")
    except G.Unsupported as e:
        _lost(ctx, "C19-S1", site, "index arithmetic of BezierPatch.as_surface not found in a recognisable form", str(e))
        return
    # parameter samples indexed over their whole linspace
    b = sym.Bindings(fn)
    for sub in [x for x in au.walk(fn) if isinstance(x, ast.Subscript) and isinstance(x.ctx, ast.Load) and isinstance(x.value, ast.Name)
                and isinstance(x.slice, ast.Name)]:
        d = _res(b, sub.value, at=sub)
        if not (isinstance(d, ast.Call) and au.call_tail(d) == "linspace" and len(d.args) >= 3):
            continue
        loops = [a for a in au.ancestors(sub) if isinstance(a, ast.For) and isinstance(a.target, ast.Name) and a.target.id == sub.slice.id]
        if not loops or not (isinstance(loops[0].iter, ast.Call) and au.call_tail(loops[0].iter) == "range" and len(loops[0].iter.args) == 1):
            continue
        n += 1
        trip = sym.to_poly(_res(b, loops[0].iter.args[0], at=loops[0]))
        cnt = sym.to_poly(_res(b, d.args[2], at=sub))
        ctx.check(trip == cnt, "C19-S1", ctx.site(BEZ, fn, sub),
                  f"`{au.src(sub)}` indexes a linspace of `{cnt}` samples with a loop of `{trip}` iterations",
                  f"for {trip} > {cnt} the index runs past the samples, for {trip} < {cnt} the patch is not covered up to parameter 1",
                  note=f"{au.src(sub)}: loop covers the linspace")
    _floor(ctx, "C19-S1", "C19-S1 obligations", n, 16)


# ----------------------------------------------------------------------- C19-F1
def f1_drawn_element(ctx):
    n = 0
    for name, container in (("sample_polyline", "edges"), ("sample_surface", "faces")):
        fn = ctx.repo.func(SAMP, name)
        site = ctx.site(SAMP, fn)
        b = sym.Bindings(fn)
        mesh_p = au.params(fn)[0]
        loop = None
        for st in au.stmts(fn.body):
            if isinstance(st, ast.For) and isinstance(st.iter, ast.Call) and au.call_tail(st.iter) == "enumerate" and st.iter.args \
                    and isinstance(st.target, ast.Tuple) and len(st.target.elts) == 2 \
                    and all(isinstance(x, ast.Name) for x in st.target.elts) \
                    and any(isinstance(s_, ast.Assign) and isinstance(s_.targets[0], ast.Subscript) for s_ in st.body):
                loop = st
        if loop is None:
            _lost(ctx, "C19-F1", site, f"{name}: fill loop `for i, elem in enumerate(drawn elements)` not found", "")
            continue
        idx_var, val_var = loop.target.elts[0].id, loop.target.elts[1].id
        drawn = loop.iter.args[0]
        # the drawn array comes from choice(...) (or the single-element fallback)
        d = _res(b, drawn, at=loop)
        # element rows read in the loop body
        reads = [x for s_ in loop.body for x in au.walk(s_) if isinstance(x, ast.Subscript) and isinstance(x.value, ast.Attribute)
                 and x.value.attr in ("edges", "faces", "cells") and isinstance(x.ctx, ast.Load)]
        n += 1
        ok = bool(reads) and all(au.src(x.value) == f"{mesh_p}.{container}" and isinstance(x.slice, ast.Name) and x.slice.id == val_var
                                 for x in reads)
        ctx.check(ok, "C19-F1", ctx.site(SAMP, fn, reads[0] if reads else loop),
                  f"{name}: the combined vertices are not those of the drawn element (row of `{container}` selected by the loop value)",
                  f"vertices are read from `{', '.join(sorted({au.src(x) for x in reads})) or 'nothing'}` instead of "
                  f"`{mesh_p}.{container}[{val_var}]`: sample {idx_var} must lie on the element drawn for it; indexing by the sample "
                  f"counter ignores the length / area weighting",
                  note=f"{name}: vertices of the drawn element {mesh_p}.{container}[{val_var}]")
        if name == "sample_surface":
            # normals: face_normals(mesh)[f] for f in the same drawn array
            comps = [x for x in au.walk(fn) if isinstance(x, (ast.ListComp, ast.GeneratorExp)) and isinstance(x.elt, ast.Subscript)
                     and isinstance(x.elt.value, ast.Name)
                     and isinstance(_res(b, x.elt.value, at=x), ast.Call) and au.call_tail(_res(b, x.elt.value, at=x)) == "face_normals"]
            n += 1
            if len(comps) != 1:
                _lost(ctx, "C19-F1", site, "sample_surface: normals of the drawn faces (`face_normals(mesh)[f] for f in drawn`) not found",
                         f"{len(comps)} comprehension(s) over face_normals")
            else:
                c = comps[0]
                g0 = c.generators[0]
                fnc = _res(b, c.elt.value, at=c)
                ok = len(c.generators) == 1 and not g0.ifs and isinstance(g0.target, ast.Name) and au.same(g0.iter, drawn) \
                    and isinstance(c.elt.slice, ast.Name) and c.elt.slice.id == g0.target.id \
                    and fnc.args and isinstance(fnc.args[0], ast.Name) and fnc.args[0].id == mesh_p
                ctx.check(ok, "C19-F1", ctx.site(SAMP, fn, c),
                          "sample_surface: returned normals are not face_normals(mesh) indexed by the drawn faces in order",
                          f"`{au.src(c)}` vs drawn faces `{au.src(drawn)}`: the i-th normal must be the normal of the face the i-th "
                          f"point was drawn on",
                          note="normals indexed by the drawn faces, in order")
    _floor(ctx, "C19-F1", "C19-F1 obligations", n, 3)


# ----------------------------------------------------------------------- C19-W1
def w1_probabilities(ctx):
    n = 0
    for name, container, measure in (("sample_polyline", "edges", "edge_length"), ("sample_surface", "faces", "face_area")):
        fn = ctx.repo.func(SAMP, name)
        site = ctx.site(SAMP, fn)
        b = sym.Bindings(fn)
        mesh_p = au.params(fn)[0]
        draws = [c for c in au.calls(fn) if au.call_tail(c) == "choice"]
        n += 1
        if len(draws) != 1:
            _lost(ctx, "C19-W1", site, f"{name}: the weighted draw `choice(n_elements, size=n_pts, p=weights)` not found",
                     f"{len(draws)} call(s) of choice")
            continue
        c = draws[0]
        s = ctx.site(SAMP, fn, c)
        pop = _res(b, c.args[0], at=c) if c.args else None
        okpop = pop is not None and au.src(pop) == f"len({mesh_p}.{container})"
        ctx.check(okpop, "C19-W1", s, f"{name}: elements are not drawn among range(len({mesh_p}.{container}))",
                  f"population `{au.src(pop) if pop is not None else None}`", note=f"{name}: population len({mesh_p}.{container})")
        pk = next((k.value for k in c.keywords if k.arg == "p"), c.args[3] if len(c.args) > 3 else None)
        n += 2
        if not isinstance(pk, ast.Name):
            ctx.fail("C19-W1", s, f"{name}: the draw has no weight array `p=` (uniform over {container})",
                     f"`{au.src(c)}`: the share of samples per element must follow its {measure.split('_')[1]}, not be uniform")
            continue
        w = pk.id
        # provenance: w = measure(mesh, ...)[.as_array()]  then  w /= np.sum(w)   before the draw
        src_ok = norm_ok = False
        for st in au.stmts(fn.body):
            if isinstance(st, ast.Assign) and any(isinstance(t, ast.Name) and t.id == w for t in st.targets):
                rv = _res(b, st.value, at=st, keep=(w, mesh_p))   # `a = edge_length(mesh); w = a.as_array()` is the same provenance
                calls = [x for x in au.walk(rv) if isinstance(x, ast.Call) and au.call_tail(x) == measure]
                if calls and calls[0].args and isinstance(calls[0].args[0], ast.Name) and calls[0].args[0].id == mesh_p:
                    src_ok = True
                # w = w / np.sum(w)
                v = st.value
                if isinstance(v, ast.BinOp) and isinstance(v.op, ast.Div) and isinstance(v.left, ast.Name) and v.left.id == w \
                        and _is_sum_of(v.right, w):
                    norm_ok = True
            if isinstance(st, ast.AugAssign) and isinstance(st.target, ast.Name) and st.target.id == w and isinstance(st.op, ast.Div) \
                    and _is_sum_of(st.value, w):
                norm_ok = True
        ctx.check(src_ok, "C19-W1", s, f"{name}: the draw weights are not {measure}({mesh_p})",
                  f"`p={w}` must hold the {measure.split('_')[1]} of every element of {mesh_p}.{container}", note=f"{name}: weights = {measure}")
        ctx.check(norm_ok, "C19-W1", s, f"{name}: the draw weights are not divided by their own sum",
                  f"`{w}` must be normalised by np.sum({w}) to be the probability of each element", note=f"{name}: weights normalised by their sum")
    _floor(ctx, "C19-W1", "C19-W1 obligations", n, 6)


def _is_sum_of(e, w):
    return isinstance(e, ast.Call) and au.call_tail(e) == "sum" and (
        (e.args and isinstance(e.args[0], ast.Name) and e.args[0].id == w) or
        (isinstance(e.func, ast.Attribute) and isinstance(e.func.value, ast.Name) and e.func.value.id == w))


# ----------------------------------------------------------------------- C19-W2
def _defs_of(fn, name):
    """all statements of fn that (re)bind `name` (Assign / AugAssign / AnnAssign / loop or with targets)"""
    out = []
    for st in au.stmts(fn.body):
        if isinstance(st, (ast.Assign, ast.AnnAssign, ast.AugAssign)):
            if any(name in au.assigned_names(t) for t in au.assign_targets(st)):
                out.append(st)
        elif isinstance(st, (ast.For, ast.AsyncFor)) and name in au.assigned_names(st.target):
            out.append(st)
        elif isinstance(st, (ast.With, ast.AsyncWith)) and any(it.optional_vars is not None and name in au.assigned_names(it.optional_vars)
                                                                 for it in st.items):
            out.append(st)
    return out


def _self_update(st, w):
    """`w /= f(w)`, `w = w / f(w)`, `w = w * c`, `w = np.asarray(w)` ... : a rebinding of w computed from w alone"""
    if isinstance(st, ast.AugAssign) and isinstance(st.target, ast.Name) and st.target.id == w:
        return True
    if isinstance(st, ast.Assign) and len(st.targets) == 1 and isinstance(st.targets[0], ast.Name) and st.targets[0].id == w:
        return w in au.names(st.value)
    return False


def w2_fresh_weights(ctx):
    n = 0
    for name, container, measure in (("sample_polyline", "edges", "edge_length"), ("sample_surface", "faces", "face_area")):
        fn = ctx.repo.func(SAMP, name)
        site = ctx.site(SAMP, fn)
        b = sym.Bindings(fn)
        mesh_p = au.params(fn)[0]
        draws = [c for c in au.calls(fn) if au.call_tail(c) == "choice"]
        pk = None
        if len(draws) == 1:
            pk = next((k.value for k in draws[0].keywords if k.arg == "p"), draws[0].args[3] if len(draws[0].args) > 3 else None)
        if not isinstance(pk, ast.Name):
            n += 1
            _lost(ctx, "C19-W2", site, f"{name}: weight array of the draw not found", "reported in detail by C19-W1")
            continue
        w = pk.id
        defs = _defs_of(fn, w)
        if not defs:
            n += 1
            _lost(ctx, "C19-W2", site, f"{name}: definition of the draw weights `{w}` not found", "the weights must be computed in this call")
            continue
        n_src = 0
        for st in defs:
            if _self_update(st, w):
                # must not mix in anything stored: only w itself, numpy, constants
                stored = [c for c in au.calls(st) if au.call_tail(c) in ("get_attribute", "has_attribute", "attribute")]
                n += 1
                ctx.check(not stored, "C19-W2", ctx.site(SAMP, fn, st),
                          f"{name}: the draw weights are combined with a stored attribute", f"`{au.src(st)[:120]}`",
                          note=f"{name}: `{au.src(st)[:60]}` rescales the weights")
                continue
            n += 1
            n_src += 1
            val = st.value if isinstance(st, (ast.Assign, ast.AnnAssign)) else None
            e = _res(b, val, at=st, keep=(w, mesh_p)) if val is not None else None
            calls = [x for x in au.walk(e) if isinstance(x, ast.Call) and au.call_tail(x) == measure] if e is not None else []
            fresh = bool(calls) and all(c.args and isinstance(c.args[0], ast.Name) and c.args[0].id == mesh_p for c in calls)
            stored = [c for c in (au.walk(e) if e is not None else []) if isinstance(c, ast.Call)
                      and au.call_tail(c) in ("get_attribute", "has_attribute", "attribute")]
            ctx.check(fresh and not stored, "C19-W2", ctx.site(SAMP, fn, st),
                      f"{name}: a definition of the draw weights is not computed from {measure}({mesh_p}) in this call",
                      f"`{au.src(st)[:140]}`: weights read back from a stored attribute (or from anything but the current geometry) are "
                      f"stale once the vertices have moved - the share of samples per element no longer follows its {measure.split('_')[1]}",
                      note=f"{name}: weights = {measure}({mesh_p}) computed in the call")
        if n_src == 0:
            n += 1
            _lost(ctx, "C19-W2", site, f"{name}: definition of the draw weights `{w}` from {measure} not found", "")
    _floor(ctx, "C19-W2", "C19-W2 obligations", n, 4)


# ----------------------------------------------------------------------- C19-E1
class _NoEval(Exception):
    pass


def _vec_eval(e, env, props, depth=0):
    """Evaluate an expression of AABB over concrete corner tuples env = {'_p1': (..), '_p2': (..)} (tiny domain, the
    expression is the extracted AST - repository code is not run).  Vectors are tuples, scalars numbers / bools."""
    if depth > 6:
        raise _NoEval("recursion")

    def rec(x):
        return _vec_eval(x, env, props, depth)

    def lift(f, *xs):
        n = max((len(x) for x in xs if isinstance(x, tuple)), default=None)
        if n is None:
            return f(*xs)
        xs = [x if isinstance(x, tuple) else (x,) * n for x in xs]
        if any(len(x) != n for x in xs):
            raise _NoEval("shape")
        return tuple(f(*t) for t in zip(*xs))
    if isinstance(e, ast.Constant) and isinstance(e.value, (int, float, bool)):
        return e.value
    if isinstance(e, ast.Attribute) and isinstance(e.value, ast.Name) and e.value.id in ("self", "b", "box"):
        if e.attr in env:
            return env[e.attr]
        if e.attr == "dim":
            return len(env["_p1"])
        if e.attr in props:
            return _vec_eval(props[e.attr], env, props, depth + 1)
        raise _NoEval(f"attribute {e.attr}")
    if isinstance(e, ast.UnaryOp):
        v = rec(e.operand)
        if isinstance(e.op, ast.Not):
            if isinstance(v, tuple):
                raise _NoEval("not of a vector")
            return not v
        if isinstance(e.op, ast.USub):
            return lift(lambda a: -a, v)
        if isinstance(e.op, ast.Invert):
            return lift(lambda a: not a, v)
    if isinstance(e, ast.BinOp):
        a, c = rec(e.left), rec(e.right)
        import operator as op_
        table = {ast.Add: op_.add, ast.Sub: op_.sub, ast.Mult: op_.mul, ast.BitOr: lambda x, y: bool(x) or bool(y),
                 ast.BitAnd: lambda x, y: bool(x) and bool(y)}
        if type(e.op) in table:
            return lift(table[type(e.op)], a, c)
        if isinstance(e.op, ast.Div):
            try:
                return lift(lambda x, y: x / y, a, c)
            except ZeroDivisionError:
                raise _NoEval("division by zero")
    if isinstance(e, ast.Compare):
        left = rec(e.left)
        res = None
        for o, cmp_ in zip(e.ops, e.comparators):
            right = rec(cmp_)
            if type(o) not in order.CMP:
                raise _NoEval("comparison")
            r = lift(order.CMP[type(o)], left, right)
            res = r if res is None else lift(lambda x, y: x and y, res, r)
            left = right
        return res
    if isinstance(e, ast.BoolOp):
        vals = [rec(v) for v in e.values]
        if any(isinstance(v, tuple) for v in vals):
            raise _NoEval("and/or of vectors")
        return all(vals) if isinstance(e.op, ast.And) else any(vals)
    if isinstance(e, ast.IfExp):
        t = rec(e.test)
        if isinstance(t, tuple):
            raise _NoEval("vector condition")
        return rec(e.body) if t else rec(e.orelse)
    if isinstance(e, ast.Call):
        tail = au.call_tail(e)
        args = [rec(a) for a in e.args]
        if isinstance(e.func, ast.Attribute) and not (isinstance(e.func.value, ast.Name) and e.func.value.id in ("np", "numpy", "math")):
            args = [rec(e.func.value)] + args
        if e.keywords and not all(k.arg in ("axis",) for k in e.keywords):
            raise _NoEval("keyword arguments")
        v = args[0] if args else None
        vec = v if isinstance(v, tuple) else ((v,) if v is not None else ())
        if tail == "any" and len(args) == 1:
            return any(vec)
        if tail == "all" and len(args) == 1:
            return all(vec)
        if tail == "prod" and len(args) == 1:
            out = 1
            for x in vec:
                out *= x
            return out
        if tail == "sum" and len(args) == 1:
            return sum(vec)
        if tail in ("min", "amin") and len(args) == 1:
            return min(vec)
        if tail in ("max", "amax") and len(args) == 1:
            return max(vec)
        if tail in ("minimum", "maximum") and len(args) == 2:
            return lift(min if tail == "minimum" else max, args[0], args[1])
        if tail in ("abs", "absolute", "fabs") and len(args) == 1:
            return lift(abs, v)
        if tail in ("bool", "float", "int", "Vec", "array", "asarray") and len(args) == 1:
            return v if tail in ("Vec", "array", "asarray") else lift({"bool": bool, "float": float, "int": int}[tail], v) \
                if not isinstance(v, tuple) else _raise("scalar conversion of a vector")
        if tail == "count_nonzero" and len(args) == 1:
            return sum(1 for x in vec if x)
        if tail == "logical_not" and len(args) == 1:
            return lift(lambda a: not a, v)
        if tail in ("logical_or", "logical_and") and len(args) == 2:
            return lift((lambda a, c: bool(a) or bool(c)) if tail == "logical_or" else (lambda a, c: bool(a) and bool(c)), args[0], args[1])
        if tail == "len" and len(args) == 1 and isinstance(v, tuple):
            return len(v)
        raise _NoEval(f"call {au.src(e.func)}")
    raise _NoEval(au.src(e)[:60])


def _raise(msg):
    raise _NoEval(msg)


def e1_empty_box(ctx):
    repo = ctx.repo
    fn = repo.func(AABB, "AABB.is_empty")
    site = ctx.site(AABB, fn)
    cls = repo.cls(AABB, "AABB")
    props = {}
    for m in cls.body:
        if isinstance(m, ast.FunctionDef) and any(isinstance(d, ast.Name) and d.id == "property" for d in m.decorator_list):
            r = [st.value for st in au.stmts(m.body) if isinstance(st, ast.Return) and st.value is not None]
            if len(r) == 1:
                props[m.name] = r[0]
    try:
        formula = order.return_formula(fn.body)
    except order.Unsupported as e:
        formula = None
        _lost(ctx, "C19-E1", site, "AABB.is_empty is no longer an if/return chain of a per-axis predicate", str(e))

    def evf(f, env):
        if f[0] == "ite":
            t = _vec_eval(f[1], env, props)
            if isinstance(t, tuple):
                raise _NoEval("vector condition")
            return evf(f[2], env) if t else evf(f[3], env)
        if f[0] == "ret" and f[1] is not None:
            v = _vec_eval(f[1], env, props)
            if isinstance(v, tuple):
                raise _NoEval("returns a vector")
            return bool(v)
        raise _NoEval("no returned value")
    if formula is not None:
        wit = None
        n_env = 0
        reason = None
        try:
            for d in (1, 2, 3):
                for vals in itertools.product((0, 1, 2), repeat=2 * d):
                    env = {"_p1": tuple(vals[:d]), "_p2": tuple(vals[d:])}
                    n_env += 1
                    want = any(a >= c for a, c in zip(env["_p1"], env["_p2"]))
                    if evf(formula, env) != want:
                        wit = (env, want)
                        break
                if wit:
                    break
        except _NoEval as e:
            reason = str(e)
        if reason is not None:
            _lost(ctx, "C19-E1", site, "AABB.is_empty is not found in a form the per-axis evaluation recognises", reason)
        else:
            ctx.check(wit is None, "C19-E1", site, "AABB.is_empty is not `some axis has mini >= maxi`",
                      (f"for the box mini={wit[0]['_p1']}, maxi={wit[0]['_p2']} the predicate answers {not wit[1]} but the box is "
                       f"{'empty' if wit[1] else 'not empty'}: a reduction over the axes (product, sum, all) is not a per-axis test, "
                       f"e.g. a box inverted along two axes has a positive product of spans; sample_AABB then samples a box "
                       f"(such as an empty intersection b1 & b2) it must refuse") if wit else "",
                      note=f"is_empty agrees with `any(mini >= maxi)` on {n_env} boxes")
    # ---- sample_AABB refuses an empty box before doing anything else
    fn = repo.func(SAMP, "sample_AABB")
    site = ctx.site(SAMP, fn)
    box_p = au.params(fn)[0]
    guard_i = None
    for i, st in enumerate(fn.body):
        if isinstance(st, ast.If) and isinstance(st.test, ast.Call) and au.call_tail(st.test) == "is_empty" \
                and isinstance(st.test.func, ast.Attribute) and isinstance(st.test.func.value, ast.Name) and st.test.func.value.id == box_p:
            guard_i = i
            break
    if guard_i is None:
        _lost(ctx, "C19-E1", site, "sample_AABB: top-level `if box.is_empty(): raise` not found",
              "an empty box (e.g. an empty intersection) has no admissible sample: the sampler must refuse, in both modes")
        return
    g = fn.body[guard_i]
    ctx.check(bool(g.body) and isinstance(g.body[-1], ast.Raise) and not g.orelse, "C19-E1", ctx.site(SAMP, fn, g),
              "sample_AABB: the empty-box test does not end in a raise", f"`{au.src(g)[:100]}`", note="empty box raises")
    draw_tails = {"random", "linspace", "meshgrid", "uniform", "normal", "rand", "random_sample"}
    early = [st for st in fn.body[:guard_i] if any(au.call_tail(c) in draw_tails for c in au.calls(st))
             or (isinstance(st, ast.If) and any(isinstance(x, ast.Return) for x in au.stmts(st.body + st.orelse)))]
    ctx.check(not early, "C19-E1", ctx.site(SAMP, fn, g), "sample_AABB: points are drawn or returned before the empty-box test",
              f"`{au.src(early[0])[:100] if early else ''}`", note="empty-box test precedes every draw and mode branch")
